"""E1 - program model: units, import graph, symbols, resolution.

Built fresh from the working tree of the repository on every invocation.
"""
from __future__ import annotations

import ast
import builtins
import os
from dataclasses import dataclass, field

from .report import AnalysisError

PKG = "torchtt"


@dataclass
class Func:
    qual: str                 # torchtt._tt_base.TT.__add__
    module: "Module"
    node: ast.FunctionDef
    cls: str | None = None    # enclosing class name
    is_property: bool = False

    @property
    def name(self):
        return self.node.name

    @property
    def short(self):          # _tt_base.TT.__add__
        return self.qual[len(PKG) + 1:]

    def params(self):
        a = self.node.args
        return [x.arg for x in a.posonlyargs + a.args]


@dataclass
class Module:
    name: str                 # torchtt._tt_base
    path: str
    src: str
    tree: ast.Module
    imports: dict = field(default_factory=dict)     # local alias -> dotted target
    defs: dict = field(default_factory=dict)        # name -> FunctionDef | ClassDef
    globals_assigned: set = field(default_factory=set)
    global_consts: dict = field(default_factory=dict)  # name -> value expression, for names bound exactly once (top level, no `global` rebinding)
    star_from: list = field(default_factory=list)

    @property
    def rel(self):
        return os.path.relpath(self.path, os.path.dirname(os.path.dirname(self.path)))


def _fp_function(fn) -> str:
    """name-free fingerprint of a function: arity, string constants (einsum subscripts, messages; not the docstring), called attribute
    names, number of returns - unchanged by renaming the function, its parameters or its locals"""
    body = list(fn.body)
    if body and isinstance(body[0], ast.Expr) and isinstance(body[0].value, ast.Constant) and isinstance(body[0].value.value, str):
        body = body[1:]
    strs, calls, rets = [], [], 0
    for st in body:
        for n in ast.walk(st):
            if isinstance(n, ast.Constant) and isinstance(n.value, str):
                strs.append(n.value)
            elif isinstance(n, ast.Call) and isinstance(n.func, ast.Attribute):
                calls.append(n.func.attr)
            elif isinstance(n, ast.Return):
                rets += 1
    a = fn.args
    return repr((len(a.posonlyargs + a.args), sorted(strs), sorted(calls), rets, len(body)))


def fingerprint_module(tree) -> dict:
    """{name: fingerprint} of the module-level functions and classes"""
    out = {}
    for node in tree.body:
        if isinstance(node, (ast.FunctionDef, ast.AsyncFunctionDef)):
            out[node.name] = "F" + _fp_function(node)
        elif isinstance(node, ast.ClassDef):
            out[node.name] = "C" + repr(sorted((sub.name, _fp_function(sub)) for sub in node.body if isinstance(sub, (ast.FunctionDef, ast.AsyncFunctionDef))))
    return out


class _Unrename(ast.NodeTransformer):
    """gives renamed private helpers their pinned names back (definitions, references, imports, attribute accesses)"""

    def __init__(self, mapping):
        self.m = mapping

    def visit_FunctionDef(self, n):
        n.name = self.m.get(n.name, n.name)
        return self.generic_visit(n)

    visit_AsyncFunctionDef = visit_FunctionDef
    visit_ClassDef = visit_FunctionDef

    def visit_Name(self, n):
        n.id = self.m.get(n.id, n.id)
        return n

    def visit_Attribute(self, n):
        n.attr = self.m.get(n.attr, n.attr)
        return self.generic_visit(n)

    def visit_ImportFrom(self, n):
        for a in n.names:
            if a.name in self.m:
                a.asname = a.asname or None
                a.name = self.m[a.name]
        return n


class Model:
    def __init__(self, repo: str | None = None, unrename: bool = True):
        self.repo = repo or os.environ.get("TTSA_REPO", "/repo")
        self.pkgdir = os.path.join(self.repo, PKG)
        self.modules: dict[str, Module] = {}
        self.functions: dict[str, Func] = {}
        self.classes: dict[str, ast.ClassDef] = {}
        self.class_module: dict[str, Module] = {}
        self.renamed: dict[str, str] = {}        # pinned name -> name in the analysed tree (helpers recognised by fingerprint)
        self._unrename = self._plan_unrename() if unrename else {}
        self._load()

    def _plan_unrename(self) -> dict:
        """A module-level function or class of the pinned tree whose name is gone, while exactly one *new* name of the same module has its
        name-free fingerprint, was renamed: the analysis gives it its pinned name back (the mapping is reported with the evidence).  Only
        names that are unique in the whole package are mapped, so that references from other modules can be rewritten by name."""
        import json
        fpfile = os.path.join(os.path.dirname(os.path.abspath(__file__)), "anchor_fingerprints.json")
        try:
            expected = json.load(open(fpfile))
        except (OSError, ValueError):
            return {}
        mapping = {}
        seen_new = {}
        for root, _, files in os.walk(self.pkgdir):
            for fn in files:
                if not fn.endswith(".py"):
                    continue
                path = os.path.join(root, fn)
                rel = os.path.relpath(path, self.repo)[:-3].replace(os.sep, ".")
                modname = rel[:-len(".__init__")] if rel.endswith(".__init__") else rel
                exp = expected.get(modname)
                if not exp:
                    continue
                try:
                    import warnings
                    with warnings.catch_warnings():
                        warnings.simplefilter("ignore", SyntaxWarning)
                        got = fingerprint_module(ast.parse(open(path, encoding="utf-8").read()))
                except (SyntaxError, OSError):
                    continue
                missing = [n for n in exp if n not in got]
                extra = [n for n in got if n not in exp]
                for x in missing:
                    cands = [y for y in extra if got[y] == exp[x]]
                    if len(cands) == 1:
                        mapping[cands[0]] = x
                        seen_new[cands[0]] = seen_new.get(cands[0], 0) + 1
        mapping = {y: x for y, x in mapping.items() if seen_new.get(y) == 1 and y != x}
        self.renamed = {x: y for y, x in mapping.items()}
        return mapping

    # ------------------------------------------------------------------ loading
    def _modpath(self, name: str):
        parts = name.split(".")
        if parts[0] != PKG:
            return None
        base = os.path.join(self.repo, *parts)
        if os.path.isfile(base + ".py"):
            return base + ".py"
        if os.path.isdir(base) and os.path.isfile(os.path.join(base, "__init__.py")):
            return os.path.join(base, "__init__.py")
        return None

    def _load(self):
        root = self._modpath(PKG)
        if root is None:
            raise AnalysisError(f"package {PKG} not found under {self.repo}")
        todo = [PKG]
        while todo:
            name = todo.pop()
            if name in self.modules:
                continue
            path = self._modpath(name)
            if path is None:
                continue
            with open(path, encoding="utf-8") as f:
                src = f.read()
            try:
                import warnings
                with warnings.catch_warnings():
                    warnings.simplefilter("ignore", SyntaxWarning)
                    tree = ast.parse(src, filename=path)
                    if self._unrename:
                        tree = _Unrename(self._unrename).visit(tree)
                    tree = _canonicalise(tree)
            except SyntaxError as e:
                raise AnalysisError(f"unit {path} does not parse: {e}")
            m = Module(name, path, src, tree)
            self.modules[name] = m
            self._scan_module(m)
            for tgt in list(m.imports.values()) + m.star_from:
                # an import of torchtt.x.y makes torchtt.x and torchtt.x.y reachable
                parts = tgt.split(".")
                for k in range(1, len(parts) + 1):
                    cand = ".".join(parts[:k])
                    if cand.startswith(PKG) and self._modpath(cand) and cand not in self.modules:
                        todo.append(cand)
        # star import expansion
        for m in self.modules.values():
            for src_mod in m.star_from:
                sm = self.modules.get(src_mod)
                if sm is None:
                    continue
                for n in sm.defs:
                    if not n.startswith("_"):
                        m.imports.setdefault(n, f"{src_mod}.{n}")
                for n, t in sm.imports.items():
                    if not n.startswith("_"):
                        m.imports.setdefault(n, t)
        # function index
        for m in self.modules.values():
            for node in m.tree.body:
                if isinstance(node, (ast.FunctionDef, ast.AsyncFunctionDef)):
                    q = f"{m.name}.{node.name}"
                    self.functions[q] = Func(q, m, node)
                elif isinstance(node, ast.ClassDef):
                    cq = f"{m.name}.{node.name}"
                    self.classes[cq] = node
                    self.class_module[cq] = m
                    for sub in node.body:
                        if isinstance(sub, (ast.FunctionDef, ast.AsyncFunctionDef)):
                            q = f"{cq}.{sub.name}"
                            isprop = any(isinstance(d, ast.Name) and d.id == "property" for d in sub.decorator_list)
                            self.functions[q] = Func(q, m, sub, cls=node.name, is_property=isprop)

    def _scan_module(self, m: Module):
        pkg_of = m.name if m.path.endswith("__init__.py") else m.name.rsplit(".", 1)[0]

        def absmod(level, module):
            if level == 0:
                return module or ""
            base = pkg_of.split(".")
            if level > 1:
                base = base[: len(base) - (level - 1)]
            return ".".join(base + ([module] if module else []))

        for node in ast.walk(m.tree):
            if isinstance(node, ast.Import):
                for a in node.names:
                    if a.asname:
                        m.imports[a.asname] = a.name
                    else:
                        top = a.name.split(".")[0]
                        m.imports[top] = top
                        if a.name.startswith(PKG):
                            # records reachability of the submodule
                            m.imports.setdefault("\0" + a.name, a.name)
            elif isinstance(node, ast.ImportFrom):
                base = absmod(node.level, node.module)
                for a in node.names:
                    if a.name == "*":
                        m.star_from.append(base)
                    else:
                        m.imports[a.asname or a.name] = f"{base}.{a.name}"
        for node in m.tree.body:
            if isinstance(node, (ast.FunctionDef, ast.AsyncFunctionDef, ast.ClassDef)):
                m.defs[node.name] = node
            elif isinstance(node, (ast.Assign, ast.AugAssign, ast.AnnAssign)):
                tg = node.targets if isinstance(node, ast.Assign) else [node.target]
                for t in tg:
                    for n in ast.walk(t):
                        if isinstance(n, ast.Name):
                            m.globals_assigned.add(n.id)
            elif isinstance(node, (ast.Try, ast.If, ast.With)):
                for n in ast.walk(node):
                    if isinstance(n, ast.Name) and isinstance(n.ctx, ast.Store):
                        m.globals_assigned.add(n.id)
        stores = {}
        for n in ast.walk(m.tree):
            if isinstance(n, ast.Global):
                for nm in n.names:
                    stores[nm] = stores.get(nm, 0) + 2
        for node in m.tree.body:
            for n in ast.walk(node) if not isinstance(node, (ast.FunctionDef, ast.AsyncFunctionDef, ast.ClassDef)) else []:
                if isinstance(n, ast.Name) and isinstance(n.ctx, ast.Store):
                    stores[n.id] = stores.get(n.id, 0) + 1
        for node in m.tree.body:
            if isinstance(node, ast.Assign) and len(node.targets) == 1 and isinstance(node.targets[0], ast.Name) and stores.get(node.targets[0].id) == 1:
                m.global_consts[node.targets[0].id] = node.value

    # ------------------------------------------------------------------ resolution
    def canon(self, dotted: str) -> str:
        """Follow re-exports through repository modules: torchtt.TT -> torchtt._tt_base.TT."""
        seen = set()
        while dotted not in seen:
            seen.add(dotted)
            if dotted in self.functions or dotted in self.classes or dotted in self.modules:
                return dotted
            parts = dotted.split(".")
            moved = False
            for k in range(len(parts) - 1, 0, -1):
                modname = ".".join(parts[:k])
                m = self.modules.get(modname)
                if m is None:
                    continue
                head, rest = parts[k], parts[k + 1:]
                if head in m.defs:
                    return dotted
                if head in m.imports:
                    dotted = ".".join([m.imports[head]] + rest)
                    moved = True
                break
            if not moved:
                return dotted
        return dotted

    def resolve(self, m: Module, expr: ast.AST) -> str | None:
        """Dotted canonical name of a Name/Attribute chain, or None."""
        parts = []
        e = expr
        while isinstance(e, ast.Attribute):
            parts.append(e.attr)
            e = e.value
        if not isinstance(e, ast.Name):
            return None
        parts.append(e.id)
        parts.reverse()
        head = parts[0]
        if head in m.defs:
            base = f"{m.name}.{head}"
        elif head in m.imports:
            base = m.imports[head]
        elif head in m.globals_assigned:
            return None
        elif hasattr(builtins, head) or head == "_ttsa_is_sequence":      # (the sequence test a desugared `match` introduces)
            base = f"builtins.{head}"
        else:
            return None
        return self.canon(".".join([base] + parts[1:]))

    def func(self, short: str) -> Func:
        q = short if short.startswith(PKG + ".") else f"{PKG}.{short}"
        f = self.functions.get(q)
        if f is None:
            raise AnalysisError(f"anchor function {q} not found in the analysed tree")
        return getattr(self, "_views", {}).get(q, f)

    def use_inlined(self, *shorts, depth: int = 2):
        """from now on func(short) is the structural view of the function: void / tail / value calls of private same-module helpers are
        replaced by their bodies (ttsa/inline.py), so that shape rules read through extract-method refactorings"""
        from .inline import inlined
        views = self.__dict__.setdefault("_views", {})
        for short in shorts:
            q = short if short.startswith(PKG + ".") else f"{PKG}.{short}"
            if q in self.functions:
                views[q] = inlined(self, self.functions[q], depth)

    def has_func(self, short: str) -> bool:
        q = short if short.startswith(PKG + ".") else f"{PKG}.{short}"
        return q in self.functions

    def where(self, f: Func | Module, node: ast.AST | None = None) -> str:
        m = f.module if isinstance(f, Func) else f
        rel = os.path.relpath(m.path, self.repo)
        ln = getattr(node, "lineno", None) if node is not None else (f.node.lineno if isinstance(f, Func) else 1)
        return f"{rel}:{ln}"

    def units(self):
        return sorted(os.path.relpath(m.path, self.repo) for m in self.modules.values())

    def public_functions(self):
        """Public API: module-level functions without leading underscore in live modules + TT methods."""
        out = []
        for q, f in self.functions.items():
            out.append(f)
        return out


class _Canon(ast.NodeTransformer):
    """Syntactic sugar is removed once, when a module is loaded, so that every rule sees one spelling:
         x: T = v          ->  x = v            (annotated assignment with a value)
         x is None         ->  x == None        (and `is not` -> `!=`), only against the literal None
         0 < n             ->  n > 0            (a constant on the left of a single comparison goes to the right)
         if not c: A else: B   ->  if c: B else: A      (two-branch `if` / conditional expression whose test is a negation: `not c`,
                                                          `a != b`, `a is not b`, `a not in b`; an elif chain is left alone)
       Positions are kept, so messages still point at the original lines."""

    @staticmethod
    def _positive(test):
        """the un-negated test when `test` is a negation, else None"""
        if isinstance(test, ast.UnaryOp) and isinstance(test.op, ast.Not):
            return test.operand
        if isinstance(test, ast.Compare) and len(test.ops) == 1 and isinstance(test.ops[0], (ast.NotEq, ast.IsNot, ast.NotIn)):
            op = {ast.NotEq: ast.Eq, ast.IsNot: ast.Is, ast.NotIn: ast.In}[type(test.ops[0])]()
            return ast.copy_location(ast.Compare(left=test.left, ops=[op], comparators=test.comparators), test)
        return None

    def visit_If(self, node):
        self.generic_visit(node)
        if node.orelse and not (len(node.orelse) == 1 and isinstance(node.orelse[0], ast.If)) \
                and not (len(node.body) == 1 and isinstance(node.body[0], ast.If) and False):
            pos = self._positive(node.test)
            if pos is not None:
                node.test, node.body, node.orelse = pos, node.orelse, node.body
        return node

    def visit_IfExp(self, node):
        self.generic_visit(node)
        pos = self._positive(node.test)
        if pos is not None:
            node.test, node.body, node.orelse = pos, node.orelse, node.body
        return node

    def visit_AnnAssign(self, node):
        self.generic_visit(node)
        if getattr(node, "_class_level", False):
            return node            # field declarations of a (data)class keep their order and annotations
        if node.value is None:
            return ast.copy_location(ast.Pass(), node)
        return ast.copy_location(ast.Assign(targets=[node.target], value=node.value), node)

    def visit_ClassDef(self, node):
        for st in node.body:
            if isinstance(st, ast.AnnAssign):
                st._class_level = True
        return self.generic_visit(node)

    def visit_Compare(self, node):
        self.generic_visit(node)
        # a constant on the left goes to the right: 0 < n  ->  n > 0,  1 == d  ->  d == 1
        flip = {ast.Eq: ast.Eq, ast.NotEq: ast.NotEq, ast.Lt: ast.Gt, ast.Gt: ast.Lt, ast.LtE: ast.GtE, ast.GtE: ast.LtE}
        if len(node.ops) == 1 and type(node.ops[0]) in flip:
            l, r = node.left, node.comparators[0]
            plain = (ast.Name, ast.Attribute, ast.Subscript)
            if (isinstance(l, ast.Constant) and not isinstance(r, ast.Constant)) or (isinstance(r, plain) and not isinstance(l, plain + (ast.Constant,))):
                # also: a computed value against a plain name -> the name goes to the left (len(shape) == k -> k == len(shape))
                node.left, node.comparators, node.ops = r, [l], [flip[type(node.ops[0])]()]
        ops = []
        for op, c in zip(node.ops, node.comparators):
            if isinstance(c, ast.Constant) and c.value is None and isinstance(op, (ast.Is, ast.IsNot)):
                ops.append(ast.Eq() if isinstance(op, ast.Is) else ast.NotEq())
            else:
                ops.append(op)
        node.ops = ops
        return node


ALIAS_ATTRS = ("cores", "N", "M", "R", "is_ttm")


def _inline_attr_aliases(fn):
    """`cores = tens.cores` - a local bound exactly once to a TT attribute of a parameter, never written through (no `X[i] = ...`, no mutating
    method call on it), where neither the parameter nor that attribute of it is ever re-bound in the function: every read of the local is
    replaced by the attribute read it stands for, so that rules and interpreters see the operand whether or not the lookup is cached."""
    import copy
    a = fn.args
    params = {x.arg for x in a.posonlyargs + a.args + a.kwonlyargs}
    own = [n for n in ast.walk(fn)]
    stores = {}
    for n in own:
        if isinstance(n, ast.Name) and isinstance(n.ctx, (ast.Store, ast.Del)):
            stores[n.id] = stores.get(n.id, 0) + 1
    attr_stores = {(n.value.id, n.attr.lstrip("_")) for n in own if isinstance(n, ast.Attribute) and isinstance(n.ctx, (ast.Store, ast.Del)) and isinstance(n.value, ast.Name)}
    sub = {}
    for n in own:
        if isinstance(n, ast.Assign) and len(n.targets) == 1 and isinstance(n.targets[0], ast.Name) and stores.get(n.targets[0].id) == 1 \
                and isinstance(n.value, ast.Attribute) and isinstance(n.value.value, ast.Name) and n.value.value.id in params \
                and n.value.value.id not in stores and n.value.attr in ALIAS_ATTRS and n.targets[0].id not in params \
                and (n.value.value.id, n.value.attr) not in attr_stores:
            nm = n.targets[0].id
            written = any((isinstance(x, (ast.Subscript, ast.Attribute)) and isinstance(x.ctx, (ast.Store, ast.Del)) and isinstance(x.value, ast.Name) and x.value.id == nm)
                          or (isinstance(x, ast.Call) and isinstance(x.func, ast.Attribute) and isinstance(x.func.value, ast.Name) and x.func.value.id == nm
                              and x.func.attr in ("append", "extend", "insert", "pop", "remove", "clear", "sort", "reverse"))
                          or (isinstance(x, ast.AugAssign) and isinstance(x.target, ast.Subscript) and isinstance(x.target.value, ast.Name) and x.target.value.id == nm)
                          for x in own)
            # a property that hands out a copy (N, M, R) may be cached and then *compared after a mutation* only in writers; plain readers are safe
            if not written:
                sub[nm] = (n, n.value)
    if not sub:
        return

    class R(ast.NodeTransformer):
        def visit_Name(s, n):
            if isinstance(n.ctx, ast.Load) and n.id in sub:
                return ast.copy_location(copy.deepcopy(sub[n.id][1]), n)
            return n

        def visit_FunctionDef(s, n):
            return n if n is not fn else s.generic_visit(n)

        visit_Lambda = visit_AsyncFunctionDef = visit_FunctionDef
    R().visit(fn)


def _mark_noreturn(tree):
    """Module-level helper functions that never return (`def _fail_shape(a, b): raise ShapeMismatch(...)`) end the path of whoever calls
    them.  A statement that is a call of such a helper is rewritten so that every rule sees it:
      * the helper is a single `raise E(...)` and the arguments are plain: the statement becomes that raise with the arguments put in (an exact
        inlining);
      * otherwise the call stays and an unreachable `raise` of the helper's exception type is placed after it (marked `_synthetic`)."""
    import copy

    def body_of(fn):
        return [x for x in fn.body if not (isinstance(x, ast.Expr) and isinstance(x.value, ast.Constant) and isinstance(x.value.value, str))]
    funcs = {n.name: n for n in tree.body if isinstance(n, ast.FunctionDef) and not n.decorator_list}
    raisers = {}

    def always(stmts):
        if not stmts:
            return False
        last = stmts[-1]
        if isinstance(last, ast.Raise):
            return True
        if isinstance(last, ast.If) and last.orelse:
            return always(last.body) and always(last.orelse)
        if isinstance(last, ast.Expr) and isinstance(last.value, ast.Call) and isinstance(last.value.func, ast.Name) and last.value.func.id in raisers:
            return True
        return False
    for _ in range(3):
        grew = False
        for nm, fn in funcs.items():
            if nm in raisers:
                continue
            if any(isinstance(x, (ast.Return, ast.Yield, ast.YieldFrom)) for x in ast.walk(fn)):
                continue
            if always(body_of(fn)):
                raisers[nm] = fn
                grew = True
        if not grew:
            break
    if not raisers:
        return tree

    def plain(e):
        return all(isinstance(x, (ast.Name, ast.Attribute, ast.Constant, ast.Subscript, ast.BinOp, ast.UnaryOp, ast.operator, ast.unaryop, ast.expr_context,
                                  ast.Tuple, ast.List, ast.Slice)) or (isinstance(x, ast.Call) and isinstance(x.func, ast.Name) and x.func.id in ("len", "str"))
                   for x in ast.walk(e))

    class Sub(ast.NodeTransformer):
        def __init__(s, m):
            s.m = m

        def visit_Name(s, n):
            return ast.copy_location(copy.deepcopy(s.m[n.id]), n) if n.id in s.m and isinstance(n.ctx, ast.Load) else n

    class R(ast.NodeTransformer):
        def visit_FunctionDef(s, n):
            if n.name in raisers and n in tree.body:
                return n
            return s.generic_visit(n)

        def generic_visit(s, node):
            for fld in ("body", "orelse", "finalbody"):
                blk = getattr(node, fld, None)
                if isinstance(blk, list) and blk and isinstance(blk[0], ast.stmt):
                    out = []
                    for st in blk:
                        st = s.visit(st)
                        out.append(st)
                        if isinstance(st, ast.Expr) and isinstance(st.value, ast.Call) and isinstance(st.value.func, ast.Name) and st.value.func.id in raisers:
                            fn = raisers[st.value.func.id]
                            call = st.value
                            b = body_of(fn)
                            a = fn.args
                            names = [x.arg for x in a.posonlyargs + a.args]
                            simple = (len(b) == 1 and isinstance(b[0], ast.Raise) and b[0].exc is not None and not call.keywords and not a.vararg and not a.kwarg
                                      and not a.kwonlyargs and not a.defaults and len(call.args) == len(names)
                                      and not any(isinstance(x, ast.Starred) for x in call.args) and all(plain(x) for x in call.args))
                            if simple:
                                new = ast.Raise(exc=Sub(dict(zip(names, call.args))).visit(copy.deepcopy(b[0].exc)), cause=None)
                                out[-1] = ast.copy_location(new, st)
                            else:
                                types = [x.exc.func if isinstance(x.exc, ast.Call) else x.exc for x in ast.walk(fn) if isinstance(x, ast.Raise) and x.exc is not None]
                                t = copy.deepcopy(types[0]) if types and all(ast.dump(y) == ast.dump(types[0]) for y in types) else ast.Name(id="Exception", ctx=ast.Load())
                                new = ast.Raise(exc=ast.Call(func=t, args=[ast.Constant(value=f"unreachable: {fn.name} never returns")], keywords=[]), cause=None)
                                new._synthetic = True
                                out.append(ast.copy_location(new, st))
                    setattr(node, fld, out)
            for h in getattr(node, "handlers", []) or []:
                s.generic_visit(h)
            return node
    R().generic_visit(tree)
    return tree


def _fold_enums(tree):
    """`class _Prec(enum.Enum): NONE = None; CENTRAL = 'c'` at module level: `_Prec.CENTRAL.value` is the literal 'c', `_Prec.CENTRAL.name` the
    literal 'CENTRAL', and `tuple(p.value for p in _Prec)` / `[p.value for p in _Prec]` the display of the member values in order."""
    enums = {}
    for n in tree.body:
        if isinstance(n, ast.ClassDef) and any((isinstance(b, ast.Attribute) and b.attr in ("Enum", "IntEnum", "StrEnum", "Flag")) or
                                               (isinstance(b, ast.Name) and b.id in ("Enum", "IntEnum", "StrEnum")) for b in n.bases):
            members = {}
            for st in n.body:
                if isinstance(st, ast.Assign) and len(st.targets) == 1 and isinstance(st.targets[0], ast.Name) and isinstance(st.value, ast.Constant):
                    members[st.targets[0].id] = st.value
                elif isinstance(st, (ast.Expr, ast.Pass, ast.FunctionDef)):
                    continue
                else:
                    members = None
                    break
            if members:
                enums[n.name] = members
    if not enums:
        return tree
    import copy

    class F(ast.NodeTransformer):
        def visit_Attribute(s, n):
            s.generic_visit(n)
            v = n.value
            if n.attr in ("value", "name") and isinstance(n.ctx, ast.Load) and isinstance(v, ast.Attribute) and isinstance(v.value, ast.Name) \
                    and v.value.id in enums and v.attr in enums[v.value.id]:
                c = copy.deepcopy(enums[v.value.id][v.attr]) if n.attr == "value" else ast.Constant(value=v.attr)
                return ast.copy_location(c, n)
            return n

        def _members(s, comp):
            if len(comp.generators) == 1 and not comp.generators[0].ifs and isinstance(comp.generators[0].iter, ast.Name) and comp.generators[0].iter.id in enums \
                    and isinstance(comp.generators[0].target, ast.Name) and isinstance(comp.elt, ast.Attribute) and comp.elt.attr == "value" \
                    and isinstance(comp.elt.value, ast.Name) and comp.elt.value.id == comp.generators[0].target.id:
                return [copy.deepcopy(c) for c in enums[comp.generators[0].iter.id].values()]
            return None

        def visit_ListComp(s, n):
            m = s._members(n)
            return ast.copy_location(ast.List(elts=m, ctx=ast.Load()), n) if m is not None else s.generic_visit(n)

        def visit_Call(s, n):
            if isinstance(n.func, ast.Name) and n.func.id in ("tuple", "list") and len(n.args) == 1 and not n.keywords \
                    and isinstance(n.args[0], (ast.GeneratorExp, ast.ListComp)):
                m = s._members(n.args[0])
                if m is not None:
                    node = ast.Tuple(elts=m, ctx=ast.Load()) if n.func.id == "tuple" else ast.List(elts=m, ctx=ast.Load())
                    return ast.copy_location(node, n)
            return s.generic_visit(n)
    return F().visit(tree)


def _canonicalise(tree):
    from .desugar import desugar
    tree = desugar(tree)
    tree = _fold_enums(tree)
    tree = _mark_noreturn(tree)
    tree = _Canon().visit(tree)
    for n in ast.walk(tree):
        if isinstance(n, (ast.FunctionDef, ast.AsyncFunctionDef)):
            _inline_attr_aliases(n)
    ast.fix_missing_locations(tree)
    return tree


def bound_args(callee, call: ast.Call):
    """{parameter name: argument expression} of a call of the repository function `callee` (a Func): positional and keyword arguments alike;
    None when the call cannot be bound (starred arguments, unknown keyword)"""
    a = callee.node.args
    names = [x.arg for x in a.posonlyargs + a.args]
    kwonly = [x.arg for x in a.kwonlyargs]
    if any(isinstance(x, ast.Starred) for x in call.args) or any(k.arg is None for k in call.keywords) or len(call.args) > len(names):
        return None
    out = dict(zip(names, call.args))
    for k in call.keywords:
        if k.arg not in names + kwonly or k.arg in out:
            return None
        out[k.arg] = k.value
    return out


def own_walk(fn):
    """the nodes of a function's own body: nested function / class definitions and lambdas are yielded but not entered (their returns and
    assignments belong to them)"""
    todo = list(ast.iter_child_nodes(fn))
    while todo:
        n = todo.pop()
        yield n
        if isinstance(n, (ast.FunctionDef, ast.AsyncFunctionDef, ast.ClassDef, ast.Lambda)):
            continue
        todo.extend(ast.iter_child_nodes(n))


def own_returns(fn):
    return sorted((n for n in own_walk(fn) if isinstance(n, ast.Return)), key=lambda n: (n.lineno, n.col_offset))


TORCH_MODULE_ALIASES = ("tn", "torch", "np", "numpy", "tnf", "oe")


def call_args(call: ast.Call, name: str):
    """Arguments of a tensor operation in either spelling: `tn.reshape(X, s)` and `X.reshape(s)` both give [X, s]; `tn.linalg.norm(X)` and
    `X.norm()` both give [X] for name 'norm'.  None when the call is not that operation."""
    f = call.func
    if not (isinstance(call, ast.Call) and isinstance(f, ast.Attribute) and f.attr == name):
        return None
    root = f.value
    while isinstance(root, ast.Attribute):
        root = root.value
    if isinstance(root, ast.Name) and root.id in TORCH_MODULE_ALIASES and not isinstance(f.value, ast.Call):
        return list(call.args)                     # function spelling
    return [f.value] + list(call.args)             # method spelling: the receiver is the first argument


def norm(node: ast.AST) -> str:
    """Normalised source text of a node (formatting-independent)."""
    try:
        return ast.unparse(node)
    except Exception:
        return ast.dump(node)


def mangle(cls: str | None, attr: str) -> str:
    """Python private-name mangling inside class bodies."""
    if cls and attr.startswith("__") and not attr.endswith("__"):
        return f"_{cls.lstrip('_')}{attr}"
    return attr
