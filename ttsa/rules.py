"""E2 - discipline rules on the program model (generic part)."""
from __future__ import annotations

import ast
import builtins

from .flow import definite_assignment, walk_with_guards, target_names
from .model import Model, Func, norm, mangle
from .report import Ob, OK, VIOLATED, ERROR, INFO


def key(f: Func, rule: str, construct: str) -> str:
    return f"{f.short}:{rule}:{construct}"


def mkey(modname: str, rule: str, construct: str) -> str:
    return f"{modname}:{rule}:{construct}"


# --------------------------------------------------------------------------- exception classes

def exception_classes(model: Model) -> set:
    """Canonical dotted names of exception classes defined in the repository."""
    out = set()
    changed = True
    while changed:
        changed = False
        for cq, node in model.classes.items():
            if cq in out:
                continue
            m = model.class_module[cq]
            for b in node.bases:
                r = model.resolve(m, b)
                if r is None:
                    continue
                if r in out:
                    out.add(cq)
                    changed = True
                elif r.startswith("builtins."):
                    obj = getattr(builtins, r.split(".", 1)[1], None)
                    if isinstance(obj, type) and issubclass(obj, BaseException):
                        out.add(cq)
                        changed = True
    return out


def is_exception_ctor(model: Model, f: Func, call: ast.AST, exc_classes: set) -> str | None:
    if not isinstance(call, ast.Call):
        return None
    r = model.resolve(f.module, call.func)
    if r is None:
        return None
    if r in exc_classes:
        return r
    if r.startswith("builtins."):
        obj = getattr(builtins, r.split(".", 1)[1], None)
        if isinstance(obj, type) and issubclass(obj, BaseException):
            return r
    return None


def rule_unraised(model: Model, funcs: list[Func]) -> list[Ob]:
    """UNRAISED: an expression statement that constructs an exception is dead code; it must be raised."""
    exc = exception_classes(model)
    obs = []
    for f in funcs:
        for n in ast.walk(f.node):
            if isinstance(n, ast.Raise) and n.exc is not None:
                if getattr(n, "_synthetic", False):
                    continue        # the unreachable marker after a call of a helper that never returns
                r = is_exception_ctor(model, f, n.exc, exc)
                if r:
                    obs.append(Ob("UNRAISED", key(f, "UNRAISED", "raise " + norm(n.exc)[:80]), OK,
                                  model.where(f, n), norm(n)[:120], "exception is raised"))
                elif isinstance(n.exc, ast.Constant) or (isinstance(n.exc, ast.Call) is False and not isinstance(n.exc, ast.Name)):
                    # `raise('text')` raises TypeError instead of the intended error: still an exception, INFO
                    obs.append(Ob("UNRAISED", key(f, "UNRAISED", "raise-nonexception " + norm(n.exc)[:60]), INFO,
                                  model.where(f, n), norm(n)[:120],
                                  "raise of a non-exception object (a TypeError surfaces instead)"))
            elif isinstance(n, ast.Expr):
                r = is_exception_ctor(model, f, n.value, exc)
                if r:
                    obs.append(Ob("UNRAISED", key(f, "UNRAISED", norm(n.value)[:80]), VIOLATED,
                                  model.where(f, n), norm(n)[:160],
                                  f"{r.rsplit('.', 1)[-1]} is constructed but not raised: execution falls through "
                                  "past the rejection of the incompatible operand"))
    return obs


# --------------------------------------------------------------------------- VACUOUS guards

def property_backing(model: Model, cls_q: str) -> dict:
    """property name -> backing attribute (mangled) when the getter returns self.<attr> or self.<attr>.copy()."""
    out = {}
    cls = model.classes.get(cls_q)
    if cls is None:
        return out
    cname = cls.name
    for sub in cls.body:
        if isinstance(sub, ast.FunctionDef) and any(isinstance(d, ast.Name) and d.id == "property" for d in sub.decorator_list):
            rets = [n for n in ast.walk(sub) if isinstance(n, ast.Return) and n.value is not None]
            if len(rets) != 1:
                continue
            v = rets[0].value
            copied = False
            if isinstance(v, ast.Call) and isinstance(v.func, ast.Attribute) and v.func.attr == "copy" and not v.args:
                v = v.func.value
                copied = True
            if isinstance(v, ast.Attribute) and isinstance(v.value, ast.Name) and v.value.id == "self":
                out[sub.name] = (mangle(cname, v.attr), copied)
    return out


def abstract_location(e: ast.AST, cls: str | None, props: dict, self_names=("self",)):
    """Canonical location of `recv.attr` after name mangling and property-getter resolution."""
    if isinstance(e, ast.Attribute) and isinstance(e.value, ast.Name):
        recv = e.value.id
        attr = e.attr
        if attr in props:
            return (recv, props[attr][0])
        return (recv, mangle(cls, attr))
    return None


def rule_vacuous(model: Model, funcs: list[Func], cls_q="torchtt._tt_base.TT") -> list[Ob]:
    """VACUOUS: a guard comparison whose two sides denote the same location can never fire."""
    props = property_backing(model, cls_q)
    obs = []
    for f in funcs:
        cls = f.cls
        for n in ast.walk(f.node):
            if not isinstance(n, ast.If):
                continue
            if not any(isinstance(s, ast.Raise) for s in n.body):
                continue
            for c in ast.walk(n.test):
                if isinstance(c, ast.Compare) and len(c.ops) == 1 and isinstance(c.ops[0], (ast.NotEq, ast.Eq, ast.Lt, ast.Gt, ast.LtE, ast.GtE)):
                    a = abstract_location(c.left, cls, props)
                    b = abstract_location(c.comparators[0], cls, props)
                    if a is None or b is None:
                        continue
                    k = key(f, "VACUOUS", norm(c))
                    if a == b:
                        obs.append(Ob("VACUOUS", k, VIOLATED, model.where(f, c), norm(c),
                                      f"both sides denote {a[0]}.{a[1]} (property getter / name mangling resolved): "
                                      "the comparison is constant, the guard can never reject a mismatching operand"))
                    else:
                        obs.append(Ob("VACUOUS", k, OK, model.where(f, c), norm(c), f"{a} vs {b}"))
    return obs


# --------------------------------------------------------------------------- TYPECMP

def _is_tensor_test(model, f, e, name):
    if isinstance(e, ast.Call):
        r = model.resolve(f.module, e.func)
        if r in ("torch.is_tensor",) and e.args and isinstance(e.args[0], ast.Name) and e.args[0].id == name:
            return True
        if r == "builtins.isinstance" and len(e.args) == 2 and isinstance(e.args[0], ast.Name) and e.args[0].id == name:
            t = model.resolve(f.module, e.args[1])
            return t in ("torch.Tensor", "torch.tensor")
    return False


def rule_typecmp(model: Model, funcs: list[Func]) -> list[Ob]:
    """TYPECMP: `t.shape == []` for a torch tensor compares a torch.Size (tuple) with a list: constant False."""
    obs = []
    for f in funcs:
        for n in ast.walk(f.node):
            if not (isinstance(n, ast.BoolOp) and isinstance(n.op, ast.And)):
                continue
            for i, v in enumerate(n.values):
                if not (isinstance(v, ast.Compare) and len(v.ops) == 1 and isinstance(v.ops[0], (ast.Eq, ast.NotEq))):
                    continue
                l, r = v.left, v.comparators[0]
                for a, b in ((l, r), (r, l)):
                    if isinstance(a, ast.Attribute) and a.attr == "shape" and isinstance(a.value, ast.Name) \
                            and isinstance(b, (ast.List,)):
                        nm = a.value.id
                        if any(_is_tensor_test(model, f, w, nm) for w in n.values[:i]):
                            obs.append(Ob("TYPECMP", key(f, "TYPECMP", norm(v)), VIOLATED, model.where(f, v), norm(n),
                                          f"{nm} is a torch tensor here, so {nm}.shape is a torch.Size (tuple subclass); a tuple "
                                          f"never equals a list: `{norm(v)}` is constant "
                                          f"{'False' if isinstance(v.ops[0], ast.Eq) else 'True'}"))
                    elif isinstance(a, ast.Attribute) and a.attr == "shape" and isinstance(b, (ast.Tuple,)) and isinstance(a.value, ast.Name):
                        nm = a.value.id
                        if any(_is_tensor_test(model, f, w, nm) for w in n.values[:i]):
                            obs.append(Ob("TYPECMP", key(f, "TYPECMP", norm(v)), OK, model.where(f, v), norm(n),
                                          "torch.Size compared with a tuple"))
    return obs


# --------------------------------------------------------------------------- DEFASSIGN

def rule_defassign(model: Model, funcs: list[Func], exceptions: dict | None = None, status=VIOLATED, domain: dict | None = None) -> list[Ob]:
    """DEFASSIGN: every local is definitely assigned at each use on the guard-correlated flow graph.
    Domain assumption: order d >= 1 (range(len(x)) loops run at least once); `domain` fixes further guards by the property's quantifier."""
    exceptions = exceptions or {}
    obs = []
    for f in funcs:
        dom = domain
        if domain == "quantifier":
            from .flow import quantifier_domain
            dom = quantifier_domain(f.node)
        bad = definite_assignment(f.node, dom)
        names_bad = {}
        for u in bad:
            names_bad.setdefault(u.name, u)
        locs = set()
        for n in ast.walk(f.node):
            if isinstance(n, ast.Name) and isinstance(n.ctx, ast.Store):
                locs.add(n.id)
        for name in sorted(locs):
            k = key(f, "DEFASSIGN", name)
            if name in names_bad:
                u = names_bad[name]
                from .flow import var_signature
                exc = exceptions.get((f.short, "sig:" + var_signature(f.node, name)))
                if exc:
                    obs.append(Ob("DEFASSIGN", k, INFO, model.where(f, u.node), name, f"excepted: {exc}"))
                    continue
                asm = ", ".join(f"{a}={b}" for a, b in u.assumption.items()) or "none"
                obs.append(Ob("DEFASSIGN", k, status, model.where(f, u.node), name,
                              f"local `{name}` is read at line {u.node.lineno} but unassigned on a path through "
                              f"{f.short} (guard assumption: {asm}; loops over range(d-1)-like ranges may run zero "
                              "times for d = 1; a branch falls through without assigning or raising)"))
            else:
                obs.append(Ob("DEFASSIGN", k, OK, model.where(f), name, "definitely assigned before every use"))
    return obs


# --------------------------------------------------------------------------- UNRES

from . import extns


def _dead_nodes(fn):
    """AST nodes inside constant-false branches (`if False and ...`) - never executed."""
    from .flow import const_bool
    dead = set()
    for n in ast.walk(fn):
        if isinstance(n, ast.If):
            cb = const_bool(n.test)
            blocks = []
            if cb is False:
                blocks = n.body
            elif cb is True:
                blocks = n.orelse
            for s in blocks:
                for x in ast.walk(s):
                    dead.add(id(x))
    # statements after one that always leaves the block (return / raise, an `if` whose taken branches all leave) are never executed

    def leaves(st):
        if isinstance(st, (ast.Return, ast.Raise)):
            return True
        if isinstance(st, ast.If):
            cb = const_bool(st.test)
            b = bool(st.body) and leaves(st.body[-1]) if cb is not False else True
            o = bool(st.orelse) and leaves(st.orelse[-1]) if cb is not True else True
            return b and o
        return False
    for n in ast.walk(fn):
        for fld in ("body", "orelse", "finalbody"):
            blk = getattr(n, fld, None)
            if isinstance(blk, list) and blk and isinstance(blk[0], ast.stmt):
                for i, st in enumerate(blk[:-1]):
                    if leaves(st):
                        for rest in blk[i + 1:]:
                            for x in ast.walk(rest):
                                dead.add(id(x))
                        break
    return dead


def class_attrs(model: Model, cls_q: str) -> set:
    cls = model.classes[cls_q]
    out = set()
    for sub in cls.body:
        if isinstance(sub, (ast.FunctionDef, ast.AsyncFunctionDef, ast.ClassDef)):
            out.add(sub.name)
        elif isinstance(sub, ast.Assign):
            for t in sub.targets:
                out |= set(target_names(t))
    for n in ast.walk(cls):
        if isinstance(n, ast.Attribute) and isinstance(n.ctx, ast.Store) and isinstance(n.value, ast.Name) and n.value.id == "self":
            out.add(n.attr)
    for b in cls.bases:
        r = model.resolve(model.class_module[cls_q], b)
        if r and r in model.classes:
            out |= class_attrs(model, r)
        elif r:
            out.add("*")   # external base class: unknown attribute set
    return out


def rule_unres(model: Model, funcs: list[Func], check_external=True) -> list[Ob]:
    """UNRES: every loaded name / self.attr / external attribute chain resolves to a definition."""
    obs = []
    for f in funcs:
        m = f.module
        fn = f.node
        # names bound anywhere in the function (params, stores, comprehension targets, imports, handlers)
        bound = set()
        for n in ast.walk(fn):
            if isinstance(n, ast.arg):
                bound.add(n.arg)
            elif isinstance(n, ast.Name) and isinstance(n.ctx, (ast.Store, ast.Del)):
                bound.add(n.id)
            elif isinstance(n, (ast.FunctionDef, ast.ClassDef, ast.AsyncFunctionDef)):
                bound.add(n.name)
            elif isinstance(n, (ast.Import, ast.ImportFrom)):
                for a in n.names:
                    bound.add((a.asname or a.name).split(".")[0])
            elif isinstance(n, ast.ExceptHandler) and n.name:
                bound.add(n.name)
        seen = set()
        dead = _dead_nodes(fn)
        for n in ast.walk(fn):
            if id(n) in dead:
                continue
            if isinstance(n, ast.Name) and isinstance(n.ctx, ast.Load):
                if n.id in seen:
                    continue
                seen.add(n.id)
                ok = (n.id in bound or n.id in m.defs or n.id in m.imports or n.id in m.globals_assigned
                      or hasattr(builtins, n.id) or n.id.startswith("_ttsa_"))
                k = key(f, "UNRES", n.id)
                if ok:
                    obs.append(Ob("UNRES", k, OK, model.where(f, n), n.id, "resolves", nontrivial=False))
                else:
                    obs.append(Ob("UNRES", k, VIOLATED, model.where(f, n), n.id,
                                  f"name `{n.id}` is not bound in {f.short}, not defined or imported in module "
                                  f"{m.name}, and is not a builtin: NameError when this statement executes"))
        # self.attr loads
        if f.cls:
            cq = f"{m.name}.{f.cls}"
            attrs = class_attrs(model, cq)
            if "*" not in attrs:
                for n in ast.walk(fn):
                    if isinstance(n, ast.Attribute) and isinstance(n.ctx, ast.Load) and isinstance(n.value, ast.Name) \
                            and n.value.id == "self":
                        k = key(f, "UNRES", "self." + n.attr)
                        if n.attr in attrs or (n.attr.startswith("__") and n.attr.endswith("__")):
                            if k not in seen:
                                seen.add(k)
                                obs.append(Ob("UNRES", k, OK, model.where(f, n), "self." + n.attr, "resolves", nontrivial=False))
                        elif k not in seen:
                            seen.add(k)
                            obs.append(Ob("UNRES", k, VIOLATED, model.where(f, n), "self." + n.attr,
                                          f"attribute `{n.attr}` is never assigned in class {f.cls} and is not a method or "
                                          "property: AttributeError when this expression is evaluated"))
        # external attribute chains
        if check_external:
            for n in ast.walk(fn):
                if isinstance(n, ast.Attribute) and isinstance(n.ctx, ast.Load):
                    # only maximal chains
                    r = None
                    base = n
                    while isinstance(base, ast.Attribute):
                        base = base.value
                    if not isinstance(base, ast.Name) or base.id in bound:
                        continue
                    r = model.resolve(m, n)
                    if r is None:
                        continue
                    k = key(f, "UNRES", r)
                    if k in seen:
                        continue
                    if r.startswith("torchtt"):
                        top = r
                        ok = (r in model.functions or r in model.classes or r in model.modules)
                        if not ok:
                            # attribute of a repo module: global variable?
                            modname, _, attr = r.rpartition(".")
                            mm = model.modules.get(modname)
                            if mm is not None:
                                ok = attr in mm.globals_assigned or attr in mm.defs or attr in mm.imports
                            else:
                                # method/attribute access on a resolved function or class (e.g. torchtt.TT.x): skip
                                continue
                        seen.add(k)
                        obs.append(Ob("UNRES", k, OK if ok else VIOLATED, model.where(f, n), r,
                                      "resolves" if ok else f"`{norm(n)}` resolves to {r}, which the repository does not define",
                                      nontrivial=not ok))
                        continue
                    has = extns.static_has(r)
                    if has is None:
                        continue
                    seen.add(k)
                    if has:
                        obs.append(Ob("UNRES", k, OK, model.where(f, n), r, "exists in the installed third-party namespace", nontrivial=False))
                    elif extns.confirmed_missing(r):
                        obs.append(Ob("UNRES", k, VIOLATED, model.where(f, n), r,
                                      f"`{norm(n)}` resolves to {r}, which does not exist in the installed "
                                      f"{r.split('.')[0]} {extns.version(r.split('.')[0])}: "
                                      "AttributeError when this expression is evaluated"))
    return obs


# --------------------------------------------------------------------------- helpers for guard tables

def guards_of_function(f: Func):
    """All raise-guards: list of (if-node, test, polarity-under-which-raise-executes, raise-node)."""
    out = []

    def rec(stmts):
        for s in stmts:
            if isinstance(s, ast.If):
                for r in s.body:
                    if isinstance(r, ast.Raise):
                        out.append((s, s.test, True, r))
                for r in s.orelse:
                    if isinstance(r, ast.Raise):
                        out.append((s, s.test, False, r))
                rec(s.body)
                rec(s.orelse)
            elif isinstance(s, (ast.For, ast.While)):
                rec(s.body)
                rec(s.orelse)
            elif isinstance(s, ast.Try):
                rec(s.body)
                for h in s.handlers:
                    rec(h.body)
                rec(s.orelse)
                rec(s.finalbody)
            elif isinstance(s, ast.With):
                rec(s.body)
    rec(f.node.body)
    return out


def raise_type(model: Model, f: Func, r: ast.Raise) -> str | None:
    if r.exc is None:
        return None
    e = r.exc.func if isinstance(r.exc, ast.Call) else r.exc
    q = model.resolve(f.module, e)
    return q.rsplit(".", 1)[-1] if q else None


def names_read(e: ast.AST) -> set:
    """Root names and dotted attribute paths read by an expression: {'self', 'self.__N', 'other', 'other.N'}."""
    out = set()
    for n in ast.walk(e):
        if isinstance(n, ast.Name):
            out.add(n.id)
        elif isinstance(n, ast.Attribute):
            try:
                out.add(norm(n))
            except Exception:
                pass
    return out


# --------------------------------------------------------------------------- name-independent recognition of the order

def order_names(fn) -> set:
    """locals bound to a length (the order d of a train), whatever they are called"""
    out = set()
    for n in ast.walk(fn):
        if isinstance(n, ast.Assign) and len(n.targets) == 1 and isinstance(n.targets[0], ast.Name) and isinstance(n.value, ast.Call) \
                and isinstance(n.value.func, ast.Name) and n.value.func.id == "len":
            out.add(n.targets[0].id)
    return out


def is_order(e, orders) -> bool:
    return (isinstance(e, ast.Name) and e.id in orders) or (isinstance(e, ast.Call) and isinstance(e.func, ast.Name) and e.func.id == "len")


def is_order_minus_one(e, orders) -> bool:
    return isinstance(e, ast.BinOp) and isinstance(e.op, ast.Sub) and is_order(e.left, orders) and isinstance(e.right, ast.Constant) and e.right.value == 1
