"""E4 - truncation-allowance analysis and the rank-decision table (CMP-TOTAL).

A threshold expression is normalised into monomials  coef * prod(atom ** rational exponent)  over the atoms
  EPS:<param>  NORM(<expr>)  <other names / parenthesised sums such as "d - 1">.
The normal form is computed by a small rewriter (products, quotients, powers, sqrt, conditional exponents);
nothing is handed to a solver.  Rules are inequalities on exponents, so tightening edits pass and loosening
edits fire.
"""
from __future__ import annotations

import ast
from dataclasses import dataclass
from fractions import Fraction

from .model import Model, Func, norm

WRAPPERS = {"cpu", "numpy", "item", "detach", "double", "float"}


@dataclass
class Mono:
    coef: Fraction
    exps: dict   # atom -> Fraction

    def mul(self, o):
        e = dict(self.exps)
        for k, v in o.exps.items():
            e[k] = e.get(k, 0) + v
            if e[k] == 0:
                del e[k]
        return Mono(self.coef * o.coef, e)

    def pow(self, p: Fraction):
        if self.coef < 0:
            return None
        c = self.coef
        if p.denominator == 1:
            c = c ** int(p) if p >= 0 else Fraction(1) / (c ** int(-p))
        elif c == 1:
            c = Fraction(1)
        else:
            c = Fraction(float(c) ** float(p)).limit_denominator(10 ** 9)
        return Mono(c, {k: v * p for k, v in self.exps.items()})

    def show(self):
        parts = [str(self.coef)] if self.coef != 1 or not self.exps else []
        for k in sorted(self.exps):
            parts.append(f"{k}^{self.exps[k]}")
        return " * ".join(parts) or "1"


def const(x) -> Mono:
    return Mono(Fraction(x).limit_denominator(10 ** 12), {})


def atom(name) -> Mono:
    return Mono(Fraction(1), {name: Fraction(1)})


def strip_wrappers(e):
    while True:
        if isinstance(e, ast.Call) and isinstance(e.func, ast.Attribute) and e.func.attr in WRAPPERS and not e.args:
            e = e.func.value
        else:
            return e


class Normaliser:
    def __init__(self, model: Model, f: Func, eps_params=("eps",)):
        self.model = model
        self.f = f
        self.eps_params = set(eps_params)
        self.assign_count = {}
        for n in ast.walk(f.node):
            if isinstance(n, ast.Name) and isinstance(n.ctx, ast.Store):
                self.assign_count[n.id] = self.assign_count.get(n.id, 0) + 1
        # single-assignment locals are named by their definition (with such locals expanded in turn), so that the normal forms do
        # not depend on how a local happens to be called: d = len(N) -> `len(N)`
        self.single_def = {}
        for n in ast.walk(f.node):
            if isinstance(n, ast.Assign) and len(n.targets) == 1 and isinstance(n.targets[0], ast.Name) and self.assign_count.get(n.targets[0].id) == 1:
                self.single_def[n.targets[0].id] = n.value
        # locals bound in several branches to the *same* value up to container conversions (`S_host = S.cpu()` / `S_host = S`), tuple assignments
        # included, are named by that value as well
        defs = {}
        for n in ast.walk(f.node):
            if isinstance(n, ast.Assign) and len(n.targets) == 1:
                t, v = n.targets[0], n.value
                if isinstance(t, ast.Name):
                    defs.setdefault(t.id, []).append(v)
                elif isinstance(t, (ast.Tuple, ast.List)) and isinstance(v, (ast.Tuple, ast.List)) and len(t.elts) == len(v.elts):
                    for x, y in zip(t.elts, v.elts):
                        if isinstance(x, ast.Name):
                            defs.setdefault(x.id, []).append(y)
            elif isinstance(n, (ast.AugAssign, ast.For, ast.comprehension, ast.NamedExpr, ast.With)):
                for x in ast.walk(n.target if hasattr(n, "target") else n):
                    if isinstance(x, ast.Name) and isinstance(x.ctx, ast.Store):
                        defs.setdefault(x.id, []).append(None)
        params = set(f.params())
        for nm, vs in defs.items():
            if nm in self.single_def or nm in params or len(vs) < 2 or any(v is None for v in vs) or len(vs) != self.assign_count.get(nm):
                continue
            # a definition that only converts the name itself (`S_norm = S_norm.cpu()`) says nothing new
            own = [v for v in vs if not (isinstance(strip_wrappers(v), ast.Name) and strip_wrappers(v).id == nm)]
            texts = {norm(strip_wrappers(v)) for v in own}
            if len(texts) == 1 and own:
                self.single_def[nm] = strip_wrappers(own[0])

    def canon(self, e, depth=0) -> str:
        """text of an expression with single-assignment locals replaced by their defining expressions"""
        import copy
        outer = self

        class R(ast.NodeTransformer):
            def visit_Call(s, n):
                # len(X) with X = [g(e) for e in Y] (one generator, no filter) or list(Y): the length of Y
                if isinstance(n.func, ast.Name) and n.func.id == "len" and len(n.args) == 1 and isinstance(n.args[0], ast.Name) and depth < 4:
                    d = outer.single_def.get(n.args[0].id) if n.args[0].id not in outer.f.params() else None
                    src = None
                    if isinstance(d, ast.ListComp) and len(d.generators) == 1 and not d.generators[0].ifs and isinstance(d.generators[0].iter, ast.Name):
                        src = d.generators[0].iter
                    elif isinstance(d, ast.Call) and isinstance(d.func, ast.Name) and d.func.id == "list" and len(d.args) == 1 and isinstance(d.args[0], ast.Name):
                        src = d.args[0]
                    elif isinstance(d, ast.List) and not d.elts:
                        src = outer._filled_per_element(n.args[0].id)
                    if src is not None:
                        return ast.parse(outer.canon(ast.Call(func=ast.Name(id="len", ctx=ast.Load()), args=[src], keywords=[]), depth + 1), mode="eval").body
                return s.generic_visit(n)

            def visit_Name(s, n):
                if isinstance(n.ctx, ast.Load) and n.id in outer.single_def and depth < 4 and n.id not in outer.f.params():
                    d = outer.single_def[n.id]
                    if isinstance(d, (ast.Call, ast.Attribute, ast.BinOp, ast.Name, ast.Subscript)) and len(norm(d)) < 60:
                        return ast.parse(outer.canon(d, depth + 1), mode="eval").body
                return n
        return norm(R().visit(copy.deepcopy(e)))

    def _filled_per_element(self, name):
        """X = [] filled by exactly one `X.append(...)` per iteration of `for t in Y` (and touched in no other way): the name Y, else None"""
        uses = [n for n in ast.walk(self.f.node) if isinstance(n, ast.Name) and n.id == name and isinstance(n.ctx, ast.Load)]
        muts = [n for n in ast.walk(self.f.node) if isinstance(n, ast.Call) and isinstance(n.func, ast.Attribute) and isinstance(n.func.value, ast.Name)
                and n.func.value.id == name and n.func.attr in ("append", "extend", "insert", "pop", "remove", "clear", "sort", "reverse")]
        stores = [n for n in ast.walk(self.f.node) if isinstance(n, (ast.Subscript, ast.Attribute)) and isinstance(n.ctx, (ast.Store, ast.Del))
                  and isinstance(n.value, ast.Name) and n.value.id == name]
        if len(muts) != 1 or muts[0].func.attr != "append" or stores:
            return None
        for lp in ast.walk(self.f.node):
            if isinstance(lp, ast.For) and isinstance(lp.iter, ast.Name) and not lp.orelse \
                    and any(isinstance(st, ast.Expr) and st.value is muts[0] for st in lp.body) \
                    and not any(isinstance(x, (ast.Break, ast.Continue)) for x in ast.walk(lp)):
                return lp.iter
        return None

    def monos(self, e, env) -> list[Mono] | None:
        """All monomials the expression may denote (one per branch of conditional sub-expressions)."""
        e = self.strip(e)
        if isinstance(e, ast.Constant) and isinstance(e.value, (int, float)) and not isinstance(e.value, bool):
            return [const(e.value)]
        if isinstance(e, ast.Name):
            if e.id in env:
                return env[e.id]
            g = self.f.module.global_consts.get(e.id) if e.id not in self.assign_count and e.id not in self.f.params() else None
            if g is not None:
                from .e5.interp import _fold_const
                c = _fold_const(g)
                if c is not None:
                    return [const(c)]           # a module-level numeric constant bound once
            return [atom(e.id)]
        if isinstance(e, ast.UnaryOp) and isinstance(e.op, ast.USub):
            return None
        if isinstance(e, ast.BinOp):
            if isinstance(e.op, (ast.Mult, ast.Div)):
                l, r = self.monos(e.left, env), self.monos(e.right, env)
                if l is None or r is None:
                    return None
                out = []
                for a in l:
                    for b in r:
                        bb = b if isinstance(e.op, ast.Mult) else b.pow(Fraction(-1))
                        if bb is None:
                            return None
                        out.append(a.mul(bb))
                return out
            if isinstance(e.op, ast.Pow):
                base = self.monos(e.left, env)
                exps = self.exponents(e.right)
                if base is None or exps is None:
                    return None
                out = []
                for b in base:
                    for p in exps:
                        q = b.pow(p)
                        if q is None:
                            return None
                        out.append(q)
                return out
            if isinstance(e.op, (ast.Add, ast.Sub)):
                return [atom("(" + self.canon(e) + ")")]
            return None
        if isinstance(e, ast.Call):
            r = self.model.resolve(self.f.module, e.func)
            if r in ("numpy.sqrt", "torch.sqrt", "math.sqrt") and len(e.args) == 1:
                b = self.monos(e.args[0], env)
                if b is None:
                    return None
                return [x.pow(Fraction(1, 2)) for x in b]
            method_norm = r is None and isinstance(e.func, ast.Attribute) and e.func.attr == "norm" and not e.args and not e.keywords
            if (r in ("torch.linalg.norm", "numpy.linalg.norm", "torch.norm") and len(e.args) >= 1) or method_norm:
                if not method_norm and (len(e.args) > 1 or e.keywords):
                    return None
                # S.norm() is the method spelling of the 2-norm of S
                cur = self.strip(e.func.value if method_norm else e.args[0])
                for _ in range(4):
                    if isinstance(cur, ast.Name) and cur.id in self.single_def and cur.id not in self.f.params():
                        cur = self.strip(self.single_def[cur.id])
                    else:
                        break
                return [atom("NORM(" + norm(cur) + ")")]
            if r in ("builtins.float", "builtins.abs") and len(e.args) == 1:
                return self.monos(e.args[0], env)
            if r == "builtins.max" and len(e.args) == 2 and not e.keywords:
                # max(x, 1) guards a count against 0 (no bond at all): for every train that is truncated it is x
                for a, b in ((e.args[0], e.args[1]), (e.args[1], e.args[0])):
                    if isinstance(b, ast.Constant) and b.value == 1:
                        return self.monos(a, env)
            cnt = self._filtered_count(e)
            if cnt is not None:
                return [atom(cnt)]
            if isinstance(e.func, ast.Name) and len(e.args) == 1 and not e.keywords and self._is_conversion(self.single_def.get(e.func.id)):
                # a local `to_numpy = (lambda t: t.cpu().numpy()) if ... else (lambda t: t.numpy())`: a change of container, the same number
                return self.monos(e.args[0], env)
            return None
        if isinstance(e, ast.IfExp):
            # a branch taken only when there is no bond to truncate (order <= 1) carries no allowance obligation
            dead = self._no_bond_branch(e.test)
            if dead == "orelse":
                return self.monos(e.body, env)
            if dead == "body":
                return self.monos(e.orelse, env)
            a, b = self.monos(e.body, env), self.monos(e.orelse, env)
            if a is None or b is None:
                return None
            return a + b
        return None

    def _filtered_count(self, e):
        """`sum([1 for n in X if c])`, `len([n for n in X if c])`, `sum(c for n in X)`: the number of elements of X that satisfy a condition - a
        quantity that is at most len(X) and in general smaller (named COUNT-IF(X): it is not the number of bonds)"""
        if not (isinstance(e, ast.Call) and isinstance(e.func, ast.Name) and e.func.id in ("sum", "len") and len(e.args) == 1 and not e.keywords):
            return None
        c = e.args[0]
        if not isinstance(c, (ast.ListComp, ast.GeneratorExp)) or len(c.generators) != 1:
            return None
        g = c.generators[0]
        filtered = bool(g.ifs) or (e.func.id == "sum" and isinstance(c.elt, (ast.Compare, ast.BoolOp)))
        if not filtered:
            return None
        return "COUNT-IF(" + norm(g.iter) + ")"

    def strip(self, e):
        """e without value-preserving wrappers: conversion methods and local conversion lambdas"""
        while True:
            e = strip_wrappers(e)
            if isinstance(e, ast.Call) and isinstance(e.func, ast.Name) and len(e.args) == 1 and not e.keywords \
                    and self._is_conversion(self.single_def.get(e.func.id)):
                e = e.args[0]
                continue
            return e

    def _is_conversion(self, v):
        """a lambda (or a choice between lambdas) whose body is its own parameter under container conversions (.cpu(), .numpy(), .item() ...)"""
        if v is None:
            return False
        if isinstance(v, ast.IfExp):
            return self._is_conversion(v.body) and self._is_conversion(v.orelse)
        if isinstance(v, ast.Lambda) and len(v.args.args) == 1 and not v.args.vararg and not v.args.kwonlyargs:
            b = strip_wrappers(v.body)
            return isinstance(b, ast.Name) and b.id == v.args.args[0].arg
        return False

    def _no_bond_branch(self, test):
        """'body' / 'orelse' when that branch of `X if test else Y` is reached only for trains without bonds (order <= 1): the test compares an
        order (len(...) or a local defined as one, possibly minus 1) with a small constant"""
        if not (isinstance(test, ast.Compare) and len(test.ops) == 1 and isinstance(test.comparators[0], ast.Constant)
                and isinstance(test.comparators[0].value, int)):
            return None
        c = test.comparators[0].value
        txt = self.canon(test.left).replace(" ", "")
        import re as _re
        if _re.fullmatch(r"len\([A-Za-z_][\w.]*\)", txt):
            off = 0
        elif _re.fullmatch(r"len\([A-Za-z_][\w.]*\)-1", txt):
            off = 1
        else:
            return None
        op = test.ops[0]
        # order - off  OP  c   holds exactly for orders >= 2 ?
        def holds(order):
            v = order - off
            return {ast.Gt: v > c, ast.GtE: v >= c, ast.Lt: v < c, ast.LtE: v <= c, ast.Eq: v == c, ast.NotEq: v != c}.get(type(op), None)
        if holds(1) is None:
            return None
        big = all(holds(o) for o in (2, 3, 5, 50))
        small = holds(1)
        if big and not small:
            return "orelse"      # the else branch is the order-1 case
        if not any(holds(o) for o in (2, 3, 5, 50)) and small:
            return "body"
        return None

    def exponents(self, e) -> list[Fraction] | None:
        if isinstance(e, ast.Constant) and isinstance(e.value, (int, float)):
            return [Fraction(e.value).limit_denominator(1000)]
        if isinstance(e, ast.UnaryOp) and isinstance(e.op, ast.USub):
            x = self.exponents(e.operand)
            return None if x is None else [-v for v in x]
        if isinstance(e, ast.IfExp):
            a, b = self.exponents(e.body), self.exponents(e.orelse)
            if a is None or b is None:
                return None
            return a + b
        if isinstance(e, ast.BinOp) and isinstance(e.op, ast.Div):
            a, b = self.exponents(e.left), self.exponents(e.right)
            if a and b and len(a) == 1 and len(b) == 1 and b[0] != 0:
                return [a[0] / b[0]]
        return None

    def env_at(self, target: ast.AST) -> dict:
        """Monomial environment on reaching `target`, by a sequential walk of the enclosing blocks."""
        env = {}
        for p in self.f.params():
            if p in self.eps_params:
                env[p] = [atom("EPS:" + p)]
        found = [False]

        def contains(stmt):
            return any(n is target for n in ast.walk(stmt))

        def walk(stmts, env):
            for s in stmts:
                if found[0]:
                    return
                if contains(s):
                    if isinstance(s, (ast.For, ast.While, ast.With)):
                        walk(s.body, env)
                        if not found[0]:
                            walk(getattr(s, "orelse", []), env)
                    elif isinstance(s, ast.If):
                        if any(contains(x) for x in s.body):
                            walk(s.body, env)
                        else:
                            walk(s.orelse, env)
                    elif isinstance(s, ast.Try):
                        walk(s.body, env)
                        for h in s.handlers:
                            if not found[0]:
                                walk(h.body, env)
                    else:
                        found[0] = True
                    if not found[0]:
                        found[0] = True
                    return
                self.transfer(s, env)
        walk(self.f.node.body, env)
        return env

    def transfer(self, s, env):
        if isinstance(s, ast.Assign) and len(s.targets) == 1 and isinstance(s.targets[0], ast.Name):
            m = self.monos(s.value, env)
            name = s.targets[0].id
            if m is not None:
                env[name] = m
            elif self.assign_count.get(name, 0) == 1:
                env[name] = [atom(self.canon(s.value))]          # single-assignment opaque quantity (d = len(N)): named by its definition
            else:
                env[name] = [atom(f"VAR:{name}@{norm(s.value)[:40]}")]
        elif isinstance(s, ast.AugAssign) and isinstance(s.target, ast.Name):
            name = s.target.id
            cur = env.get(name, [atom(name)])
            r = self.monos(s.value, env)
            if r is not None and isinstance(s.op, (ast.Mult, ast.Div)):
                out = []
                for a in cur:
                    for b in r:
                        bb = b if isinstance(s.op, ast.Mult) else b.pow(Fraction(-1))
                        out.append(a.mul(bb) if bb is not None else atom("VAR:" + name))
                env[name] = out
            else:
                env[name] = [atom(f"VAR:{name}@aug")]
        elif isinstance(s, ast.Assign) and len(s.targets) == 1 and isinstance(s.targets[0], (ast.Tuple, ast.List)) \
                and isinstance(s.value, (ast.Tuple, ast.List)) and len(s.targets[0].elts) == len(s.value.elts) \
                and all(isinstance(x, ast.Name) for x in s.targets[0].elts):
            # a, b = X, Y: element by element, all right-hand sides evaluated first
            vals = [self.monos(v, env) for v in s.value.elts]
            for x, v, m in zip(s.targets[0].elts, s.value.elts, vals):
                env[x.id] = m if m is not None else [atom(f"VAR:{x.id}@{norm(v)[:40]}")]
        elif isinstance(s, (ast.Assign,)):
            for t in s.targets:
                for n in ast.walk(t):
                    if isinstance(n, ast.Name) and isinstance(n.ctx, ast.Store):
                        env[n.id] = [atom(f"VAR:{n.id}@{norm(s.value)[:30]}")]
        elif isinstance(s, ast.If):
            a, b = dict(env), dict(env)
            for x in s.body:
                self.transfer(x, a)
            for x in s.orelse:
                self.transfer(x, b)
            for k in set(a) | set(b):
                va, vb = a.get(k), b.get(k)
                if va is not None and vb is not None and [m.show() for m in va] == [m.show() for m in vb]:
                    env[k] = va
                elif va is not None or vb is not None:
                    if k in env and va is not None and vb is not None:
                        env[k] = va + vb
                    elif va is not None and vb is not None:
                        env[k] = va + vb
                    else:
                        env[k] = (va or []) + (vb or []) + ([atom(k)] if k not in env else env[k])
        elif isinstance(s, (ast.For, ast.While)):
            for x in s.body:
                self.transfer(x, env)
        elif isinstance(s, ast.Try):
            for x in s.body:
                self.transfer(x, env)
        elif isinstance(s, ast.With):
            for x in s.body:
                self.transfer(x, env)


def find_calls(model: Model, f: Func, target_q: str):
    return [n for n in ast.walk(f.node) if isinstance(n, ast.Call) and model.resolve(f.module, n.func) == target_q]


def check_relative_allowance(m: Mono, eps_atom: str, norm_arg: str | None, share_atoms: dict, need_norm=True):
    """Rule: coef <= 1, exp(eps) = 1, exp(NORM(arg)) = 1 (if need_norm), the share atom (d or d-1) has exponent
    <= the required bound, and no atom other than eps/NORM has a positive exponent (atoms are >= 1).
    Returns (ok, reason)."""
    e = dict(m.exps)
    if m.coef > 1:
        return False, f"constant factor {m.coef} > 1 loosens the allowance"
    if e.pop(eps_atom, 0) != 1:
        return False, f"the tolerance {eps_atom} does not enter linearly (exponent {m.exps.get(eps_atom, 0)})"
    if need_norm:
        na = [k for k in e if k.startswith("NORM(")]
        if len(na) != 1 or e[na[0]] != 1:
            return False, f"the threshold is not relative to exactly one Frobenius norm (norm atoms: {na})"
        if norm_arg is not None and na[0] != f"NORM({norm_arg})":
            return False, f"the norm is taken of `{na[0]}`, not of the truncated spectrum `{norm_arg}`"
        e.pop(na[0])
    ok_share = False
    import re as _re
    for a, bound in share_atoms.items():
        for k, v in e.items():
            if (k == a or (a.startswith("re:") and _re.fullmatch(a[3:], k))) and v <= bound:
                ok_share = True
    if not ok_share:
        return False, ("the allowance is not divided among the truncations: need exponent "
                       + " or ".join(f"{a} <= {b}" for a, b in share_atoms.items()) + f", found {m.show()}")
    for a, v in e.items():
        if v > 0:
            return False, f"factor {a}^{v} (>= 1) enlarges the allowance"
    return True, m.show()


# --------------------------------------------------------------------------- CMP-TOTAL for rank_chop

def cmp_total(model: Model, f: Func):
    """Extract the decision structure of the vectorised rank_chop and check the decision table.
    Returns (status, detail, facts) with status in ok/violated/unmodelled."""
    fn = f.node
    params = f.params()
    if len(params) < 2:
        return "unmodelled", "rank_chop no longer takes (s, eps)", {}
    spec, thr_name = params[0], params[1]
    tail = None          # name of the non-increasing tail-energy vector
    selector = None      # (op, threshold text)
    fallback = None      # (op, threshold text, value text)
    floor = False
    sel_fn = None
    result_name = None
    for n in ast.walk(fn):
        if isinstance(n, ast.Return) and isinstance(n.value, ast.IfExp):
            # `return A if c else B` decides like `R = A if c else B; return R`
            n = ast.copy_location(ast.Assign(targets=[ast.Name(id="<returned>", ctx=ast.Store())], value=n.value), n)
        if isinstance(n, ast.Assign) and len(n.targets) == 1 and isinstance(n.targets[0], ast.Name):
            v = n.value
            # tail energies: cumsum(<...>[::-1] ...)[::-1]
            if isinstance(v, ast.Subscript) and _is_rev(v.slice) and isinstance(v.value, ast.Call) \
                    and model.resolve(f.module, v.value.func) in ("numpy.cumsum", "torch.cumsum"):
                inner = v.value.args[0] if v.value.args else None
                if inner is not None and any(isinstance(x, ast.Subscript) and _is_rev(x.slice) for x in ast.walk(inner)) \
                        and _squares(inner):
                    tail = n.targets[0].id
            # selector: argmax(tail OP thr)
            if isinstance(v, ast.Call) and model.resolve(f.module, v.func) in ("numpy.argmax", "torch.argmax", "numpy.argmin", "torch.argmin") \
                    and v.args and isinstance(v.args[0], ast.Compare) and len(v.args[0].ops) == 1:
                c = v.args[0]
                if isinstance(c.left, ast.Name):
                    selector = (type(c.ops[0]).__name__, norm(c.comparators[0]), c.left.id)
                    sel_fn = model.resolve(f.module, v.func).rsplit(".", 1)[-1]
                    result_name = n.targets[0].id
            # fallback / floor: X if COND else Y
            if isinstance(v, ast.IfExp) and isinstance(v.test, ast.Compare) and len(v.test.ops) == 1:
                t = v.test
                if isinstance(t.left, ast.Subscript) and isinstance(t.left.value, ast.Name) and _is_last(t.left.slice):
                    fallback = (type(t.ops[0]).__name__, norm(t.comparators[0]), norm(v.body), t.left.value.id, norm(v.orelse))
                elif isinstance(t.left, ast.Name) and isinstance(t.ops[0], ast.Gt) and norm(t.comparators[0]) == "0" \
                        and norm(v.orelse) == "1" and norm(v.body) == t.left.id:
                    floor = True
    facts = {"tail": tail, "selector": selector, "fallback": fallback, "floor": floor, "selector_fn": sel_fn}
    if tail is None or selector is None or fallback is None:
        return "unmodelled", "rank_chop is not in the recognised vectorised form (reversed cumulative sum of squares -> " \
                             "comparison -> argmax -> keep-all fallback)", facts
    if selector[2] != tail or fallback[3] != tail:
        return "violated", f"selector/fallback compare `{selector[2]}`/`{fallback[3]}`, not the tail-energy vector `{tail}`", facts
    if selector[1] != fallback[1]:
        return "violated", f"selector threshold `{selector[1]}` differs from fallback threshold `{fallback[1]}`", facts
    if thr_name not in selector[1] or "**2" not in selector[1].replace(" ", ""):
        return "violated", f"tail energies (squares) are compared with `{selector[1]}`, not with the squared threshold", facts
    if sel_fn != "argmax":
        return "violated", f"`{sel_fn}` of the boolean vector does not select the first qualifying index (minimal rank)", facts
    if spec + ".size" not in fallback[2] and "len(" + spec not in fallback[2]:
        return "violated", f"fallback keeps `{fallback[2]}` instead of all {spec}.size singular values", facts
    if fallback[4] != result_name:
        return "violated", f"fallback's else-value `{fallback[4]}` is not the selector result `{result_name}`", facts
    if not floor:
        return "violated", "the rank is not floored at 1 (`R if R > 0 else 1`)", facts
    # decision table over the ordering of (tail[-1], t); tail is non-increasing, so any(tail OP t) <=> tail[-1] OP t
    sel_fires = {"Lt": {"<"}, "LtE": {"<", "="}}.get(selector[0])
    fb_fires = {"Gt": {">"}, "GtE": {">", "="}}.get(fallback[0])
    if sel_fires is None:
        return "violated", f"selector uses `{selector[0]}`: it accepts discarding a tail whose energy exceeds the threshold", facts
    if fb_fires is None:
        return "violated", f"keep-all fallback uses `{fallback[0]}`: it does not fire when the whole tail exceeds the threshold", facts
    table = {}
    for o in ("<", "=", ">"):
        s_, f_ = o in sel_fires, o in fb_fires
        table[o] = "keep-all" if f_ else ("chop" if s_ else "NONE")
    facts["table"] = table
    bad = [o for o, v in table.items() if v == "NONE"]
    if bad:
        return "violated", (f"decision table over (tail energy {bad[0]} threshold) is not total: selector `{tail} "
                            f"{_sym(selector[0])} t` and fallback `{tail}[-1] {_sym(fallback[0])} t` both fail when the "
                            f"discarded energy equals the threshold exactly; argmax of an all-False vector is 0, floored "
                            f"to rank 1 -- the whole spectrum but one value is discarded. table={table}"), facts
    return "ok", f"table={table}", facts


def _sym(n):
    return {"Lt": "<", "LtE": "<=", "Gt": ">", "GtE": ">=", "Eq": "==", "NotEq": "!="}.get(n, n)


def _is_rev(sl):
    return isinstance(sl, ast.Slice) and sl.lower is None and sl.upper is None and isinstance(sl.step, ast.UnaryOp) \
        and isinstance(sl.step.op, ast.USub) and isinstance(sl.step.operand, ast.Constant) and sl.step.operand.value == 1


def _is_last(sl):
    return isinstance(sl, ast.UnaryOp) and isinstance(sl.op, ast.USub) and isinstance(sl.operand, ast.Constant) and sl.operand.value == 1


def _squares(e):
    for n in ast.walk(e):
        if isinstance(n, ast.BinOp) and isinstance(n.op, ast.Pow) and isinstance(n.right, ast.Constant) and n.right.value == 2:
            return True
    return False
