"""E3 - alias / mutation effect analysis.

Flow-sensitive abstract interpretation of function bodies over *origins*; bottom-up summaries over the
resolved call graph.  A value is described by
  roots : the objects it may be (fresh, or reachable from a parameter through a path of attribute/element steps;
          tensor views keep the root of the storage they share),
  kind  : L(ist-like) / T(ensor) / O(bject) / ? ,
  elem  : abstraction of its elements (containers), attrs: explicit attributes (objects built in the function).
Sinks are in-place tensor writes, subscript/attribute stores and list mutations whose target has a
parameter root.  Nothing is executed; user callbacks and unresolved callees are assumed effect-free
(stated in the evidence assumptions).
"""
from __future__ import annotations

import ast
from dataclasses import dataclass, field

from .model import Model, Func, norm, mangle
from .rules import property_backing

F = ("F",)
MAXPATH = 5
_BINOPS = {"Add": "add", "Sub": "sub", "Mult": "mul", "Div": "truediv", "MatMult": "matmul", "Pow": "pow"}

VIEW_FUNCS = {"reshape", "permute", "squeeze", "unsqueeze", "conj", "diagonal", "transpose", "t", "flatten",
              "narrow", "movedim", "swapaxes", "real", "imag", "detach", "as_strided", "ravel", "view_as_real",
              "view_as_complex", "as_tensor", "from_numpy", "atleast_1d", "atleast_2d", "atleast_3d", "adjoint",
              "conj_physical", "resolve_conj", "select", "unbind", "split", "chunk", "tensor_split", "expand_copy_"}
VIEW_METHODS = {"reshape", "view", "permute", "squeeze", "unsqueeze", "conj", "t", "diagonal", "transpose", "detach",
                "contiguous", "flatten", "ravel", "expand", "expand_as", "narrow", "to", "cpu", "cuda", "numpy", "type",
                "double", "float", "half", "swapaxes", "movedim", "unfold", "view_as", "reshape_as", "adjoint",
                "resolve_conj", "select", "unbind", "split", "chunk", "real", "imag", "__getitem__", "data"}
VIEW_ATTRS = {"T", "mT", "H", "mH", "real", "imag", "data"}
FRESH_ATTRS = {"shape", "dtype", "device", "grad", "requires_grad", "grad_fn", "is_cuda", "ndim", "size"}
LIST_MUTATORS = {"append", "extend", "insert", "pop", "remove", "clear", "sort", "reverse", "update", "setdefault",
                 "add", "discard"}
LIST_ATTRS = {"cores"}
CONTAINER_CTORS = {"list", "tuple", "sorted", "reversed", "set", "frozenset"}


@dataclass(frozen=True)
class V:
    roots: frozenset = frozenset([F])
    kind: str = "?"
    elem: "V | None" = None
    attrs: tuple | None = None      # sorted tuple of (name, V)
    items: tuple | None = None      # positional items of a display (destructuring)

    def has_param(self):
        return any(r[0] == "P" for r in self.roots)


FRESH = V()
FRESH_T = V(kind="T")
_STAR = V(kind="*")      # marker: "an unpacked sequence of unknown length stood here"


def join(a: V | None, b: V | None) -> V | None:
    if a is None:
        return b
    if b is None:
        return a
    if a == b:
        return a
    kind = a.kind if a.kind == b.kind else "?"
    elem = None
    if (a.elem is not None or b.elem is not None) and "T" not in (a.kind, b.kind):
        # (a tensor is its own element - a view of the same storage: there is nothing to descend into)
        elem = join(elem_of(a), elem_of(b))
    attrs = None
    if a.attrs is not None or b.attrs is not None:
        da, db = dict(a.attrs or ()), dict(b.attrs or ())
        names = set(da) | set(db)
        attrs = tuple(sorted((n, join(da.get(n) or attr_of(a, n), db.get(n) or attr_of(b, n))) for n in names))
    items = a.items if (a.items is not None and b.items is not None and len(a.items) == len(b.items)) else None
    if items is not None:
        items = tuple(join(x, y) for x, y in zip(a.items, b.items))
    else:
        # `pair = (x.cores, x.R) if x is not None else None`: joining a display with a fresh non-container (None, a number) keeps its positions
        plain = lambda v: v.roots == frozenset([F]) and v.elem is None and v.attrs is None and v.items is None
        bare = lambda v: v.kind == "?" and v.elem is None and v.attrs is None and v.items is None       # an object known only by its path
        if a.items is not None and plain(b):
            items = a.items
        elif b.items is not None and plain(a):
            items = b.items
        elif a.items is not None and bare(b):
            items = tuple(join(x, V(_step(b.roots, f"[{i}]"))) for i, x in enumerate(a.items))      # position i of whatever the path denotes
        elif b.items is not None and bare(a):
            items = tuple(join(V(_step(a.roots, f"[{i}]")), x) for i, x in enumerate(b.items))
    return V(a.roots | b.roots, kind, elem, attrs, items)


def _step(roots, step):
    out = set()
    for r in roots:
        if r[0] == "P":
            out.add(r + (step,) if len(r) < MAXPATH + 2 else r)
        else:
            out.add(r)
    return frozenset(out)


def elem_of(v: V) -> V:
    if v.kind == "T":
        return v            # indexing a tensor gives a view of the same storage
    if v.elem is not None:
        return v.elem
    return V(_step(v.roots, "[*]"))


def attr_of(v: V, name: str) -> V:
    if v.attrs is not None:
        d = dict(v.attrs)
        if name in d:
            return d[name]
    kind = "L" if name in LIST_ATTRS else "?"
    return V(_step(v.roots, "." + name), kind)


def resolve_path(v: V, steps) -> V:
    for s in steps:
        if s == "[*]":
            v = elem_of(v)
        elif s.startswith("[") and s[1:-1].isdigit():
            i = int(s[1:-1])
            v = v.items[i] if v.items is not None and i < len(v.items) else elem_of(v)      # position i of a display, else any element
        else:
            v = attr_of(v, s[1:])
    return v


@dataclass
class Effect:
    param: str
    steps: tuple
    kind: str            # inplace | store | attr-store | list-mutation
    func: str            # function (short) containing the syntactic sink
    where: str
    construct: str
    chain: tuple = ()    # call chain from the summarised function down to the sink
    attr: str = ""       # attr-store: the (mangled) attribute that is rebound

    def keytext(self):
        return f"{self.param}{''.join(self.steps)}:{self.kind}:{self.func}:{self.construct}"


@dataclass
class Summary:
    effects: list = field(default_factory=list)
    ret: V | None = None
    ctor_attrs: dict | None = None   # for __init__: attr -> V


class Effects:
    def __init__(self, model: Model):
        self.model = model
        self.summaries: dict[str, Summary] = {}
        self.in_progress: set = set()
        self.props = property_backing(model, "torchtt._tt_base.TT")
        self.tt_methods = {f.name: f for q, f in model.functions.items()
                           if f.cls == "TT" and f.module.name == "torchtt._tt_base"}
        self.unresolved: set = set()
        self.repo_methods: dict = {}
        self.ctor_sites: list = []     # (Func, Call node, class qualname, [arg Vs])
        for q, f in model.functions.items():
            if f.cls is not None and not f.is_property:
                self.repo_methods.setdefault(f.name, []).append(f)

    # ------------------------------------------------------------------ summaries
    def summary(self, f: Func) -> Summary:
        if f.qual in self.summaries:
            return self.summaries[f.qual]
        if f.qual in self.in_progress:
            return Summary(ret=FRESH)
        self.in_progress.add(f.qual)
        try:
            s = _FuncAnalysis(self, f).run()
        finally:
            self.in_progress.discard(f.qual)
        self.summaries[f.qual] = s
        return s


class _FuncAnalysis:
    def __init__(self, eng: Effects, f: Func):
        self.eng = eng
        self.model = eng.model
        self.f = f
        self.m = f.module
        self.effects: dict[str, Effect] = {}
        self.ret: V | None = None
        self.is_ctor = f.name == "__init__" and f.cls is not None
        self.ctor_attrs: dict = {}
        a = f.node.args
        self.params = [x.arg for x in a.posonlyargs + a.args + a.kwonlyargs]
        if a.vararg:
            self.params.append(a.vararg.arg)
        if a.kwarg:
            self.params.append(a.kwarg.arg)

    def run(self) -> Summary:
        env = {}
        for p in self.params:
            kind = "O" if p == "self" else "?"
            env[p] = V(frozenset([("P", p)]), kind)
        self.block(self.f.node.body, env)
        return Summary(list(self.effects.values()), self.ret if self.ret is not None else FRESH,
                       self.ctor_attrs if self.is_ctor else None)

    # ------------------------------------------------------------------ effects
    def sink(self, v: V, kind: str, node: ast.AST, chain=(), func=None, construct=None, where=None, attr=""):
        for r in v.roots:
            if r[0] != "P":
                continue
            param, steps = r[1], tuple(r[2:])
            if self.is_ctor and param == "self":
                continue
            e = Effect(param, steps, kind, func or self.f.short, where or self.model.where(self.f, node),
                       construct or norm(node)[:100], chain, attr)
            self.effects.setdefault(e.keytext(), e)

    # ------------------------------------------------------------------ statements
    def block(self, stmts, env):
        for s in stmts:
            env = self.stmt(s, env)
            if env is None:
                return None
        return env

    @staticmethod
    def join_env(a, b):
        if a is None:
            return b
        if b is None:
            return a
        out = {}
        for k in set(a) | set(b):
            out[k] = join(a.get(k), b.get(k))
        return out

    def stmt(self, s, env):
        if isinstance(s, ast.Assign):
            v = self.ev(s.value, env)
            for t in s.targets:
                env = self.assign(t, v, env, s)
            return env
        if isinstance(s, ast.AnnAssign):
            if s.value is not None:
                return self.assign(s.target, self.ev(s.value, env), env, s)
            return env
        if isinstance(s, ast.AugAssign):
            rhs = self.ev(s.value, env)
            t = s.target
            if isinstance(t, ast.Name):
                cur = env.get(t.id, FRESH)
                # in place for tensors/lists, rebinding for immutables: recorded against non-trivial paths, and
                # against bare parameters as a deferred effect that callers resolve against their actual argument
                self.sink(cur, "inplace", s)
                env = dict(env)
                if cur.kind == "L" or rhs.kind == "L":
                    env[t.id] = join(cur, V(cur.roots, "L", join(elem_of(cur), elem_of(rhs))))
                return env
            if isinstance(t, ast.Subscript):
                base = self.ev(t.value, env)
                self.ev(t.slice, env)
                if base.kind == "T":
                    self.sink(base, "inplace", s)
                elif base.kind == "L":
                    self.sink(elem_of(base), "inplace", s)
                    self.sink(base, "store", s)
                else:
                    self.sink(base, "inplace", s)
                    self.sink(elem_of(base), "inplace", s)
                return env
            if isinstance(t, ast.Attribute):
                base = self.ev(t.value, env)
                self.sink(attr_of(base, self._attr(t.attr)), "inplace", s)
                return env
            return env
        if isinstance(s, ast.Expr):
            self.ev(s.value, env, stmt_env_out := [env])
            return stmt_env_out[0]
        if isinstance(s, ast.Return):
            if s.value is not None:
                self.ret = join(self.ret, self.ev(s.value, env))
            else:
                self.ret = join(self.ret, FRESH)
            return None
        if isinstance(s, ast.Raise):
            return None
        if isinstance(s, ast.If):
            self.ev(s.test, env)
            from .flow import const_bool
            cb = const_bool(s.test)
            a = self.block(s.body, dict(env)) if cb is not False else None
            b = self.block(s.orelse, dict(env)) if cb is not True else None
            if cb is True:
                return a
            if cb is False:
                return b
            return self.join_env(a, b)
        if isinstance(s, (ast.For, ast.AsyncFor)):
            it = self.ev(s.iter, env)
            cur = env
            for _ in range(4):
                body_env = self.assign(s.target, self._iter_elem(it), dict(cur), s)
                out = self.block(s.body, body_env)
                new = self.join_env(cur, out)
                if new == cur:
                    break
                cur = new
            if s.orelse:
                cur = self.block(s.orelse, cur) or cur
            return cur
        if isinstance(s, ast.While):
            cur = env
            for _ in range(4):
                self.ev(s.test, cur)
                out = self.block(s.body, dict(cur))
                new = self.join_env(cur, out)
                if new == cur:
                    break
                cur = new
            return cur
        if isinstance(s, ast.Try):
            a = self.block(s.body, dict(env))
            outs = [a]
            for h in s.handlers:
                outs.append(self.block(h.body, dict(self.join_env(env, a) or env)))
            cur = None
            for o in outs:
                cur = self.join_env(cur, o)
            if cur is not None and s.orelse:
                cur = self.block(s.orelse, cur)
            if s.finalbody:
                cur = self.block(s.finalbody, cur if cur is not None else dict(env))
            return cur
        if isinstance(s, (ast.With, ast.AsyncWith)):
            for it in s.items:
                v = self.ev(it.context_expr, env)
                if it.optional_vars is not None:
                    env = self.assign(it.optional_vars, v, env, s)
            return self.block(s.body, env)
        if isinstance(s, (ast.Break, ast.Continue, ast.Pass, ast.Global, ast.Nonlocal, ast.Import, ast.ImportFrom,
                          ast.FunctionDef, ast.ClassDef, ast.Assert, ast.Delete)):
            return env
        return env

    def _iter_elem(self, it: V) -> V:
        return elem_of(it)

    def _attr(self, name):
        return mangle(self.f.cls, name)

    def assign(self, t, v: V, env, stmt):
        if isinstance(t, ast.Name):
            env = dict(env)
            env[t.id] = v
            return env
        if isinstance(t, (ast.Tuple, ast.List)):
            for i, e in enumerate(t.elts):
                if isinstance(e, ast.Starred):
                    env = self.assign(e.value, V(v.roots, "L", elem_of(v)), env, stmt)
                elif v.items is not None and i < len(v.items) and not any(isinstance(x, ast.Starred) for x in t.elts):
                    env = self.assign(e, v.items[i], env, stmt)
                elif v.kind not in ("T", "L") and v.elem is None and v.attrs is None and not any(isinstance(x, ast.Starred) for x in t.elts) \
                        and any(r[0] == "P" for r in v.roots):
                    # `cores0, ranks0 = pair` for a parameter (path) that is a pair: position i of it - resolved against the actual display at the call
                    env = self.assign(e, V(_step(v.roots, f"[{i}]")), env, stmt)
                else:
                    env = self.assign(e, elem_of(v), env, stmt)
            return env
        if isinstance(t, ast.Subscript):
            base = self.ev(t.value, env)
            self.ev(t.slice, env)
            self.sink(base, "store", stmt)
            # weak update of the container's element abstraction
            newbase = V(base.roots, base.kind, join(elem_of(base), v) if base.kind != "T" else None, base.attrs, None)
            return self._rebind(t.value, newbase, env)
        if isinstance(t, ast.Attribute):
            base = self.ev(t.value, env)
            an = self._attr(t.attr)
            if self.is_ctor and isinstance(t.value, ast.Name) and t.value.id == "self":
                self.ctor_attrs[an] = join(self.ctor_attrs.get(an), v)
            self.sink(base, "attr-store", stmt, attr=an)
            d = dict(base.attrs or ())
            d[an] = join(d.get(an), v) if an in d else v
            newbase = V(base.roots, base.kind if base.kind != "?" else "O", base.elem, tuple(sorted(d.items())), base.items)
            return self._rebind(t.value, newbase, env)
        if isinstance(t, ast.Starred):
            return self.assign(t.value, v, env, stmt)
        return env

    def _rebind(self, expr, newv: V, env):
        """Write back an updated abstraction for `expr` (Name, or Name.attr)."""
        if isinstance(expr, ast.Name):
            env = dict(env)
            env[expr.id] = newv
            return env
        if isinstance(expr, ast.Attribute) and isinstance(expr.value, ast.Name) and expr.value.id in env:
            obj = env[expr.value.id]
            d = dict(obj.attrs or ())
            d[self._attr(expr.attr)] = newv
            env = dict(env)
            env[expr.value.id] = V(obj.roots, obj.kind, obj.elem, tuple(sorted(d.items())), obj.items)
            return env
        return env

    # ------------------------------------------------------------------ expressions
    def ev(self, e, env, env_out=None) -> V:
        if e is None:
            return FRESH
        if isinstance(e, ast.Name):
            if e.id in env:
                return env[e.id]
            return FRESH
        if isinstance(e, ast.Constant):
            return FRESH
        if isinstance(e, (ast.List, ast.Tuple, ast.Set)):
            items = []
            for x in e.elts:
                if isinstance(x, ast.Starred):
                    items.append(elem_of(self.ev(x.value, env)))
                else:
                    items.append(self.ev(x, env))
            el = None
            for it in items:
                el = join(el, it)
            return V(frozenset([F]), "L", el if el is not None else FRESH, None,
                     tuple(items) if not any(isinstance(x, ast.Starred) for x in e.elts) else None)
        if isinstance(e, ast.Dict):
            el = None
            for x in e.values:
                el = join(el, self.ev(x, env))
            for x in e.keys:
                self.ev(x, env)
            return V(frozenset([F]), "L", el if el is not None else FRESH)
        if isinstance(e, (ast.ListComp, ast.SetComp, ast.GeneratorExp)):
            cenv = dict(env)
            for g in e.generators:
                it = self.ev(g.iter, cenv)
                cenv = self.assign(g.target, elem_of(it), cenv, e)
                for c in g.ifs:
                    self.ev(c, cenv)
            return V(frozenset([F]), "L", self.ev(e.elt, cenv))
        if isinstance(e, ast.DictComp):
            cenv = dict(env)
            for g in e.generators:
                it = self.ev(g.iter, cenv)
                cenv = self.assign(g.target, elem_of(it), cenv, e)
            self.ev(e.key, cenv)
            return V(frozenset([F]), "L", self.ev(e.value, cenv))
        if isinstance(e, ast.Attribute):
            base = self.ev(e.value, env)
            name = e.attr
            if name in self.eng.props and not (base.kind in ("T", "L")):
                backing, copied = self.eng.props[name]
                inner = attr_of(base, backing)
                if copied:
                    return V(frozenset([F]), "L", elem_of(V(inner.roots, "L", inner.elem)))
                return V(inner.roots, "L" if name in ("N", "M", "R") else "?", inner.elem)
            if base.kind == "T" or (base.kind == "?" and base.attrs is None):
                if name in VIEW_ATTRS:
                    return V(base.roots, "T")
                if name in FRESH_ATTRS:
                    return FRESH
            return attr_of(base, self._attr(name) if isinstance(e.value, ast.Name) and e.value.id == "self" else name)
        if isinstance(e, ast.Subscript):
            base = self.ev(e.value, env)
            self.ev(e.slice, env)
            sl = e.slice
            is_slice = isinstance(sl, ast.Slice) or (isinstance(sl, ast.Tuple) and any(isinstance(x, ast.Slice) for x in sl.elts))
            if base.kind == "T":
                return V(base.roots, "T")
            if base.kind == "L":
                if isinstance(sl, ast.Slice):
                    return V(frozenset([F]), "L", elem_of(base))      # slicing a list copies it
                if base.items is not None and isinstance(sl, ast.Constant) and isinstance(sl.value, int) \
                        and -len(base.items) <= sl.value < len(base.items):
                    return base.items[sl.value]
                return elem_of(base)
            # unknown kind: could be tensor view or container element
            if isinstance(sl, ast.Tuple) or is_slice and isinstance(sl, ast.Tuple):
                return V(base.roots | elem_of(base).roots, "T")        # multi-axis index: tensor
            if isinstance(sl, ast.Slice):
                return V(base.roots, base.kind, base.elem)              # view or list copy: keep aliasing (conservative)
            return elem_of(base)
        if isinstance(e, ast.BinOp):
            l, r = self.ev(e.left, env), self.ev(e.right, env)
            if l.kind == "O" or r.kind == "O":
                # operator on a TT-like object: desugar to the dunder methods of the repository class
                opn = _BINOPS.get(type(e.op).__name__)
                out = None
                if opn:
                    for recv, arg, nm in ((l, r, f"__{opn}__"), (r, l, f"__r{opn}__")):
                        if recv.kind == "O" or nm.startswith("__r") is False:
                            m = self.eng.tt_methods.get(nm)
                            if m is not None and (recv.kind == "O" or recv.kind == "?"):
                                fake = ast.Call(func=ast.Name(id=nm, ctx=ast.Load()), args=[], keywords=[])
                                ast.copy_location(fake, e)
                                out = join(out, self.apply(m, fake, [arg], {}, recv))
                if out is not None:
                    return out
            if l.kind == "L" or r.kind == "L":
                return V(frozenset([F]), "L", join(elem_of(l) if l.kind == "L" else None, elem_of(r) if r.kind == "L" else None))
            return FRESH_T if (l.kind == "T" or r.kind == "T") else FRESH
        if isinstance(e, ast.UnaryOp):
            v = self.ev(e.operand, env)
            return FRESH_T if v.kind == "T" else FRESH
        if isinstance(e, ast.BoolOp):
            out = None
            for x in e.values:
                out = join(out, self.ev(x, env))
            return out
        if isinstance(e, ast.Compare):
            self.ev(e.left, env)
            for c in e.comparators:
                self.ev(c, env)
            return FRESH
        if isinstance(e, ast.IfExp):
            self.ev(e.test, env)
            return join(self.ev(e.body, env), self.ev(e.orelse, env))
        if isinstance(e, ast.Call):
            return self.call(e, env, env_out)
        if isinstance(e, ast.Starred):
            return self.ev(e.value, env)
        if isinstance(e, (ast.JoinedStr, ast.FormattedValue, ast.Lambda)):
            return FRESH
        if isinstance(e, ast.Slice):
            for x in (e.lower, e.upper, e.step):
                self.ev(x, env)
            return FRESH
        if isinstance(e, ast.NamedExpr):
            return self.ev(e.value, env)
        return FRESH

    # ------------------------------------------------------------------ calls
    def call(self, e: ast.Call, env, env_out=None) -> V:
        args = []
        for a in e.args:
            if isinstance(a, ast.Starred):
                sv = self.ev(a.value, env)
                if sv.items is not None:
                    args.extend(sv.items)          # f(*pair): the positions of the display
                else:
                    # an unpacked sequence of unknown length: the parameters it lands on are not known; every element may reach any of them
                    args.append(elem_of(sv))
                    args.append(_STAR)
            else:
                args.append(self.ev(a, env))
        kwargs = {k.arg: self.ev(k.value, env) for k in e.keywords}
        if "out" in kwargs:
            self.sink(kwargs["out"], "inplace", e)
        fn = e.func
        # ---- plain / dotted names
        target = self.model.resolve(self.m, fn)
        if target is not None:
            if target in self.model.functions:
                return self.apply(self.model.functions[target], e, args, kwargs, None)
            if target in self.model.classes:
                return self.instantiate(target, e, args, kwargs)
            if target.startswith("builtins."):
                b = target.split(".", 1)[1]
                if b in CONTAINER_CTORS:
                    src = args[0] if args else FRESH
                    return V(frozenset([F]), "L", elem_of(src))
                if b == "zip":
                    return V(frozenset([F]), "L", V(frozenset([F]), "L", None, None, tuple(elem_of(a) for a in args)))
                if b == "enumerate":
                    return V(frozenset([F]), "L", V(frozenset([F]), "L", None, None, (FRESH, elem_of(args[0]) if args else FRESH)))
                if b in ("iter", "next"):
                    return elem_of(args[0]) if args else FRESH
                return FRESH
            top = target.split(".")[0]
            last = target.rsplit(".", 1)[-1]
            if top in ("torch", "numpy"):
                if last.endswith("_") and not last.endswith("__") and args:
                    self.sink(args[0], "inplace", e)
                    return V(args[0].roots, "T")
                if last in VIEW_FUNCS and args:
                    return V(args[0].roots | frozenset(), "T")
                if last in ("load",):
                    return FRESH      # arbitrary unpickled object, not a tensor
                if last == "einsum" and len(args) == 2:
                    return V(args[1].roots, "T")     # single-operand einsum may return a view
                return FRESH_T
            if top == "opt_einsum":
                return FRESH_T
            return FRESH
        # ---- method calls
        if isinstance(fn, ast.Attribute):
            recv = self.ev(fn.value, env)
            name = fn.attr
            is_self = isinstance(fn.value, ast.Name) and fn.value.id == "self"
            if is_self and self.f.cls:
                q = f"{self.m.name}.{self.f.cls}.{name}"
                if q in self.model.functions:
                    return self.apply(self.model.functions[q], e, args, kwargs, recv)
            if name in LIST_MUTATORS and recv.kind != "T":
                self.sink(recv, "list-mutation", e)
                add = None
                for a in args:
                    add = join(add, a if name in ("append", "insert", "add") else elem_of(a))
                if add is not None and env_out is not None:
                    newv = V(recv.roots, "L" if recv.kind == "?" else recv.kind, join(elem_of(recv), add), recv.attrs, None)
                    env_out[0] = self._rebind(fn.value, newv, env_out[0])
                return elem_of(recv) if name == "pop" else FRESH
            if name == "copy":
                return V(frozenset([F]), "L" if recv.kind != "T" else "T", elem_of(recv) if recv.kind != "T" else None)
            if name == "clone":
                if recv.kind == "O" and name in self.eng.tt_methods:
                    return self.apply(self.eng.tt_methods[name], e, args, kwargs, recv)
                return FRESH_T
            if name.endswith("_") and not name.endswith("__"):
                self.sink(recv, "inplace", e)
                return V(recv.roots, "T")
            tt_m = self.eng.tt_methods.get(name)
            tensor_like = name in VIEW_METHODS or name in ("sum", "norm", "round", "clone", "numel", "item", "tolist",
                                                           "abs", "sqrt", "mean", "max", "min", "size", "dim", "index",
                                                           "count", "flatten", "topk", "any", "all")
            if tt_m is not None and (recv.kind == "O" or not tensor_like):
                return self.apply(tt_m, e, args, kwargs, recv)
            if name in VIEW_METHODS:
                return V(recv.roots, "T" if recv.kind in ("T", "?") else recv.kind, recv.elem, recv.attrs)
            # unknown method on an object built from a repository class: try its class methods
            if recv.kind == "O" and recv.attrs is not None:
                cls_tag = dict(recv.attrs).get("\0class")
                if cls_tag is not None:
                    q = f"{next(iter(cls_tag.roots))[1]}.{name}"
                    if q in self.model.functions:
                        return self.apply(self.model.functions[q], e, args, kwargs, recv)
            cands = self.eng.repo_methods.get(name, [])
            if cands and not tensor_like and recv.kind in ("O", "?"):
                out = None
                for c in cands:
                    out = join(out, self.apply(c, e, args, kwargs, recv))
                return out
            self.eng.unresolved.add(f"{self.f.short}: .{name}()")
            return FRESH_T if recv.kind == "T" else FRESH
        # ---- calling a value (callback)
        self.ev(fn, env)
        self.eng.unresolved.add(f"{self.f.short}: {norm(fn)[:40]}(...)")
        return FRESH

    def bind(self, callee: Func, e: ast.Call, args, kwargs, recv):
        a = callee.node.args
        names = [x.arg for x in a.posonlyargs + a.args]
        bound = {}
        pos = list(args)
        if recv is not None and names and names[0] == "self":
            bound["self"] = recv
            names_rest = names[1:]
        else:
            names_rest = names
        if any(v is _STAR for v in pos):
            # positional binding is exact up to the unpacked sequence; after it every remaining positional parameter may receive any later argument
            i = next(k for k, v in enumerate(pos) if v is _STAR)
            rest = None
            for v in pos[i - 1:]:
                if v is not _STAR:
                    rest = join(rest, v)
            pos = pos[:i - 1] + [rest] * max(0, len(names_rest) - (i - 1))
        for n, v in zip(names_rest, pos):
            bound[n] = v
        if len(pos) > len(names_rest) and a.vararg:
            rest = None
            for v in pos[len(names_rest):]:
                rest = join(rest, v)
            bound[a.vararg.arg] = V(frozenset([F]), "L", rest)
        for k, v in kwargs.items():
            if k is not None:
                bound[k] = v
        return bound

    def subst(self, v: V | None, bound: dict) -> V:
        """Express a callee value (over callee parameter roots) in the caller's terms."""
        if v is None:
            return FRESH
        roots = set()
        extra = None
        for r in v.roots:
            if r[0] == "P":
                actual = bound.get(r[1])
                if actual is None:
                    roots.add(F)      # default value: fresh
                    continue
                rv = resolve_path(actual, r[2:])
                roots |= rv.roots
                if v.elem is None and v.attrs is None:
                    extra = join(extra, rv)
            else:
                roots.add(r)
        elem = self.subst(v.elem, bound) if v.elem is not None else (extra.elem if extra is not None else None)
        attrs = tuple((n, self.subst(x, bound)) for n, x in v.attrs) if v.attrs is not None else \
            (extra.attrs if extra is not None else None)
        items = tuple(self.subst(x, bound) for x in v.items) if v.items is not None else None
        kind = v.kind if v.kind != "?" else (extra.kind if extra is not None else "?")
        return V(frozenset(roots) or frozenset([F]), kind, elem, attrs, items)

    def apply(self, callee: Func, e: ast.Call, args, kwargs, recv) -> V:
        if callee.is_property:
            return FRESH
        s = self.eng.summary(callee)
        bound = self.bind(callee, e, args, kwargs, recv)
        for eff in s.effects:
            actual = bound.get(eff.param)
            if actual is None:
                continue
            tv = resolve_path(actual, eff.steps)
            if eff.kind == "inplace" and not eff.steps and actual.kind not in ("T",) and not any(
                    len(r) > 2 for r in actual.roots if r[0] == "P"):
                # in-place operator on a bare parameter: only meaningful when the actual is a tensor reached from
                # an operand (non-empty path) or known to be a tensor
                continue
            self.sink(tv, eff.kind, e, chain=(f"{self.f.short} -> {callee.short}",) + eff.chain,
                      func=eff.func, construct=eff.construct, where=eff.where, attr=eff.attr)
        return self.subst(s.ret, bound)

    def instantiate(self, cls_q: str, e: ast.Call, args, kwargs) -> V:
        self.eng.ctor_sites.append((self.f, e, cls_q, list(args)))
        init = self.model.functions.get(f"{cls_q}.__init__")
        attrs = {"\0class": V(frozenset([("C", cls_q)]))}
        if init is not None:
            s = self.eng.summary(init)
            obj = V(frozenset([F]), "O")
            bound = self.bind(init, e, args, kwargs, obj)
            for eff in s.effects:
                actual = bound.get(eff.param)
                if actual is None:
                    continue
                self.sink(resolve_path(actual, eff.steps), eff.kind, e,
                          chain=(f"{self.f.short} -> {init.short}",) + eff.chain,
                          func=eff.func, construct=eff.construct, where=eff.where, attr=eff.attr)
            for n, v in (s.ctor_attrs or {}).items():
                attrs[n] = self.subst(v, bound)
        return V(frozenset([F]), "O", None, tuple(sorted(attrs.items())))
