"""C05 - every reachable TT object is structurally well formed (class invariant by induction)."""
from __future__ import annotations

import ast

from .. import rules
from ..effects import Effects
from ..flow import const_bool, guard_key
from ..model import Model, Func, norm, mangle
from ..report import Ob, OK, VIOLATED, ERROR, INFO
from . import common, c18

META = {
    "explanation": "Class-invariant argument for TT: I(t) = cores all 3-axis or all 4-axis, neighbouring ranks chain, boundary "
                   "ranks 1, N/M/R/shape/is_ttm describe the cores. (1) establishment: the constructor's core-list branch has "
                   "the chaining, axis-count and final consistency guards before storing the cores, derives N/M/R from the "
                   "core shapes with the right axis numbers, and every leaf branch of the constructor assigns every field "
                   "(FIELDS); (2) preservation: set_core guards both ranks and the axis count against the new core, re-derives "
                   "N (M) from it and recomputes shape; reduce_dims rebuilds N, M, R from the new cores with the right axis "
                   "numbers and recomputes shape; (3) WHO-WRITES: no other function stores into these fields or into the "
                   "core list of an object it did not just construct (effect analysis), and stores into a just-constructed "
                   "object are shape preserving; (4) getters hand out copies, objects are only created through __init__, and "
                   "internal TT(...) calls pass core lists, never a tensor (CTOR-ARG). Induction over call histories follows.",
    "assumptions": ["user code that assigns t.cores[k] directly is outside the public API", "torch reshape/einsum produce the "
                    "shapes they are asked for"],
    "floors": {"E5-CHAIN": 600, "FIELDS": 8, "WHO-WRITES": 100, "CTOR-ARG": 60, "GETTER": 3},
}
from ..inline import inlined  # noqa: E402  (extract-method refactorings of the constructor / writers are read through)

ANCHORS = ["_tt_base.TT.__init__", "_tt_base.TT.set_core", "_tt_base.TT.reduce_dims", "_tt_base.TT.N", "_tt_base.TT.M",
           "_tt_base.TT.R"]
TT = "_tt_base.TT."
FIELDS_ALL = {"cores", "_TT__N", "_TT__R", "_TT__is_ttm", "shape"}

# dense-construction sites: TT(<tensor>) is intended (runs TT-SVD)
DENSE_SITES = {"_extras.xfun", "_extras.linspace", "_extras.arange", "interpolate.function_interpolate"}


# --------------------------------------------------------------------------- FIELDS (constructor coverage)

def ctor_leaf_paths(fn: ast.FunctionDef):
    """Enumerate the leaf branches of the constructor's dispatch: (path label, set of self attrs assigned, is_ttm value)."""
    out = []

    def attrs_assigned(stmts, acc, label, ttm):
        acc = set(acc)
        for i, s in enumerate(stmts):
            if isinstance(s, ast.If):
                cb = const_bool(s.test)
                rest = stmts[i + 1:]
                if cb is not False:
                    attrs_assigned(s.body + rest, acc, label + [norm(s.test)[:50]], ttm)
                if cb is not True:
                    attrs_assigned(s.orelse + rest, acc, label + ["not " + norm(s.test)[:50]], ttm)
                return
            if isinstance(s, ast.Raise):
                return
            if isinstance(s, ast.Return):
                break
            for n in ast.walk(s) if not isinstance(s, (ast.For, ast.While)) else []:
                if isinstance(n, ast.Attribute) and isinstance(n.ctx, ast.Store) and isinstance(n.value, ast.Name) and n.value.id == "self":
                    a = mangle("TT", n.attr)
                    acc.add(a)
            if isinstance(s, ast.Assign):
                for t in s.targets:
                    for n in ast.walk(t):
                        if isinstance(n, ast.Attribute) and isinstance(n.value, ast.Name) and n.value.id == "self" \
                                and mangle("TT", n.attr) == "_TT__is_ttm" and isinstance(s.value, ast.Constant):
                            ttm = s.value.value
        out.append((" & ".join(label) or "<top>", acc, ttm))

    attrs_assigned(fn.body, set(), [], None)
    return out


def rule_fields(model: Model):
    f = inlined(model, model.func(TT + "__init__"))
    obs = []
    paths = ctor_leaf_paths(f.node)
    for label, acc, ttm in paths:
        need = set(FIELDS_ALL)
        if ttm is True or ttm is None:
            if ttm is True:
                need.add("_TT__M")
        k = f"{TT}__init__:FIELDS:{label[:140]}"
        missing = sorted(need - acc)
        if missing:
            obs.append(Ob("FIELDS", k, VIOLATED, model.where(f), label[:160],
                          f"constructor branch [{label}] completes without assigning {missing}: the object it produces has no "
                          f"such attribute (AttributeError on first read) or a stale one"))
        else:
            obs.append(Ob("FIELDS", k, OK, model.where(f), label[:160], f"assigns {sorted(acc)}"))
    # __M is read only under the kind flag
    cls = model.classes["torchtt._tt_base.TT"]
    for meth in cls.body:
        if not isinstance(meth, ast.FunctionDef):
            continue
        par = {}
        for n in ast.walk(meth):
            for c in ast.iter_child_nodes(n):
                par[id(c)] = n
        for n in ast.walk(meth):
            if isinstance(n, ast.Attribute) and n.attr == "__M" and isinstance(n.ctx, ast.Load) and isinstance(n.value, ast.Name) and n.value.id == "self":
                guarded = False
                cur = n
                while id(cur) in par:
                    p = par[id(cur)]
                    if isinstance(p, (ast.If, ast.IfExp)) and "self.__is_ttm" in norm(p.test) and cur is not p.test:
                        guarded = True
                    if isinstance(p, ast.BoolOp) and isinstance(p.op, ast.And) and any("self.__is_ttm" in norm(v) for v in p.values) and cur is not p.values[0]:
                        guarded = True
                    if isinstance(p, ast.FunctionDef):
                        break
                    cur = p
                # inside the constructor: a store to self.__M earlier in the same block dominates the read
                if not guarded and meth.name == "__init__":
                    st = _stmt_node(n, par)
                    blk = _block_of(st, par)
                    if blk is not None:
                        for s in blk[: blk.index(st)]:
                            if any(isinstance(x, ast.Attribute) and x.attr == "__M" and isinstance(x.ctx, ast.Store) for x in ast.walk(s)):
                                guarded = True
                # preceding raise-guard `if not self.__is_ttm: raise`
                if not guarded:
                    for s in meth.body:
                        if isinstance(s, ast.If) and "self.__is_ttm" in norm(s.test) and any(isinstance(x, ast.Raise) for x in s.body) \
                                and s.lineno < n.lineno:
                            guarded = True
                k = f"{TT}{meth.name}:FIELDS:read-__M:{n.lineno - meth.lineno}"
                k = f"{TT}{meth.name}:FIELDS:read-__M:{norm(_stmt(n, par))[:50]}"
                obs.append(Ob("FIELDS", k, OK if guarded else VIOLATED, f"torchtt/_tt_base.py:{n.lineno}", norm(_stmt(n, par))[:100],
                              "read of __M guarded by the kind flag" if guarded else
                              "self.__M is read without a dominating self.__is_ttm test; TT tensors never assign __M"))
    return obs


def _stmt_node(n, par):
    cur = n
    while id(cur) in par and not isinstance(cur, ast.stmt):
        cur = par[id(cur)]
    return cur


def _block_of(st, par):
    p = par.get(id(st))
    if p is None:
        return None
    for fld in ("body", "orelse", "finalbody"):
        b = getattr(p, fld, None)
        if isinstance(b, list) and any(x is st for x in b):
            return b
    return None


def _stmt(n, par):
    cur = n
    while id(cur) in par and not isinstance(cur, ast.stmt):
        cur = par[id(cur)]
    if isinstance(cur, (ast.If, ast.While)):
        return cur.test
    if isinstance(cur, ast.For):
        return cur.iter
    return cur


# --------------------------------------------------------------------------- ESTABLISH

def _nnf(e, neg=False):
    """negation normal form of a guard: ('or'|'and', [..]) / ('atom', text) with comparisons flipped under negation"""
    if isinstance(e, ast.BoolOp):
        parts = [_nnf(v, neg) for v in e.values]
        op = "and" if isinstance(e.op, ast.And) else "or"
        if neg:
            op = "or" if op == "and" else "and"
        flat = []
        for p_ in parts:
            if p_[0] == op:
                flat += p_[1]
            else:
                flat.append(p_)
        return (op, flat)
    if isinstance(e, ast.UnaryOp) and isinstance(e.op, ast.Not):
        return _nnf(e.operand, not neg)
    if isinstance(e, ast.Compare) and len(e.ops) == 1:
        flip = {ast.Eq: "!=", ast.NotEq: "==", ast.Lt: ">=", ast.LtE: ">", ast.Gt: "<=", ast.GtE: "<"}
        same = {ast.Eq: "==", ast.NotEq: "!=", ast.Lt: "<", ast.LtE: "<=", ast.Gt: ">", ast.GtE: ">="}
        sym = (flip if neg else same).get(type(e.ops[0]))
        if sym:
            return ("atom", (sym, e.left, e.comparators[0]))
    return ("atom", ("not" if neg else "", e, None))


def _disjuncts(f):
    """list of conjunctions (each a list of atoms) of a guard in NNF"""
    if f[0] == "atom":
        return [[f[1]]]
    if f[0] == "or":
        out = []
        for p_ in f[1]:
            out += _disjuncts(p_)
        return out
    # and: cross product
    acc = [[]]
    for p_ in f[1]:
        acc = [x + y for x in acc for y in _disjuncts(p_)]
    return acc


def rule_establish(model: Model):
    """The core-list branch of the constructor validates before it stores.  Locals are recognised by what they hold, not by name:
    the shape alias (X = source[i].shape), the order (len(source)), and the three metadata lists by which axis of the shape each
    branch (3-axis / 4-axis cores) appends to them: R <- last axis, N <- the column mode, M <- the row mode of 4-axis cores."""
    f = inlined(model, model.func(TT + "__init__"))
    obs = []
    branch = None
    for n in ast.walk(f.node):
        if isinstance(n, ast.If) and "isinstance(source, list)" in norm(n.test):
            branch = n
    if branch is None:
        return [Ob("ESTABLISH", f"{TT}__init__:ESTABLISH:list-branch", ERROR, model.where(f), "isinstance(source, list)",
                   "core-list branch of the constructor not found")]
    body = branch.body
    # shape alias(es)
    # names bound to one core of the list: loop variables over `source` / `enumerate(source)`
    core_vars = set()
    for n in ast.walk(branch):
        if isinstance(n, ast.For):
            it = norm(n.iter).replace(" ", "")
            if it == "source" and isinstance(n.target, ast.Name):
                core_vars.add(n.target.id)
            elif it == "enumerate(source)" and isinstance(n.target, ast.Tuple) and len(n.target.elts) == 2 and isinstance(n.target.elts[1], ast.Name):
                core_vars.add(n.target.elts[1].id)

    def is_core(e):
        return norm(e).startswith("source[") or (isinstance(e, ast.Name) and e.id in core_vars)
    shape_alias = {n.targets[0].id for n in ast.walk(branch) if isinstance(n, ast.Assign) and isinstance(n.targets[0], ast.Name)
                   and isinstance(n.value, ast.Attribute) and n.value.attr == "shape" and is_core(n.value.value)}
    orders = {n.targets[0].id for n in ast.walk(branch) if isinstance(n, ast.Assign) and isinstance(n.targets[0], ast.Name) and norm(n.value) == "len(source)"}

    def axis_of(e):
        """axis index when e is <shape alias>[c] or source[..].shape[c]"""
        if isinstance(e, ast.Subscript) and isinstance(e.slice, ast.Constant) and isinstance(e.slice.value, int):
            base = e.value
            if (isinstance(base, ast.Name) and base.id in shape_alias) or (isinstance(base, ast.Attribute) and base.attr == "shape" and is_core(base.value)):
                return e.slice.value
        return None

    def ndim_test(t):
        """3 / 4 when the test is len(<shape>) == c"""
        if isinstance(t, ast.Compare) and len(t.ops) == 1 and isinstance(t.ops[0], ast.Eq) and isinstance(t.left, ast.Call) and norm(t.left.func) == "len" \
                and isinstance(t.comparators[0], ast.Constant):
            a0 = t.left.args[0]
            if (isinstance(a0, ast.Name) and a0.id in shape_alias) or (isinstance(a0, ast.Attribute) and a0.attr == "shape"):
                return t.comparators[0].value
        return None
    appends = {}      # list name -> {(ndim, axis)}
    for n in ast.walk(branch):
        if isinstance(n, ast.If):
            chain, cur = [], n
            while True:
                chain.append(cur)
                if len(cur.orelse) == 1 and isinstance(cur.orelse[0], ast.If):
                    cur = cur.orelse[0]
                else:
                    break
            for c in chain:
                nd = ndim_test(c.test)
                if nd is None:
                    continue
                for st in c.body:
                    if isinstance(st, ast.Expr) and isinstance(st.value, ast.Call) and isinstance(st.value.func, ast.Attribute) and st.value.func.attr == "append" \
                            and isinstance(st.value.func.value, ast.Name) and st.value.args:
                        ax = axis_of(st.value.args[0])
                        if ax is not None:
                            appends.setdefault(st.value.func.value.id, set()).add((nd, ax))
    role = {}
    for nm, sig in appends.items():
        if sig == {(3, 2), (4, 3)}:
            role["R"] = nm
        elif sig == {(3, 1), (4, 2)}:
            role["N"] = nm
        elif sig == {(4, 1)}:
            role["M"] = nm
    want = {"R": "the last axis of each core ((3-axis: 2, 4-axis: 3)", "N": "the column mode (3-axis: 1, 4-axis: 2)", "M": "the row mode of 4-axis cores (axis 1)"}
    for r_, what in want.items():
        k = f"{TT}__init__:ESTABLISH:derive-{r_}"
        ok = r_ in role
        obs.append(Ob("ESTABLISH", k, OK if ok else VIOLATED, model.where(f, branch), f"{r_} <- {what}",
                      f"list `{role.get(r_)}` collects it" if ok else
                      f"no list in the core-list branch collects {what} (found {dict((k_, sorted(v)) for k_, v in appends.items())}): the metadata would not describe the cores"))
    if len(role) < 3:
        return obs
    R, N, M = role["R"], role["N"], role["M"]

    def canon_atom(a):
        sym, l, r = a
        if r is None:
            return norm(l)

        def c(e):
            t = norm(e).replace(" ", "")
            for nm, rl in ((R, "R"), (N, "N"), (M, "M")):
                t = t.replace(f"len({nm})", f"len({rl})")
                if t.startswith(nm + "["):
                    t = rl + t[len(nm):]
            for o in orders:
                if t == o:
                    t = "d"
                elif t == o + "+1":
                    t = "d+1"
            t = t.replace("len(source)", "d")
            ax = axis_of(e)
            if ax is not None:
                t = f"shape[{ax}]"
            return t
        a_, b_ = c(l), c(r)
        if sym in ("==", "!=") and a_ > b_:
            a_, b_ = b_, a_
        return f"{a_}{sym}{b_}"
    raising = []      # (If node, set of disjunct strings) for guards that raise
    for n in ast.walk(branch):
        if isinstance(n, ast.If) and any(isinstance(x, ast.Raise) for x in n.body):
            dj = {" and ".join(sorted(canon_atom(a) for a in conj)) for conj in _disjuncts(_nnf(n.test))}
            raising.append((n, dj))
    alld = set().union(*[d_ for _, d_ in raising]) if raising else set()
    need = [("chain", "R[-1]!=shape[0]", "left rank of core i equals right rank of core i-1"),
            ("first-rank", "1!=R[0]", "first rank is 1"), ("last-rank", "1!=R[-1]", "last rank is 1"),
            ("count-N", "d!=len(N)", "one mode per core"), ("count-R", "d+1!=len(R)", "d+1 ranks"),
            ("kinds", "0!=len(M) and len(M)!=len(N)", "cores are all 3-axis or all 4-axis")]
    for name, frag, what in need:
        k = f"{TT}__init__:ESTABLISH:{name}"
        ok = frag in alld
        obs.append(Ob("ESTABLISH", k, OK if ok else VIOLATED, model.where(f, branch), frag,
                      "a raising guard covers it" if ok else f"no raising guard of the core-list branch covers `{frag}` ({what}): "
                      f"an ill-formed core list would be accepted (guards found: {sorted(alld)[:8]})"))
    # cores that are neither 3- nor 4-axis are rejected: the ndim dispatch ends in a raise
    okax = False
    for n in ast.walk(branch):
        if isinstance(n, ast.If) and ndim_test(n.test) is not None:
            cur = n
            while len(cur.orelse) == 1 and isinstance(cur.orelse[0], ast.If):
                cur = cur.orelse[0]
            if any(isinstance(x, ast.Raise) for x in cur.orelse):
                okax = True
    obs.append(Ob("ESTABLISH", f"{TT}__init__:ESTABLISH:guard-axes", OK if okax else VIOLATED, model.where(f, branch), "every core is 3- or 4-axis",
                  "other axis counts raise" if okax else "the constructor no longer rejects cores that are neither 3- nor 4-axis"))
    # guards dominate the store of the cores
    store_i = guard_i = loop_i = None
    for i, st in enumerate(body):
        if isinstance(st, ast.Assign) and any(norm(t) == "self.cores" for t in st.targets):
            store_i = i
        if isinstance(st, ast.If) and any(isinstance(x, ast.Raise) for x in st.body) and any(st is n for n, _ in raising):
            guard_i = i
        if isinstance(st, ast.For):
            loop_i = i
    k = f"{TT}__init__:ESTABLISH:guards-dominate-store"
    ok = store_i is not None and guard_i is not None and loop_i is not None and loop_i < guard_i < store_i
    obs.append(Ob("ESTABLISH", k, OK if ok else VIOLATED, model.where(f, branch), "validation precedes self.cores = source",
                  "the per-core loop and the final check precede the store" if ok else
                  "self.cores is stored before the validation completes (or the validation is no longer top-level in the branch)"))
    # the validated lists are the ones stored
    stored = {norm(t): norm(st.value) for st in body if isinstance(st, ast.Assign) for t in st.targets}
    for fld, rl in (("self.__R", R), ("self.__N", N)):
        okf = stored.get(fld) == rl
        obs.append(Ob("ESTABLISH", f"{TT}__init__:ESTABLISH:store-{fld[-1]}", OK if okf else VIOLATED, model.where(f, branch), f"{fld} = <validated list>",
                      "the validated list is stored" if okf else f"{fld} is not assigned the list that was validated (`{rl}`), found {stored.get(fld)}"))
    return obs


# --------------------------------------------------------------------------- PRESERVE

def _rank_guard_pairs(test: ast.AST):
    """{(axis of core.shape, offset o in self.__R[k+o])} compared by != in the guard, plus the len(core.shape) constant."""
    pairs, ln = set(), None
    for c in ast.walk(test):
        if isinstance(c, ast.Compare) and len(c.ops) == 1 and isinstance(c.ops[0], ast.NotEq):
            l, r = norm(c.left).replace(" ", ""), norm(c.comparators[0]).replace(" ", "")
            for a, b in ((l, r), (r, l)):
                if a.startswith("core.shape[") and b.startswith("self.__R["):
                    ax = a[len("core.shape["):-1]
                    off = {"k": 0, "k+1": 1}.get(b[len("self.__R["):-1])
                    if off is not None:
                        pairs.add((ax, off))
                if a == "len(core.shape)" and b.isdigit():
                    ln = int(b)
    return pairs, ln


def rule_preserve(model: Model):
    obs = []
    f = inlined(model, model.func(TT + "set_core"))
    top_ifs = [s for s in f.node.body if isinstance(s, ast.If)]
    kind_if = [s for s in top_ifs if "self.__is_ttm" in norm(s.test)]
    if not kind_if:
        obs.append(Ob("PRESERVE", f"{TT}set_core:PRESERVE:kind-dispatch", ERROR, model.where(f), "if self.__is_ttm", "dispatch on kind not found"))
    else:
        for label, stmts, last, modes in (("ttm", kind_if[0].body, "3", {"_TT__M": "core.shape[1]", "_TT__N": "core.shape[2]"}),
                                          ("tt", kind_if[0].orelse, "2", {"_TT__N": "core.shape[1]"})):
            g = [s for s in stmts if isinstance(s, ast.If)]
            k = f"{TT}set_core:PRESERVE:{label}:rank-guard"
            if not g:
                obs.append(Ob("PRESERVE", k, VIOLATED, model.where(f), label, "no guard before the core is replaced"))
                continue
            pairs, ln = _rank_guard_pairs(g[0].test)
            need = {("0", 0), (last, 1)}
            raises = any(isinstance(x, ast.Raise) for x in g[0].body)
            ok = need <= pairs and ln == int(last) + 1 and raises
            obs.append(Ob("PRESERVE", k, OK if ok else VIOLATED, model.where(f, g[0]), norm(g[0].test)[:120],
                          "both ranks and the axis count of the new core are guarded" if ok else
                          f"the guard compares {sorted(pairs)} and len == {ln}; needed: core.shape[0] vs R[k], core.shape[{last}] vs "
                          f"R[k+1], len(core.shape) vs {int(last) + 1}. A core with a wrong rank or axis count would be stored "
                          "and the object would no longer chain"))
            # the stores follow the guard: in its else branch, or after it when the guarded branch raises
            store_block = (g[0].orelse or stmts[stmts.index(g[0]) + 1:]) if raises else []
            stores = {}
            has_core = False
            for s in store_block:
                if isinstance(s, ast.Assign) and isinstance(s.targets[0], ast.Subscript):
                    t = s.targets[0]
                    if norm(t.value) == "self.cores" and norm(t.slice) == "k":
                        has_core = True
                    if isinstance(t.value, ast.Attribute) and norm(t.value.value) == "self" and norm(t.slice) == "k":
                        stores[mangle("TT", t.value.attr)] = norm(s.value).replace(" ", "")
            k = f"{TT}set_core:PRESERVE:{label}:store"
            obs.append(Ob("PRESERVE", k, OK if has_core else ERROR, model.where(f), "self.cores[k] = ...",
                          "core store found" if has_core else "core store not found in the expected branch"))
            for fld, src in modes.items():
                k = f"{TT}set_core:PRESERVE:{label}:{fld}"
                ok = stores.get(fld) == src
                obs.append(Ob("PRESERVE", k, OK if ok else VIOLATED, model.where(f), f"self.{fld[4:]}[k] = {src}",
                              "mode size re-derived from the new core" if ok else
                              f"after replacing core k, {fld[4:]}[k] must be re-derived as {src} (found {stores.get(fld)}): the reported "
                              "mode sizes would no longer describe the cores"))
    # shape recomputed on every normal exit of set_core and reduce_dims
    for fn in ("set_core", "reduce_dims"):
        ff = inlined(model, model.func(TT + fn))
        k = f"{TT}{fn}:PRESERVE:shape-recomputed"
        last_stmts = _exit_blocks(ff.node)
        ok = all(_assigns_shape_after_core_store(b) for b in last_stmts)
        obs.append(Ob("PRESERVE", k, OK if ok else VIOLATED, model.where(ff), "self.shape = ...",
                      "shape recomputed after the cores change" if ok else
                      f"{fn} changes cores/N/M but leaves self.shape as it was: x.shape no longer describes the object"))
    # reduce_dims rebuilds N/M/R from the reduced core list with the right axes, in both kind branches
    rd = inlined(model, model.func(TT + "reduce_dims"))
    kind_if = [s for s in rd.node.body if isinstance(s, ast.If) and "self.__is_ttm" in norm(s.test)]
    if not kind_if:
        obs.append(Ob("PRESERVE", f"{TT}reduce_dims:PRESERVE:kind-dispatch", ERROR, model.where(rd), "if self.__is_ttm", "dispatch not found"))
    else:
        for label, stmts, want in (("ttm", kind_if[0].body, {"_TT__N": "2", "_TT__M": "1", "_TT__R": "3"}),
                                   ("tt", kind_if[0].orelse, {"_TT__N": "1", "_TT__R": "2"})):
            seqs = _axis_sequences(stmts)
            stored_list = None
            for st in stmts:
                if isinstance(st, ast.Assign) and any(norm(t) == "self.cores" for t in st.targets) and isinstance(st.value, ast.Name):
                    stored_list = st.value.id
            for fld, ax in want.items():
                k = f"{TT}reduce_dims:PRESERVE:{label}:{fld}"
                got = seqs.get(fld)
                prefix = "[1]" if fld == "_TT__R" else ""
                ok = got is not None and got[0] == stored_list and got[1] == ax and got[2] == prefix
                obs.append(Ob("PRESERVE", k, OK if ok else VIOLATED, model.where(rd), f"{fld[4:]} rebuilt from <new cores>[i].shape[{ax}]",
                              "rebuilt from the new cores" if ok else
                              f"{fld[4:]} must be reset and rebuilt as {prefix + ' + ' if prefix else ''}[c.shape[{ax}] for c in <the stored core list>] "
                              f"(found source list {got[0] if got else None}, axis {got[1] if got else None}, prefix {got[2] if got else None}; stored list {stored_list})"))
            k = f"{TT}reduce_dims:PRESERVE:{label}:cores"
            obs.append(Ob("PRESERVE", k, OK if stored_list else VIOLATED, model.where(rd), "self.cores = <reduced list>",
                          "core list replaced by the reduced list" if stored_list else "the reduced core list is not stored back"))
    return obs


def _axis_sequences(stmts):
    """{mangled field: (source list name, axis, prefix text)} for fields assigned the sequence <prefix> + [L[i].shape[axis] for all i],
    written as a comprehension or as reset + append loop"""
    out = {}

    def elt_axis(e, itervar, lst, idxvar):
        # c.shape[a]  (c iterates L)   or   L[i].shape[a]  (i ranges over len(L))
        if isinstance(e, ast.Subscript) and isinstance(e.slice, ast.Constant) and isinstance(e.value, ast.Attribute) and e.value.attr == "shape":
            base = e.value.value
            if itervar and isinstance(base, ast.Name) and base.id == itervar:
                return str(e.slice.value)
            if idxvar and isinstance(base, ast.Subscript) and isinstance(base.value, ast.Name) and base.value.id == lst and norm(base.slice) == idxvar:
                return str(e.slice.value)
        return None

    def comp(e):
        """(list, axis) for a comprehension over the cores"""
        if isinstance(e, ast.ListComp) and len(e.generators) == 1 and not e.generators[0].ifs and isinstance(e.generators[0].target, ast.Name):
            g = e.generators[0]
            if isinstance(g.iter, ast.Name):
                ax = elt_axis(e.elt, g.target.id, None, None)
                return (g.iter.id, ax) if ax is not None else None
            if isinstance(g.iter, ast.Call) and norm(g.iter.func) == "range" and len(g.iter.args) == 1 and isinstance(g.iter.args[0], ast.Call) \
                    and norm(g.iter.args[0].func) == "len" and isinstance(g.iter.args[0].args[0], ast.Name):
                lst = g.iter.args[0].args[0].id
                ax = elt_axis(e.elt, None, lst, g.target.id)
                return (lst, ax) if ax is not None else None
        return None
    inits = {}
    for st in stmts:
        if isinstance(st, ast.Assign) and isinstance(st.targets[0], ast.Attribute) and norm(st.targets[0].value) == "self":
            fld = mangle("TT", st.targets[0].attr)
            v = st.value
            c = comp(v)
            if c:
                out[fld] = (c[0], c[1], "")
                continue
            if isinstance(v, ast.BinOp) and isinstance(v.op, ast.Add) and comp(v.right):
                c = comp(v.right)
                out[fld] = (c[0], c[1], norm(v.left).replace(" ", ""))
                continue
            inits[fld] = norm(v).replace(" ", "")
        if isinstance(st, ast.For) and isinstance(st.target, ast.Name):
            lst = idx = itv = None
            if isinstance(st.iter, ast.Name):
                lst, itv = st.iter.id, st.target.id
            elif isinstance(st.iter, ast.Call) and norm(st.iter.func) == "range" and len(st.iter.args) == 1 and isinstance(st.iter.args[0], ast.Call) \
                    and norm(st.iter.args[0].func) == "len" and isinstance(st.iter.args[0].args[0], ast.Name):
                lst, idx = st.iter.args[0].args[0].id, st.target.id
            if lst is None:
                continue
            for x in st.body:
                if isinstance(x, ast.Expr) and isinstance(x.value, ast.Call) and isinstance(x.value.func, ast.Attribute) and x.value.func.attr == "append" \
                        and isinstance(x.value.func.value, ast.Attribute) and norm(x.value.func.value.value) == "self" and x.value.args:
                    fld = mangle("TT", x.value.func.value.attr)
                    ax = elt_axis(x.value.args[0], itv, lst, idx)
                    if ax is not None and fld in inits:
                        pre = inits[fld]
                        out[fld] = (lst, ax, "" if pre == "[]" else pre)
    return out


def _exit_blocks(fn):
    """Statement lists (top-level body) - shape must be assigned at the end of the function body or in every store branch."""
    return [fn.body]


def _assigns_shape_after_core_store(body):
    """True when, in this statement list, a store to self.shape follows (at the same or an enclosing level) every store to cores."""
    def stores_cores(s):
        for n in ast.walk(s):
            if isinstance(n, ast.Assign):
                for t in n.targets:
                    tt = norm(t)
                    if tt.startswith("self.cores"):
                        return True
        return False

    def stores_shape(s):
        return any(isinstance(n, ast.Assign) and any(norm(t) == "self.shape" for t in n.targets) for n in ast.walk(s))
    last_core = max([i for i, s in enumerate(body) if stores_cores(s)], default=None)
    if last_core is None:
        return True
    if any(stores_shape(s) for s in body[last_core + 1:]):
        return True
    s = body[last_core]
    # the store is nested: every nested block containing a core store must assign shape afterwards in that block
    def nested_ok(st):
        if isinstance(st, ast.If):
            return all(block_ok(b) for b in (st.body, st.orelse) if any(stores_cores(x) for x in b))
        return False

    def block_ok(b):
        return _assigns_shape_after_core_store(b)
    return nested_ok(s)


# --------------------------------------------------------------------------- WHO-WRITES / CTOR-ARG / GETTER

def rule_who_writes(model: Model, eng: Effects):
    obs = []
    allow = {TT + "__init__", TT + "set_core", TT + "reduce_dims"}
    fields = {"cores", "_TT__N", "_TT__M", "_TT__R", "shape", "_TT__is_ttm"}
    for f in sorted(model.functions.values(), key=lambda x: x.qual):
        s = eng.summary(f)
        bad = []
        for e in s.effects:
            steps = e.steps
            hits_field = (e.kind == "attr-store" and e.attr in fields) or (steps and steps[-1].lstrip(".") in fields and e.kind in ("store", "list-mutation")) \
                or (len(steps) >= 1 and steps[0].lstrip(".") in fields and e.kind in ("store", "list-mutation"))
            if hits_field:
                bad.append(e)
        k = f"{f.short}:WHO-WRITES:fields"
        if f.cls == "TT" and f.name.startswith("_") and not (f.name.startswith("__") and f.name.endswith("__")):
            # a private helper of the class is not an entry point: its stores are charged to the methods that call it (call-chain effects)
            obs.append(Ob("WHO-WRITES", k, OK, model.where(f), f.short, "private helper: its effects are checked at its callers"))
            continue
        if f.short in allow or f.cls not in (None, "TT") and f.name == "__init__":
            obs.append(Ob("WHO-WRITES", k, OK, model.where(f), f.short, "allowlisted writer" if f.short in allow else "constructor of another class"))
            continue
        if bad and (f.cls == "TT" or any(".cores" in "".join(e.steps) or e.kind == "attr-store" for e in bad)):   # attr-store: of a TT field (see hits_field)
            e = bad[0]
            # writes to rank lists handed in as plain arguments (lr_orthogonal's R) are not TT fields
            if not any(st.startswith(".") for st in e.steps) and e.kind != "attr-store":
                obs.append(Ob("WHO-WRITES", k, OK, model.where(f), f.short, "writes only plain list arguments"))
                continue
            if f.cls is not None and f.cls != "TT":
                obs.append(Ob("WHO-WRITES", k, OK, model.where(f), f.short, "method of another class writing its own fields"))
                continue
            obs.append(Ob("WHO-WRITES", k, VIOLATED, e.where, e.construct,
                          f"{f.short} stores into TT metadata/core list of an object it received ({e.param}{''.join(e.steps)}, {e.kind}, "
                          f"`{e.construct}` in {e.func}); only __init__, set_core and reduce_dims may do that, and they re-derive the "
                          "dependent fields"))
        else:
            obs.append(Ob("WHO-WRITES", k, OK, model.where(f), f.short, "no store into TT fields of a received object"))
    # attribute stores into TT fields of any object other than self (e.g. a just-constructed result)
    for f in model.functions.values():
        for n in ast.walk(f.node):
            if isinstance(n, (ast.Assign, ast.AugAssign)):
                tgts = n.targets if isinstance(n, ast.Assign) else [n.target]
                for t in tgts:
                    if isinstance(t, ast.Attribute) and isinstance(t.value, ast.Name) and t.value.id != "self" \
                            and t.attr in ("cores", "shape", "_TT__N", "_TT__M", "_TT__R", "_TT__is_ttm"):
                        obs.append(Ob("WHO-WRITES", f"{f.short}:WHO-WRITES:foreign-attr:{norm(t)}", VIOLATED, model.where(f, n), norm(n)[:100],
                                      f"{f.short} rebinds `{norm(t)}` of an existing TT object; N/M/R/shape are not re-derived, so the "
                                      "object's metadata no longer describes its cores"))
    # stores into the core list of a just-constructed object must be shape preserving
    for f in model.functions.values():
        for n in ast.walk(f.node):
            tgt = None
            if isinstance(n, ast.Assign) and isinstance(n.targets[0], ast.Subscript):
                tgt, val, aug = n.targets[0], n.value, False
            elif isinstance(n, ast.AugAssign) and isinstance(n.target, ast.Subscript):
                tgt, val, aug = n.target, n.value, True
            if tgt is None or not (isinstance(tgt.value, ast.Attribute) and tgt.value.attr == "cores"
                                   and isinstance(tgt.value.value, ast.Name) and tgt.value.value.id != "self"):
                continue
            k = f"{f.short}:WHO-WRITES:local-store:{norm(n)[:60]}"
            same = norm(tgt)
            ok = aug or (isinstance(val, ast.UnaryOp) and norm(val.operand) == same) or \
                (isinstance(val, ast.BinOp) and (norm(val.left) == same or norm(val.right) == same)
                 and isinstance(val.op, (ast.Mult, ast.Div, ast.Add, ast.Sub)))
            obs.append(Ob("WHO-WRITES", k, OK if ok else VIOLATED, model.where(f, n), norm(n)[:100],
                          "shape-preserving rescaling of an element of a freshly built object" if ok else
                          "a core of an existing TT object is replaced outside set_core: N/M/R/shape are not re-derived"))
    return obs


def rule_ctor_arg(model: Model, eng: Effects):
    obs = []
    for f in model.functions.values():
        eng.summary(f)
    seen = set()
    for f, call, cls_q, args in eng.ctor_sites:
        if cls_q != "torchtt._tt_base.TT":
            continue
        k = f"{f.short}:CTOR-ARG:{norm(call)[:70]}"
        if k in seen:
            continue
        seen.add(k)
        a0 = call.args[0] if call.args else None
        kind = args[0].kind if args else "?"
        is_none = isinstance(a0, ast.Constant) and a0.value is None
        shared = [r for r in (args[0].roots if args else ()) if len(r) >= 3 and r[0] == "P" and r[-1] == ".cores"]
        if kind == "L" and shared:
            obs.append(Ob("CTOR-ARG", k, VIOLATED, model.where(f, call), norm(call)[:100],
                          f"{f.short} hands the core *list* of `{shared[0][1]}` itself to TT(...): the constructor stores the list it is given, so the new object "
                          "and the operand share one list; a later set_core / reduce_dims on either replaces cores under the other, whose N / M / R / shape "
                          "then no longer describe its cores (pass a copy of the list)"))
        elif is_none or kind in ("L",):
            obs.append(Ob("CTOR-ARG", k, OK, model.where(f, call), norm(call)[:100], "core list" if not is_none else "None"))
        elif kind == "T":
            if f.short in DENSE_SITES:
                obs.append(Ob("CTOR-ARG", k, OK, model.where(f, call), norm(call)[:100], "dense construction site (TT-SVD intended)"))
            else:
                obs.append(Ob("CTOR-ARG", k, VIOLATED, model.where(f, call), norm(call)[:100],
                              f"{f.short} passes a tensor (a single core or slice) to TT(...): the constructor treats it as a dense "
                              "array and runs TT-SVD on the core, so the result has a different order/shape than intended"))
        else:
            obs.append(Ob("CTOR-ARG", k, OK, model.where(f, call), norm(call)[:100], "argument kind not a tensor by inference (list-returning callee / external)"))
    return obs


def rule_getters(model: Model):
    obs = []
    props = rules.property_backing(model, "torchtt._tt_base.TT")
    for name in ("N", "M", "R"):
        k = f"{TT}{name}:GETTER:copy"
        b = props.get(name)
        f = model.func(TT + name)
        if b is None:
            obs.append(Ob("GETTER", k, ERROR, model.where(f), name, "getter not in the recognised form `return self.__X.copy()`"))
        elif not b[1]:
            obs.append(Ob("GETTER", k, VIOLATED, model.where(f), name,
                          f"TT.{name} returns the internal list itself: callers (e.g. rl_orthogonal(x.cores, x.R, ...)) write into it "
                          "and corrupt the object's metadata"))
        else:
            obs.append(Ob("GETTER", k, OK, model.where(f), name, f"returns a copy of {b[0]}"))
    # objects are only created through __init__
    cls = model.classes["torchtt._tt_base.TT"]
    bypass = [n for n in ast.walk(cls) if isinstance(n, ast.FunctionDef) and n.name in ("__new__", "__copy__", "__deepcopy__", "__setstate__", "__reduce__")]
    obs.append(Ob("GETTER", f"{TT}:GETTER:no-ctor-bypass", OK if not bypass else VIOLATED, "torchtt/_tt_base.py", "__new__/__copy__/__setstate__",
                  "all TT objects are created through __init__" if not bypass else
                  f"class TT defines {[b.name for b in bypass]}: objects can come into existence without the constructor's validation"))
    return obs


def check(model: Model, tier: str):
    eng = Effects(model)
    obs = []
    from ..e5 import obligations as e5ob
    sem = e5ob.for_property(model, "C05", tier)
    # Establishment (constructor from a core list) and preservation (set_core, reduce_dims) are DECIDED by evaluating the real code on
    # symbolic objects of order 1-3 (e5/scenarios8.py).  The structural reading of the same functions (ESTABLISH / PRESERVE / the
    # read-of-__M part of FIELDS) is kept as a cross-reference for every order: where it cannot recognise the form of the code (a
    # restructured constructor, flags instead of nested ifs) it says so as INFO and never as a verdict - unless the evaluation itself
    # could not be carried out, in which case it is all there is.
    sem_decides = bool(sem) and not any(o.status == ERROR for o in sem)
    structural = rule_fields(model) + rule_establish(model) + rule_preserve(model)
    for o in structural:
        soft = o.rule in ("ESTABLISH", "PRESERVE") or (o.rule == "FIELDS" and ":read-__M:" in o.key)
        if sem_decides and soft and o.status in (VIOLATED, ERROR):
            o.status = INFO
            o.detail = "structural reading inconclusive (the clause is decided by evaluation, E5 scenarios TT.__init__/set_core/reduce_dims): " + o.detail
    obs += structural
    obs += rule_who_writes(model, eng)
    obs += rule_ctor_arg(model, eng)
    obs += rule_getters(model)
    obs += sem
    return obs, {"functions": sorted(f.short for f in model.functions.values())}
