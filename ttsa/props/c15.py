"""C15 - gradients through TT operations: claimed for the structural clauses (the identity itself reduces to the E5 value checks)."""
from __future__ import annotations

import ast

from .. import rules
from ..effects import Effects
from ..model import Model, norm
from ..report import Ob, OK, VIOLATED, ERROR, INFO
from ..e5 import obligations as e5ob
from . import common

META = {
    "explanation": "If (i) the forward value of each differentiable operation is the specified polynomial in the cores (decided by the E5 "
                   "checks of C03/C04/C07/C08/C09/C20) and (ii) it is computed only by differentiable torch operations on values connected "
                   "to the leaf cores, autograd's chain rule yields the dense derivative. This check decides (ii): inside the call-graph "
                   "closure of the differentiable set no graph-cutting operation (.numpy(), .item(), .tolist(), .detach(), .data, "
                   "torch.no_grad, torch.tensor/as_tensor of non-literal data, float()/int()/complex() of tensor values) occurs, no "
                   "in-place write reaches a leaf core (effect analysis), norm switches to the differentiable Gram chain whenever any "
                   "core is tracked, and grad.grad / grad.grad_list return c.grad of exactly the watched cores in order.",
    "assumptions": ["autograd's chain rule for the torch primitives used", "numerical agreement with finite differences is not decided"],
    "floors": {"GRAPH-CUT": 25, "LEAF-WRITE": 25, "GRAD-COLLECT": 3, "E5-CHAIN": 40},
}
DIFF = ["_tt_base.TT.full", "_tt_base.TT.__add__", "_tt_base.TT.__radd__", "_tt_base.TT.__sub__", "_tt_base.TT.__rsub__", "_tt_base.TT.__mul__",
        "_tt_base.TT.__rmul__", "_tt_base.TT.__matmul__", "_tt_base.TT.__neg__", "_tt_base.TT.__pos__", "_tt_base.TT.__truediv__",
        "_tt_base.TT.__pow__", "_extras.kron", "_tt_base.TT.sum", "_extras.dot", "_tt_base.TT.norm", "_extras.bilinear_form",
        "_aux_ops.bilinear_form_aux", "_tt_base.TT.__getitem__", "_tt_base.TT.reduce_dims", "_tt_base.TT.apply_mask", "_aux_ops.apply_mask",
        "_extras.cat", "_extras.pad", "_extras.diag", "_tt_base.TT.mprod", "_tt_base.TT.t", "_tt_base.TT.conj", "_tt_base.TT.to_ttm",
        "nn.LinearLayerTT.forward", "_aux_ops.dense_matvec"]
ANCHORS = DIFF + ["grad.watch", "grad.grad", "grad.grad_list"]
CUT_METHODS = {"numpy", "item", "tolist", "detach", "detach_"}


def _literal(e):
    if isinstance(e, ast.Constant):
        return True
    if isinstance(e, (ast.List, ast.Tuple)):
        return all(_literal(x) for x in e.elts)
    if isinstance(e, ast.UnaryOp):
        return _literal(e.operand)
    return False


def rule_graph_cut(model: Model):
    obs = []
    for fs in DIFF:
        f = model.func(fs)
        cuts = []
        skip = set()
        if fs == "_tt_base.TT.norm":
            # the QR branch is taken only when no core is tracked (NORM-SWITCH): its value is never differentiated
            for n in ast.walk(f.node):
                if isinstance(n, ast.If) and "requires_grad" in norm(n.test):
                    for s in n.orelse:
                        skip |= {id(x) for x in ast.walk(s)}
        if fs == "_tt_base.TT.__truediv__":
            for n in ast.walk(f.node):
                if isinstance(n, ast.If) and "isinstance(other, TT)" in norm(n.test):
                    for s in n.body:
                        skip |= {id(x) for x in ast.walk(s)}     # TT / TT goes through the AMEn solver: not in the differentiable set
        for n in ast.walk(f.node):
            if id(n) in skip:
                continue
            if isinstance(n, ast.Call) and isinstance(n.func, ast.Attribute) and n.func.attr in CUT_METHODS:
                cuts.append((n, f".{n.func.attr}() cuts the autograd graph"))
            elif isinstance(n, ast.Attribute) and n.attr == "data" and isinstance(n.ctx, ast.Load):
                cuts.append((n, ".data bypasses autograd"))
            elif isinstance(n, ast.Call):
                r = model.resolve(f.module, n.func)
                if r in ("torch.no_grad", "torch.set_grad_enabled", "torch.inference_mode"):
                    cuts.append((n, f"{r} disables gradient recording"))
                elif r in ("copy.deepcopy", "copy.copy", "pickle.loads", "pickle.dumps"):
                    cuts.append((n, f"{r} of a TT object / core re-creates its tensors: a tracked leaf becomes a new, disconnected leaf "
                                    "(and deepcopy of a non-leaf tracked tensor raises)"))
                elif r in ("torch.tensor", "torch.as_tensor", "torch.from_numpy") and n.args and not _literal(n.args[0]):
                    cuts.append((n, f"{r}(<computed data>) creates a new leaf: the value is disconnected from the operand cores"))
                elif r in ("builtins.float", "builtins.int", "builtins.complex") and n.args and \
                        any(isinstance(x, ast.Attribute) and x.attr == "cores" for x in ast.walk(n.args[0])):
                    cuts.append((n, f"{r.split('.')[1]}() of a core entry converts a tracked tensor to a Python number"))
                elif r is not None and r.startswith("numpy.") and r not in ("numpy.isscalar", "numpy.arange", "numpy.prod", "numpy.sqrt") and \
                        any(isinstance(x, ast.Attribute) and x.attr == "cores" for a in n.args for x in ast.walk(a)):
                    cuts.append((n, f"{r} applied to core data leaves torch"))
            elif isinstance(n, ast.With):
                for it in n.items:
                    r = model.resolve(f.module, it.context_expr.func) if isinstance(it.context_expr, ast.Call) else None
                    if r in ("torch.no_grad", "torch.inference_mode"):
                        cuts.append((n, f"with {r}(): gradient recording disabled"))
        k = f"{fs}:GRAPH-CUT"
        if cuts:
            n, why = cuts[0]
            obs.append(Ob("GRAPH-CUT", k + ":" + norm(n)[:50], VIOLATED, model.where(f, n), norm(n)[:100],
                          f"{fs} belongs to the differentiable operations but {why}: gradients w.r.t. tracked cores are lost or wrong"))
        else:
            obs.append(Ob("GRAPH-CUT", k, OK, model.where(f), fs, "no graph-cutting construct"))
    return obs


def rule_leaf_write(model: Model):
    eng = Effects(model)
    obs = []
    for fs in DIFF:
        f = model.func(fs)
        s = eng.summary(f)
        bad = [e for e in s.effects if e.kind == "inplace" and (fs, e.param) not in (("_tt_base.TT.reduce_dims", "self"),)]
        k = f"{fs}:LEAF-WRITE"
        if bad:
            e = bad[0]
            obs.append(Ob("LEAF-WRITE", k + ":" + e.construct[:40], VIOLATED, e.where, e.construct,
                          f"{fs} performs an in-place write on {e.param}{''.join(e.steps)} (`{e.construct}` in {e.func}): on a tracked leaf core "
                          "autograd raises, on an intermediate it corrupts the saved values"))
        else:
            obs.append(Ob("LEAF-WRITE", k, OK, model.where(f), fs, "no in-place write on an operand core"))
    return obs


def rule_norm_switch(model: Model):
    f = model.func("_tt_base.TT.norm")
    top = [s for s in f.node.body if isinstance(s, ast.If)]
    k = "_tt_base.TT.norm:NORM-SWITCH"
    if not top:
        return [Ob("NORM-SWITCH", k, ERROR, model.where(f), "if any(...)", "branch on tracking not found")]
    t = top[0].test
    ok = False
    if isinstance(t, ast.Call) and isinstance(t.func, ast.Name) and t.func.id == "any" and t.args and isinstance(t.args[0], (ast.ListComp, ast.GeneratorExp)):
        comp = t.args[0]
        g = comp.generators[0]
        attrs = {x.attr for x in ast.walk(comp.elt) if isinstance(x, ast.Attribute)}
        over_all = norm(g.iter) == "self.cores" and not g.ifs
        is_or = isinstance(comp.elt, ast.BoolOp) and isinstance(comp.elt.op, ast.Or)
        ok = over_all and {"requires_grad", "grad_fn"} <= attrs and is_or
    ok = ok and any(isinstance(x, ast.Call) and (model.resolve(f.module, x.func) in ("torch.einsum", "opt_einsum.contract")) for s in top[0].body for x in ast.walk(s))
    return [Ob("NORM-SWITCH", k, OK if ok else VIOLATED, model.where(f, top[0]), norm(top[0].test)[:100],
               "the differentiable Gram chain is used whenever any core is tracked (leaf or intermediate)" if ok else
               "norm no longer switches to the differentiable Gram chain for every tracked core (requires_grad or grad_fn over all cores): "
               "the QR branch's value would be differentiated / gradients of non-leaf inputs lost")]


def _grad_reads(fn: ast.FunctionDef, param: str):
    """forms in which `.grad` of the cores of `param` is read: 'all' ([c.grad for c in param.cores]) / 'indexed' (param.cores[i].grad)"""
    forms = set()
    for n in ast.walk(fn):
        if isinstance(n, (ast.ListComp, ast.GeneratorExp)) and isinstance(n.elt, ast.Attribute) and n.elt.attr == "grad":
            g = n.generators[0]
            if isinstance(n.elt.value, ast.Name) and isinstance(g.target, ast.Name) and n.elt.value.id == g.target.id \
                    and isinstance(g.iter, ast.Attribute) and g.iter.attr == "cores" and not g.ifs:
                forms.add("all:" + norm(g.iter.value))
        if isinstance(n, ast.Attribute) and n.attr == "grad" and isinstance(n.value, ast.Subscript) and isinstance(n.value.value, ast.Attribute) \
                and n.value.value.attr == "cores" and isinstance(n.value.slice, ast.Name):
            # the index must be the variable of a loop over an index-list parameter
            iv = n.value.slice.id
            for lp in ast.walk(fn):
                if isinstance(lp, ast.For) and isinstance(lp.target, ast.Name) and lp.target.id == iv and isinstance(lp.iter, ast.Name) \
                        and any(x is n for x in ast.walk(lp)):
                    forms.add("indexed:" + norm(n.value.value.value))
                # the same as a comprehension: [t.cores[i].grad for i in core_indices]
                if isinstance(lp, (ast.ListComp, ast.GeneratorExp)) and lp.elt is n and len(lp.generators) == 1 and isinstance(lp.generators[0].target, ast.Name) \
                        and lp.generators[0].target.id == iv and isinstance(lp.generators[0].iter, ast.Name) and not lp.generators[0].ifs:
                    forms.add("indexed:" + norm(n.value.value.value))
    return forms


def rule_grad_collect(model: Model):
    obs = []
    f = model.func("grad.grad")
    ps = f.params()
    forms = _grad_reads(f.node, ps[1])
    back = any(isinstance(n, ast.Call) and isinstance(n.func, ast.Attribute) and n.func.attr == "backward" and norm(n.func.value) == ps[0] for n in ast.walk(f.node))
    ok = {f"all:{ps[1]}", f"indexed:{ps[1]}"} <= forms and back
    obs.append(Ob("GRAD-COLLECT", "grad.grad:GRAD-COLLECT", OK if ok else VIOLATED, model.where(f), "c.grad of the watched cores, in order",
                  "returns c.grad of all cores, or of the listed cores in order, after backward()" if ok else
                  "grad.grad no longer returns c.grad of exactly the requested cores of the given tensor (after val.backward())"))
    f = model.func("grad.grad_list")
    ps = f.params()
    back = any(isinstance(n, ast.Call) and isinstance(n.func, ast.Attribute) and n.func.attr == "backward" and norm(n.func.value) == ps[0] for n in ast.walk(f.node))
    loops = [n for n in ast.walk(f.node) if isinstance(n, ast.For) and norm(n.iter) == ps[1] and isinstance(n.target, ast.Name)]
    good = [lp for lp in loops if f"all:{lp.target.id}" in _grad_reads(lp, lp.target.id)]
    ok = back and loops and len(good) == len(loops)
    obs.append(Ob("GRAD-COLLECT", "grad.grad_list:GRAD-COLLECT", OK if ok else VIOLATED, model.where(f), "c.grad per tensor, in order",
                  "collects c.grad for every core of every tensor in order" if ok else "grad_list no longer collects c.grad of every core of every listed tensor"))
    f = model.func("grad.watch")
    p0 = f.params()[0]
    idxp = f.params()[1] if len(f.params()) > 1 else None
    forms = set()
    for lp in ast.walk(f.node):
        if not (isinstance(lp, ast.For) and isinstance(lp.target, ast.Name)):
            continue
        calls = [n for n in ast.walk(lp) if isinstance(n, ast.Call) and isinstance(n.func, ast.Attribute) and n.func.attr == "requires_grad_"
                 and n.args and isinstance(n.args[0], ast.Constant) and n.args[0].value is True]
        tv = lp.target.id
        direct = [c for c in calls if isinstance(c.func.value, ast.Name) and c.func.value.id == tv]                       # for c in tens.cores: c.requires_grad_(True)
        indexed = [c for c in calls if isinstance(c.func.value, ast.Subscript) and norm(c.func.value.value) == f"{p0}.cores" and norm(c.func.value.slice) == tv]
        it = norm(lp.iter).replace(" ", "")
        if direct and it == f"{p0}.cores":
            forms.add("all")
        if indexed:
            if it == f"range(len({p0}.cores))":
                forms.add("all")
            elif idxp and it == idxp:
                # the parameter itself: listed indices - or all of them when it was defaulted to range(len(cores)) under an `is None` test
                defaulted = any(isinstance(n, ast.If) and idxp in norm(n.test) and "None" in norm(n.test) and
                                any(isinstance(x, ast.Assign) and norm(x.targets[0]) == idxp and norm(x.value).replace(" ", "") == f"range(len({p0}.cores))" for x in n.body)
                                for n in ast.walk(f.node))
                forms.add("listed")
                if defaulted:
                    forms.add("all")
    ok = {"all", "listed"} <= forms
    obs.append(Ob("GRAD-COLLECT", "grad.watch:GRAD-COLLECT", OK if ok else VIOLATED, model.where(f), "requires_grad_(True) on the cores themselves",
                  "watch marks the operand's own cores as leaves (all cores / the listed ones)" if ok else
                  f"watch no longer switches the operand's own cores to requires_grad for both call forms (all cores / listed cores); recognised: {sorted(forms)}"))
    return obs


def check(model: Model, tier: str):
    obs = []
    obs += rule_graph_cut(model)
    obs += rule_leaf_write(model)
    sem = e5ob.for_property(model, "C15", tier)
    from .common import cross_reference
    obs += cross_reference(rule_norm_switch(model), [o for o in sem if "norm:switch" in o.key or "norm:ad" in o.key], "E5 scenarios norm:switch / norm:ad")
    obs += cross_reference(rule_grad_collect(model), [o for o in sem if any(t in o.key for t in (":grad:d", ":grad_list:", ":watch:d", ":unwatch:"))],
                           "E5 closed-value scenarios grad / grad_list / watch / unwatch")
    obs += sem
    return obs, {"functions": ANCHORS}
