"""C07 - norm, inner product, sums and bilinear forms equal their dense values (E5 sweeps + discipline rules)."""
from __future__ import annotations

import ast

from .. import rules
from ..model import Model, norm, own_returns
from ..report import Ob, OK, VIOLATED, ERROR, INFO
from ..e5 import obligations as e5ob

META = {
    "explanation": "Sweep-state typing (Lemma 3): for norm (autograd/Gram branch, tensor and operator, squared and plain), dot (full), "
                   "sum over all modes (tensor and operator) and the bilinear form, the accumulator before the loop, one generic "
                   "loop step and the closing expression are compared by canonical contraction network with the specified state "
                   "(which bonds are open, which operand is conjugated, which modes are tied/summed). Orders d = 1 and the "
                   "short-loop cases are separate concrete paths. The QR branch of norm is decided only structurally: the R "
                   "factor of each QR is carried into the next core and the Frobenius norm of the last carried core is returned, "
                   "for every d >= 1 (definite assignment). Plus name resolution incl. third-party attributes and axis-range rules.",
    "assumptions": ["exact arithmetic; numerical stability of the QR sweep vs the Gram chain is outside the claim"],
    "floors": {"E5-CHAIN": 30, "UNRES": 60, "DEFASSIGN": 20},
}
ANCHORS = ["_tt_base.TT.norm", "_tt_base.TT.sum", "_extras.dot", "_extras.bilinear_form", "_aux_ops.bilinear_form_aux",
           "_tt_base.TT.reduce_dims"]


def rule_qr_carry(model: Model):
    """structural clause for the QR branch of norm"""
    f = model.func("_tt_base.TT.norm")
    obs = []
    loop = None
    for n in ast.walk(f.node):
        if isinstance(n, ast.For) and any(isinstance(c, ast.Call) and (model.resolve(f.module, c.func) or "").endswith("_decomposition.QR")
                                          for c in ast.walk(n)):
            loop = n
    k = "_tt_base.TT.norm:QR-CARRY:"
    if loop is None:
        return [Ob("QR-CARRY", k + "loop", ERROR, model.where(f), "QR sweep", "QR sweep of norm not found")]
    txt = [norm(s) for s in loop.body for s in ast.walk(s) if isinstance(s, ast.Assign)]
    rname = None
    for s in ast.walk(loop):
        if isinstance(s, ast.Assign) and isinstance(s.targets[0], ast.Tuple) and isinstance(s.value, ast.Call) \
                and (model.resolve(f.module, s.value.func) or "").endswith("_decomposition.QR"):
            rname = s.targets[0].elts[1].id if isinstance(s.targets[0].elts[1], ast.Name) else None
    carried = any(isinstance(s, ast.Assign) and isinstance(s.value, ast.BinOp) and isinstance(s.value.op, ast.MatMult)
                  and isinstance(s.value.left, ast.Name) and s.value.left.id == rname for s in ast.walk(loop))
    obs.append(Ob("QR-CARRY", k + "carry", OK if carried else VIOLATED, model.where(f, loop), f"{rname} @ core_next",
                  "the R factor multiplies the next core" if carried else
                  "the R factor of the QR decomposition is not carried into the next core: the norm of the last core alone is returned"))
    lv = loop.target.id if isinstance(loop.target, ast.Name) else "?"
    nxt_names = [s.targets[0].id for s in ast.walk(loop) if isinstance(s, ast.Assign) and isinstance(s.targets[0], ast.Name)
                 and norm(s.value).replace(" ", "") == f"self.cores[{lv}+1]"]
    nxt = bool(nxt_names)
    obs.append(Ob("QR-CARRY", k + "next-core", OK if nxt else VIOLATED, model.where(f, loop), "next = self.cores[i + 1]",
                  "the sweep advances to core i+1" if nxt else "the sweep does not take core i+1 as the next core"))
    # the carried core: a name bound before the sweep and re-bound in its body; the returns after the loop read it
    def _targets(stmts):
        out = set()
        for st in stmts:
            for s in ast.walk(st):
                if isinstance(s, ast.Assign):
                    for t in s.targets:
                        out |= {x.id for x in ast.walk(t) if isinstance(x, ast.Name)}
        return out
    parent_block = None
    for n in ast.walk(f.node):
        for fld in ("body", "orelse"):
            blk = getattr(n, fld, None)
            if isinstance(blk, list) and loop in blk:
                parent_block = blk
    before = _targets(parent_block[:parent_block.index(loop)]) if parent_block else set()
    rebound = sorted(_targets(loop.body) & before)
    after = parent_block[parent_block.index(loop) + 1:] if parent_block else []
    post = {}
    for st in after:
        if isinstance(st, ast.Assign) and len(st.targets) == 1 and isinstance(st.targets[0], ast.Name):
            post.setdefault(st.targets[0].id, []).append(st.value)

    def expand(e, depth=0):
        if isinstance(e, ast.Name) and len(post.get(e.id, [])) == 1 and depth < 4:
            return expand(post[e.id][0], depth + 1)
        return e

    def is_norm(e):
        e = expand(e)
        if not isinstance(e, ast.Call):
            return False
        fn_txt = norm(e.func).replace(" ", "")
        if fn_txt in ("tn.linalg.norm", "tn.norm", "torch.linalg.norm", "torch.norm", "tn.linalg.vector_norm") and len(e.args) == 1 and not e.keywords:
            return isinstance(e.args[0], ast.Name) and e.args[0].id in rebound
        if isinstance(e.func, ast.Attribute) and e.func.attr == "norm" and not e.args and not e.keywords:
            return isinstance(e.func.value, ast.Name) and e.func.value.id in rebound
        return False

    def classify(e):
        """'plain' / 'squared' / None for one returned expression"""
        e = expand(e)
        if isinstance(e, ast.BinOp) and isinstance(e.op, ast.Pow) and isinstance(e.right, ast.Constant) and e.right.value == 2:
            return "squared" if is_norm(e.left) else None
        if isinstance(e, ast.BinOp) and isinstance(e.op, ast.Mult) and norm(e.left) == norm(e.right):
            return "squared" if is_norm(e.left) else None
        return "plain" if is_norm(e) else None
    rets = [r for r in own_returns(f.node) if r.lineno > loop.lineno and r.value is not None]
    kinds = []
    for r in rets:
        v = expand(r.value)
        kinds += [classify(v.body), classify(v.orelse)] if isinstance(v, ast.IfExp) else [classify(v)]
    good = bool(rebound) and bool(kinds) and None not in kinds
    sq = "squared" in kinds and "plain" in kinds
    obs.append(Ob("QR-CARRY", k + "return", OK if good and sq else VIOLATED, model.where(f, rets[0]) if rets else model.where(f), "return norm(carried core)",
                  "Frobenius norm of the last carried core (squared when requested)" if good and sq else
                  "the value returned after the QR sweep is not the Frobenius norm of the carried core (plain / squared)"))
    return obs


_NORM_DIV_FIXTURE = '''
def p(G):
    nrm = tn.linalg.norm(G)
    G = G / nrm
    return G, tn.log(nrm)

def q(G):
    nrm = tn.linalg.norm(G)
    if nrm > 0:
        G = G / nrm
    return G
'''


def _norm_div_fixture(model: Model):
    """the rule must flag the unguarded example and accept the guarded twin (its count on the real tree is zero)"""
    import dataclasses
    from ..normguard import rule_norm_division
    from ..model import Func
    tree = ast.parse(_NORM_DIV_FIXTURE)
    host = model.func("_tt_base.TT.norm")
    res = {}
    for fn in tree.body:
        res[fn.name] = rule_norm_division(model, "fixture." + fn.name, func=dataclasses.replace(host, node=fn))
    ok = any(o.status == VIOLATED for o in res["p"]) and res["q"] and all(o.status == OK for o in res["q"])
    return [Ob("NORM-DIV", "fixture:NORM-DIV:positive-example", OK if ok else ERROR, "ttsa/props/c07.py", "_NORM_DIV_FIXTURE",
               "the built-in positive example is flagged and its guarded twin is not" if ok else "the NORM-DIV rule no longer recognises its positive example")]


def check(model: Model, tier: str):
    obs = e5ob.for_property(model, "C07", tier)
    scope = [model.func(a) for a in ANCHORS]
    obs += rules.rule_unres(model, scope)
    obs += rules.rule_defassign(model, scope)
    from .common import cross_reference
    obs += cross_reference(rule_qr_carry(model), [o for o in obs if o.rule.startswith("E5") and "norm:qr" in o.key], "E5 scenarios norm:qr.d1-d3")
    # the zero tensor is in the domain of every function here: no division by (logarithm of) an untested norm (added after seed S5-C07-2);
    # today's tree has no such division, the built-in example keeps the rule honest
    from ..normguard import rule_norm_division
    for a in ANCHORS:
        obs += rule_norm_division(model, a)
    obs += _norm_div_fixture(model)
    from . import c18
    obs += [o for o in c18.rule_axis_range(model) if "sum" in o.key or "dot" in o.key]
    return obs, {"functions": ANCHORS}
