"""C12 - AMEn solve: claimed only for the operator-consistency, interface-typing and validation clauses (residual bound: not applicable)."""
from __future__ import annotations

from .. import rules
from ..defattr import rule_defattr
from ..effects import Effects
from ..model import Model
from ..report import Ob, OK, VIOLATED, ERROR, INFO

META = {
    "explanation": "Decides the structural necessary conditions of 'the local problems AMEn solves are projections of A x = b': "
                   "(L1) one local operator, every formulation - the einsum local product, the tensordot chain of _LinearOp.matvec with and "
                   "without preconditioner, the fused preconditioned contraction expressions and apply_prec followed by the plain product - "
                   "has the canonical network of the Galerkin projection (Phi_left x A_k x Phi_right) for generic, pairwise independent sizes; "
                   "the Jacobi preconditioners are the inverses of the matching diagonal blocks of that operator; (L2) the interface recursions "
                   "(_compute_phi_fwd/bck_A/rhs) are adjoint to it; (L3) IFACE-TYPE: every tensor statement of the two sweeps of "
                   "_amen_solve_python (local products, right-hand sides, the dense local matrix and its products with the flattened "
                   "core, residual forms, interface updates) has a consistent typing over the independent rank families rx, rz, R_A, R_b, N "
                   "at positions k, k+1 - a swapped interface, a wrong position or a permuted flattening order has none; (L4) DEF-ATTR: every "
                   "attribute _LinearOp.matvec/apply_prec read is assigned by the constructor in the same configuration (preconditioner x band "
                   "structure); (L5) validation guards of amen_solve establish compatibility (E5 compat postcondition), operands and initial "
                   "guess are never written (effect analysis), names resolve and results are definitely assigned in solvers.py and "
                   "_iterative_solvers.py. Does NOT decide the residual bound, convergence, conditioning or seed independence.",
    "assumptions": ["real operands (the interface recursions do not conjugate the test core)",
                    "generic sizes: rank families at different positions / of different trains are independent",
                    "the band-diagonal products (shifted diagonals re-padded by their offset) are not contraction networks and are not decided"],
    "floors": {"SCALE-FREE": 2, "ENRICH-WIDTH": 1, "ZERO-NORM": 6, "ARNOLDI-SEED": 1, "E5-CHAIN": 18, "IFACE-TYPE": 30, "DEF-ATTR": 12, "E3-PARAM": 3},
}
ANCHORS = ["solvers.amen_solve", "solvers._amen_solve_python", "solvers._local_product", "solvers._LinearOp.matvec", "solvers._LinearOp.apply_prec",
           "solvers._compute_phi_fwd_A", "solvers._compute_phi_bck_A", "solvers._compute_phi_fwd_rhs", "solvers._compute_phi_bck_rhs",
           "_iterative_solvers.gmres_restart", "_iterative_solvers.gmres", "_iterative_solvers.BiCGSTAB_reset"]


def check(model: Model, tier: str):
    from ..e5 import obligations as e5ob
    from ..e5.slicetype import type_body
    obs = []
    obs += e5ob.for_property(model, "C12", tier)
    obs += type_body(model, "solvers._amen_solve_python")
    obs += rule_defattr(model, "torchtt.solvers._LinearOp")
    eng = Effects(model)
    for fn, p in (("solvers.amen_solve", "A"), ("solvers.amen_solve", "b"), ("solvers.amen_solve", "x0")):
        fo = model.func(fn)
        effs = [e for e in eng.summary(fo).effects if e.param == p]
        obs.append(Ob("E3-PARAM", f"{fn}:E3-PARAM:{p}", VIOLATED if effs else OK, effs[0].where if effs else model.where(fo), p,
                      f"operand `{p}` is written: {effs[0].construct} in {effs[0].func}" if effs else "operand not written"))
    from ..normguard import rule_zero_norm, rule_arnoldi_seed
    obs += rule_zero_norm(model, "solvers._amen_solve_python")
    from ..normguard import rule_enrich_width
    obs += rule_enrich_width(model, "solvers._amen_solve_python")
    from ..normguard import rule_scale_free
    obs += rule_scale_free(model, "solvers._amen_solve_python")
    obs += rule_arnoldi_seed(model)
    fs = [model.func(a) for a in ANCHORS]
    exc = {
           ("_iterative_solvers.gmres", "sig:for:range(_)"): "loop over range(max_iterations) with max_iterations = local_iterations + 1 >= 1",
           ("_iterative_solvers.BiCGSTAB_reset", "sig:for:range(_)"): "loop over range(nmax), nmax = local_iterations >= 1 in the property's domain",
           ("_iterative_solvers.BiCGSTAB_reset", "sig:=binop"): "loop over range(nmax), nmax = local_iterations >= 1 in the property's domain"}
    # progress output and the undocumented truncation option 'fro' are outside the property's quantifier: their guards are fixed
    obs += rules.rule_defassign(model, fs, exc, domain="quantifier")
    obs += rules.rule_unres(model, fs)
    return obs, {"functions": ANCHORS}
