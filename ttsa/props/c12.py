"""C12 - AMEn solve: claimed only for the operator-consistency, interface-typing and validation clauses (residual bound: not applicable)."""
from __future__ import annotations

import ast

from .. import rules
from ..defattr import rule_defattr
from ..effects import Effects
from ..model import Model
from ..report import Ob, OK, VIOLATED, ERROR, INFO

META = {
    "explanation": "Decides the structural necessary conditions of 'the local problems AMEn solves are projections of A x = b': "
                   "(L1) one local operator, every formulation - the einsum local product, the tensordot chain of _LinearOp.matvec with and "
                   "without preconditioner, the fused preconditioned contraction expressions and apply_prec followed by the plain product - "
                   "has the canonical network of the Galerkin projection (Phi_left x A_k x Phi_right) for generic, pairwise independent sizes; "
                   "the Jacobi preconditioners are the inverses of the matching diagonal blocks of that operator; (L2) the interface recursions "
                   "(_compute_phi_fwd/bck_A/rhs) are adjoint to it; (L3) IFACE-TYPE: every tensor statement of the two sweeps of "
                   "_amen_solve_python (local products, right-hand sides, the dense local matrix and its products with the flattened "
                   "core, residual forms, interface updates) has a consistent typing over the independent rank families rx, rz, R_A, R_b, N "
                   "at positions k, k+1 - a swapped interface, a wrong position or a permuted flattening order has none; (L4) DEF-ATTR: every "
                   "attribute _LinearOp.matvec/apply_prec read is assigned by the constructor in the same configuration (preconditioner x band "
                   "structure); (L5) validation guards of amen_solve establish compatibility (E5 compat postcondition), operands and initial "
                   "guess are never written (effect analysis), names resolve and results are definitely assigned in solvers.py and "
                   "_iterative_solvers.py; (L7) RETRY-LOOP: a loop that draws vectors until one is not orthogonal to a fixed vector is dominated by "
                   "a test that the fixed vector is non-zero (a necessary condition of 'amen_solve returns': the residual of an exact initial "
                   "guess is zero). Does NOT decide the residual bound, convergence, conditioning or seed independence.",
    "assumptions": ["real operands (the interface recursions do not conjugate the test core)",
                    "generic sizes: rank families at different positions / of different trains are independent",
                    "the band-diagonal products (shifted diagonals re-padded by their offset) are not contraction networks and are not decided"],
    "floors": {"RESIDUAL-UNPREC": 1, "SCALE-FREE": 2, "ENRICH-WIDTH": 1, "ZERO-NORM": 6, "ARNOLDI-SEED": 1, "E5-CHAIN": 18, "IFACE-TYPE": 30, "DEF-ATTR": 12, "E3-PARAM": 3, "RETRY-LOOP": 1},
}
ANCHORS = ["solvers.amen_solve", "solvers._amen_solve_python", "solvers._local_product", "solvers._LinearOp.matvec", "solvers._LinearOp.apply_prec",
           "solvers._compute_phi_fwd_A", "solvers._compute_phi_bck_A", "solvers._compute_phi_fwd_rhs", "solvers._compute_phi_bck_rhs",
           "_iterative_solvers.gmres_restart", "_iterative_solvers.gmres", "_iterative_solvers.BiCGSTAB_reset"]


def rule_residual_unprec(model: Model):
    """RESIDUAL-UNPREC (added after seed S3-C12-1).  The iterative local solvers are handed the operator object, whose matvec applies the
    preconditioner by default (they solve A P y = r and the sweep maps y back with apply_prec).  The right-hand side r they receive is the
    residual b - A x of the *original* local system: every `<op>.matvec(...)` inside the definitions of that argument must switch the
    preconditioner off (second argument / apply_prec False).  One obligation per matvec call feeding a solver's right-hand side."""
    import ast
    from ..model import norm
    from ..inline import inlined
    f = inlined(model, model.func("solvers._amen_solve_python"))      # a local solve moved into a private helper is read in place
    obs = []
    solvers = ("gmres_restart", "BiCGSTAB_reset", "gmres", "BiCGSTAB")
    rhs_names = set()
    for n in ast.walk(f.node):
        if isinstance(n, ast.Call) and (model.resolve(f.module, n.func) or "").rsplit(".", 1)[-1] in solvers and len(n.args) >= 2:
            for x in ast.walk(n.args[1]):
                if isinstance(x, ast.Name):
                    rhs_names.add(x.id)
    # close over the locals the right-hand side is computed from (one level of temporaries: drhs = Op.matvec(..); drhs = rhs - drhs)
    defs = {}
    for n in ast.walk(f.node):
        if isinstance(n, ast.Assign) and len(n.targets) == 1 and isinstance(n.targets[0], ast.Name):
            defs.setdefault(n.targets[0].id, []).append(n)
    # ... and the locals those are computed from (Ax = Op.matvec(..); drhs = rhs - Ax), a few levels deep
    for _ in range(3):
        more = {x.id for nm in rhs_names for d in defs.get(nm, []) for x in ast.walk(d.value) if isinstance(x, ast.Name) and x.id in defs}
        if more <= rhs_names:
            break
        rhs_names |= more
    calls = []
    for nm in sorted(rhs_names):
        for d in defs.get(nm, []):
            for c in ast.walk(d.value):
                if isinstance(c, ast.Call) and isinstance(c.func, ast.Attribute) and c.func.attr == "matvec":
                    calls.append((nm, d, c))
    if not calls:
        return [Ob("RESIDUAL-UNPREC", "solvers._amen_solve_python:RESIDUAL-UNPREC", ERROR, model.where(f), "rhs of the local iterative solve",
                   "the residual handed to the iterative local solvers (a local computed with <op>.matvec) was not found")]
    for i, (nm, d, c) in enumerate(calls):
        off = (len(c.args) >= 2 and isinstance(c.args[1], ast.Constant) and c.args[1].value is False) or \
            any(k.arg == "apply_prec" and isinstance(k.value, ast.Constant) and k.value.value is False for k in c.keywords)
        obs.append(Ob("RESIDUAL-UNPREC", f"solvers._amen_solve_python:RESIDUAL-UNPREC:{i}", OK if off else VIOLATED, model.where(f, d), norm(d)[:100],
                      "the residual of the original system is formed with the preconditioner switched off" if off else
                      f"`{norm(d)[:90]}` forms the right-hand side `{nm}` of the local iterative solve with the *preconditioned* operator (matvec applies the "
                      "preconditioner unless told otherwise): with a preconditioner the solver is given A P x instead of A x in the residual, the correction "
                      "equation is wrong and AMEn diverges (identical without a preconditioner)"))
    return obs


def rule_residual_defs(model: Model):
    """RESIDUAL-DEFS (added after seeds S5-C12-1 / S6-C12-1, the same change written twice).  The quantity that steers the rank truncation is the
    relative residual of the *original* local system: `norm(<operator applied to the solution> - rhs) / norm_rhs`.  A local that is bound to such
    an expression in one branch (direct solve, single precision, double precision) has to be bound to one in every branch - a value reported by
    an iterative solver is relative to *its* right-hand side (the correction equation) and goes stale on an early exit.  Siblings must agree."""
    import ast
    from ..model import norm
    from ..inline import inlined
    f = inlined(model, model.func("solvers._amen_solve_python"))

    def residual_form(v):
        # norm(<something with a product / matvec> - <rhs>) / <norm of the rhs>
        if not (isinstance(v, ast.BinOp) and isinstance(v.op, ast.Div)):
            return False
        num = v.left
        if not (isinstance(num, ast.Call) and norm(num.func).endswith("norm")):
            return False
        if num.args:
            inner = num.args[0]
        elif isinstance(num.func, ast.Attribute):
            inner = num.func.value            # (A x - rhs).norm()
        else:
            return False

        def applies(e, depth=0):
            for x in ast.walk(e):
                if (isinstance(x, ast.Call) and isinstance(x.func, ast.Attribute) and x.func.attr == "matvec") or (isinstance(x, ast.BinOp) and isinstance(x.op, ast.MatMult)):
                    return True
                if isinstance(x, ast.Name) and depth < 2 and any(val is not None and applies(val, depth + 1) for _, val, _ in binds.get(x.id, [])):
                    return True       # Ax = Op.matvec(x, False) ... norm(Ax - rhs)
            return False
        has_sub = any(isinstance(x, ast.BinOp) and isinstance(x.op, ast.Sub) for x in ast.walk(inner))
        return has_sub and applies(inner)
    binds = {}
    for n in ast.walk(f.node):
        if isinstance(n, ast.Assign) and len(n.targets) == 1:
            t = n.targets[0]
            if isinstance(t, ast.Name):
                binds.setdefault(t.id, []).append((n, n.value, None))
            elif isinstance(t, (ast.Tuple, ast.List)):
                if isinstance(n.value, (ast.Tuple, ast.List)) and len(n.value.elts) == len(t.elts):
                    for x, y in zip(t.elts, n.value.elts):
                        if isinstance(x, ast.Name):
                            binds.setdefault(x.id, []).append((n, y, None))
                else:
                    for i, x in enumerate(t.elts):
                        if isinstance(x, ast.Name):
                            binds.setdefault(x.id, []).append((n, None, i))      # position i of whatever the call returns
    def blocks(node):
        for n in ast.walk(node):
            for fld in ("body", "orelse", "finalbody"):
                b = getattr(n, fld, None)
                if isinstance(b, list) and b and isinstance(b[0], ast.stmt):
                    yield b

    parent_stmt = {}
    for b in blocks(f.node):
        pass
    for n in ast.walk(f.node):
        for fld in ("body", "orelse", "finalbody"):
            b = getattr(n, fld, None)
            if isinstance(b, list) and b and isinstance(b[0], ast.stmt):
                for x in b:
                    parent_stmt[id(x)] = (n, b)

    def dead(st, nm):
        """the binding is overwritten before anything reads the name: by a later statement of its block, or - when its block ends first - of
        the blocks around it (up to the enclosing loop)"""
        cur = st
        while id(cur) in parent_stmt:
            owner, b = parent_stmt[id(cur)]
            for later in b[b.index(cur) + 1:]:
                rebinds = isinstance(later, ast.Assign) and any(isinstance(t, ast.Name) and t.id == nm for t in later.targets)
                if rebinds and not any(isinstance(x, ast.Name) and x.id == nm and isinstance(x.ctx, ast.Load) for x in ast.walk(later.value)):
                    return True
                if any(isinstance(x, ast.Name) and x.id == nm for x in ast.walk(later)):
                    return False
            if not isinstance(owner, ast.If):
                return False
            cur = owner
        return False
    obs = []
    residuals = {nm for nm, bs in binds.items() if any(v is not None and residual_form(v) for _, v, _ in bs)}
    for nm in sorted(residuals):
        for j, (st, v, pos) in enumerate(binds[nm]):
            if isinstance(v, ast.Constant) and v.value is None:
                continue        # a placeholder that is filled in later
            if dead(st, nm):
                continue        # overwritten before it is read
            if v is None:
                callee = (model.resolve(f.module, st.value.func) or norm(st.value.func)) if isinstance(st.value, ast.Call) else ""
                if callee.rsplit(".", 1)[-1] not in ("BiCGSTAB_reset", "BiCGSTAB", "gmres_restart", "gmres"):
                    continue    # returned by a routine this rule does not know (a helper that may well compute the true residual): no verdict
            ok = v is not None and (residual_form(v) or (isinstance(v, ast.Name) and v.id in residuals))
            k = f"solvers._amen_solve_python:RESIDUAL-DEFS:{nm}:{j}"
            obs.append(Ob("RESIDUAL-DEFS", k, OK if ok else VIOLATED, model.where(f, st), norm(st)[:90],
                          f"`{nm}` is the relative residual of the original local system here" if ok else
                          f"`{nm}` is the relative residual of the original local system in its other definitions (norm(A x - rhs) / norm_rhs), but here it is "
                          + ("element %d of what `%s` returns" % (pos, norm(st.value.func) if isinstance(st.value, ast.Call) else norm(st.value)[:40]) if v is None else f"`{norm(v)[:60]}`")
                          + ": a residual reported by an iterative solver is relative to the right-hand side it was given (the correction equation) and is "
                          "not recomputed on an early exit - the rank truncation then compares against the wrong quantity"))
    return obs


_RETRY_FIXTURE = '''
def p(Op, rhs, x0):
    r = rhs - Op.matvec(x0)
    s = tn.rand(r.shape)
    while tn.dot(r.squeeze(), s.squeeze()) == 0:
        s = tn.rand(r.shape)
    return s

def q(Op, rhs, x0):
    r = rhs - Op.matvec(x0)
    if not tn.linalg.norm(r) > 0:
        return x0
    s = tn.rand(r.shape)
    while tn.dot(r.squeeze(), s.squeeze()) == 0:
        s = tn.rand(r.shape)
    return s
'''


def _retry_loop_fixture(model: Model):
    """the rule must flag the unguarded search and accept its guarded twin (a tree that seeds the shadow residual differently has no such loop)"""
    import dataclasses
    from ..normguard import rule_retry_loop
    tree = ast.parse(_RETRY_FIXTURE)
    host = model.func("_iterative_solvers.gmres")
    res = {fn.name: rule_retry_loop(model, "fixture." + fn.name, func=dataclasses.replace(host, node=fn)) for fn in tree.body}
    ok = any(o.status == VIOLATED for o in res["p"]) and res["q"] and all(o.status == OK for o in res["q"])
    return [Ob("RETRY-LOOP", "fixture:RETRY-LOOP:positive-example", OK if ok else ERROR, "ttsa/props/c12.py", "_RETRY_FIXTURE",
               "the built-in positive example is flagged and its guarded twin is not" if ok else "the RETRY-LOOP rule no longer recognises its positive example")]


def check(model: Model, tier: str):
    from ..e5 import obligations as e5ob
    from ..e5.slicetype import type_body
    obs = []
    obs += e5ob.for_property(model, "C12", tier)
    obs += type_body(model, "solvers._amen_solve_python")
    obs += rule_defattr(model, "torchtt.solvers._LinearOp")
    eng = Effects(model)
    for fn, p in (("solvers.amen_solve", "A"), ("solvers.amen_solve", "b"), ("solvers.amen_solve", "x0")):
        fo = model.func(fn)
        effs = [e for e in eng.summary(fo).effects if e.param == p]
        obs.append(Ob("E3-PARAM", f"{fn}:E3-PARAM:{p}", VIOLATED if effs else OK, effs[0].where if effs else model.where(fo), p,
                      f"operand `{p}` is written: {effs[0].construct} in {effs[0].func}" if effs else "operand not written"))
    from ..normguard import rule_zero_norm, rule_arnoldi_seed
    obs += rule_zero_norm(model, "solvers._amen_solve_python")
    from ..normguard import rule_enrich_width
    obs += rule_enrich_width(model, "solvers._amen_solve_python")
    from ..normguard import rule_scale_free
    from ..normguard import rule_homogeneous
    obs += rule_homogeneous(model, "solvers._amen_solve_python")
    # (not applied to the Krylov solvers: they are handed pre-scaled local systems, and BiCGSTAB_reset's early exit `norm(s) < eps` - absolute,
    # on the pinned tree - only ends a local solve early; measured on the real code it costs sweeps, not accuracy, at every scale of b)
    obs += rule_scale_free(model, "solvers._amen_solve_python")
    for fs in ("_iterative_solvers.gmres", "_iterative_solvers.BiCGSTAB_reset", "_iterative_solvers.gmres_restart"):
        if model.has_func(fs):
            obs += rule_scale_free(model, fs)
    obs += rule_residual_unprec(model)
    obs += rule_residual_defs(model)
    from ..normguard import rule_train_init
    obs += rule_train_init(model, "solvers._amen_solve_python")
    from ..normguard import rule_residual_gauge
    obs += rule_residual_gauge(model, "solvers._amen_solve_python")
    obs += rule_arnoldi_seed(model)
    # the local solvers return: a search for a shadow residual must not depend on the residual being non-zero
    from ..normguard import rule_retry_loop
    for fo in sorted(model.functions.values(), key=lambda x: x.short):
        if fo.short.split(".")[0] in ("_iterative_solvers", "solvers"):
            obs += rule_retry_loop(model, fo.short)
    obs += _retry_loop_fixture(model)
    fs = [model.func(a) for a in ANCHORS]
    exc = {
           ("_iterative_solvers.gmres", "sig:for:range(_)"): "loop over range(max_iterations) with max_iterations = local_iterations + 1 >= 1",
           ("_iterative_solvers.BiCGSTAB_reset", "sig:for:range(_)"): "loop over range(nmax), nmax = local_iterations >= 1 in the property's domain",
           ("_iterative_solvers.BiCGSTAB_reset", "sig:=binop"): "loop over range(nmax), nmax = local_iterations >= 1 in the property's domain"}
    # progress output and the undocumented truncation option 'fro' are outside the property's quantifier: their guards are fixed
    obs += rules.rule_defassign(model, fs, exc, domain="quantifier")
    obs += rules.rule_unres(model, fs)
    from ..normguard import rule_qr_rank
    obs += rule_qr_rank(model, 'solvers._amen_solve_python')
    return obs, {"functions": ANCHORS}
