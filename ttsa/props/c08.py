"""C08 - indexing and pointwise evaluation agree with dense indexing (clause level: E5 on concrete small orders + sweep)."""
from __future__ import annotations

from .. import rules
from ..effects import Effects
from ..model import Model
from ..report import Ob, OK, VIOLATED
from ..e5 import obligations as e5ob

META = {
    "explanation": "x[index] is interpreted for concrete small orders (d = 1, 2, 3; operators d = 2) with symbolic mode/rank sizes and "
                   "symbolic integers/slices, over every structural path (which kept modes have size 1, rank orderings inside "
                   "reduce_dims); the closed value of the returned train (or the returned scalar) must equal the dense counterpart "
                   "x.full()[index]: integer-indexed modes selected and removed, sliced modes kept (also when of size 1), None "
                   "inserting unit modes, Ellipsis expanded at either end. apply_mask is typed as a sweep for every order. CTOR-ARG: "
                   "the order-1 slice branch passes a list of cores.",
    "assumptions": ["per-axis slice semantics (negative indices, steps) are torch's own and are trusted", "orders above 3 are not enumerated"],
    "floors": {"E5-CHAIN": 60},
}
ANCHORS = ["_tt_base.TT.__getitem__", "_tt_base.TT.reduce_dims", "_tt_base.TT.apply_mask", "_aux_ops.apply_mask"]


def check(model: Model, tier: str):
    obs = e5ob.for_property(model, "C08", tier)
    scope = [model.func(a) for a in ANCHORS]
    obs += rules.rule_unres(model, scope)
    obs += rules.rule_defassign(model, scope)
    from . import c05
    eng = Effects(model)
    obs += [o for o in c05.rule_ctor_arg(model, eng) if "__getitem__" in o.key]
    return obs, {"functions": ANCHORS}
