"""C11 - DMRG / AMEn products: claimed only for structural clauses (accuracy / convergence: not applicable)."""
from __future__ import annotations

import ast

from .. import rules
from ..effects import Effects
from ..model import Model, norm, call_args, own_returns
from ..report import Ob, OK, VIOLATED, ERROR, INFO

META = {
    "explanation": "Decides only: (K1) every order d >= 1 reaches a result in dmrg_matvec_python, dmrg_hadamard_python and _amen_mm_python - "
                   "reductions (max/min) over lists of symbolic length d-1 are dominated by a guard that excludes d = 1, and the returned "
                   "value is definitely assigned; (K2) the result is built through TT(...) from cores whose mode sizes are taken from the "
                   "operator's row modes (resp. the first factor's modes), and fast_matvec's kind/shape guards precede the call; (K3) the "
                   "initial guess is not written (effect analysis); (K4) the local right-hand side _local_AB and the interface recursions of the AMEn "
                   "matrix product are the specified projections of A_k B_k (E5 canonical networks, generic independent sizes) and every tensor "
                   "statement of its two sweeps types consistently over the independent rank families rx, rz, R_A, R_B, M, K, N (IFACE-TYPE). Does NOT decide the eps accuracy, convergence or seed independence.",
    "assumptions": ["convergence of randomised two-site sweeps and the unspecified 'small constant' are runtime quantities"],
    "floors": {"E4-EPSFLOW": 4, "SCALE-FREE": 2, "ENRICH-WIDTH": 1, "ZERO-NORM": 4, "EMPTY-REDUCE": 2, "DEFASSIGN": 30, "RESULT-SHAPE": 4, "E3-PARAM": 3, "IFACE-TYPE": 20, "E5-CHAIN": 5},
}
ANCHORS = ["_dmrg.dmrg_matvec_python", "_dmrg.dmrg_hadamard_python", "_amen._amen_mm_python", "_tt_base.TT.fast_matvec", "_dmrg.dmrg_matvec",
           "_dmrg.dmrg_hadamard", "_amen.amen_mv", "_amen.amen_mm"]


def rule_empty_reduce(model: Model, fshort: str):
    """max()/min() over a list built as [c]*(d-1) needs a dominating guard excluding d = 1 (domain: d >= 1)."""
    f = model.func(fshort)
    obs = []
    orders = rules.order_names(f.node)
    short_lists = {}
    for n in ast.walk(f.node):
        if isinstance(n, ast.Assign) and isinstance(n.targets[0], ast.Name) and isinstance(n.value, ast.BinOp) and isinstance(n.value.op, ast.Mult):
            for a, b in ((n.value.left, n.value.right), (n.value.right, n.value.left)):
                if isinstance(a, ast.List) and rules.is_order_minus_one(b, orders):
                    short_lists[n.targets[0].id] = n
    guard = None
    for i, s in enumerate(f.node.body):
        if isinstance(s, ast.If) and isinstance(s.test, ast.Compare) and len(s.test.ops) == 1 and rules.is_order(s.test.left, orders) \
                and isinstance(s.test.comparators[0], ast.Constant) and s.body and isinstance(s.body[-1], (ast.Return, ast.Raise)):
            op, c = s.test.ops[0], s.test.comparators[0].value
            if (isinstance(op, ast.Eq) and c == 1) or (isinstance(op, ast.Lt) and c == 2) or (isinstance(op, ast.LtE) and c == 1):
                guard = s
    for n in ast.walk(f.node):
        if isinstance(n, ast.Call) and isinstance(n.func, ast.Name) and n.func.id in ("max", "min") and len(n.args) == 1 \
                and isinstance(n.args[0], ast.Name) and n.args[0].id in short_lists:
            k = f"{fshort}:EMPTY-REDUCE:{n.func.id} over a list of length d-1:{sum(1 for o in obs)}"
            # dominance by position in the body (not by line number: an inlined helper keeps its own lines)
            gi = f.node.body.index(guard) if guard is not None else None
            ni = next((j for j, st in enumerate(f.node.body) if any(x is n for x in ast.walk(st))), None)
            if gi is not None and ni is not None and gi < ni:
                obs.append(Ob("EMPTY-REDUCE", k, OK, model.where(f, n), norm(n), f"dominated by `if {norm(guard.test)}: return ...`"))
            else:
                obs.append(Ob("EMPTY-REDUCE", k, VIOLATED, model.where(f, n), norm(n),
                              f"`{norm(n)}` reduces a list of length d-1; for an order-1 operand (d = 1, inside the documented domain) the list "
                              "is empty and max() raises ValueError, so no result is returned"))
    return obs


def rule_result_shape(model: Model):
    obs = []
    for fshort, msrc in (("_dmrg.dmrg_matvec_python", "A.M"), ("_dmrg.dmrg_hadamard_python", "z.N")):
        f = model.func(fshort)
        # the mode sizes of the result cores: the middle entries of the reshape targets that build them must come from `msrc`
        aliases = {n.targets[0].id for n in ast.walk(f.node) if isinstance(n, ast.Assign) and isinstance(n.targets[0], ast.Name) and norm(n.value) == msrc}
        other_modes = {n.targets[0].id for n in ast.walk(f.node) if isinstance(n, ast.Assign) and isinstance(n.targets[0], ast.Name)
                       and isinstance(n.value, ast.Attribute) and n.value.attr in ("N", "M", "R") and norm(n.value) != msrc}
        k = f"{fshort}:RESULT-SHAPE:M"
        mids = []
        for n in ast.walk(f.node):
            ra = call_args(n.value, "reshape") if isinstance(n, ast.Assign) and isinstance(n.value, ast.Call) else None
            if ra and isinstance(n.targets[0], ast.Subscript) and len(ra) == 2 and isinstance(ra[1], ast.List) and len(ra[1].elts) == 3:
                m = ra[1].elts[1]
                if isinstance(m, ast.Subscript) and isinstance(m.value, (ast.Name, ast.Attribute)):
                    mids.append(norm(m.value))
        ok = bool(mids) and all(x in aliases or x == msrc for x in mids)
        # a mode list read from another attribute of an operand (directly or through a local)
        wrong = sorted({x for x in mids if x in other_modes or (x != msrc and x not in aliases and "." in x and x.rsplit(".", 1)[-1] in ("N", "M", "R"))})
        obs.append(Ob("RESULT-SHAPE", k, OK if ok else (VIOLATED if wrong else ERROR), model.where(f), f"result modes from {msrc}",
                      "result mode sizes taken from the operator's row modes / first factor" if ok else
                      (f"the result cores are reshaped with mode sizes from {wrong}; they must be {msrc}" if wrong else
                       f"could not recognise where the result cores take their mode sizes from ({mids})")))
        rets = [n for n in own_returns(f.node) if n.value is not None]
        okr = all(isinstance(r.value, ast.Call) and (model.resolve(f.module, r.value.func) in ("torchtt._tt_base.TT",) or isinstance(r.value, ast.BinOp)) or isinstance(r.value, ast.BinOp)
                  for r in rets)
        obs.append(Ob("RESULT-SHAPE", f"{fshort}:RESULT-SHAPE:return", OK if okr else VIOLATED, model.where(f), "return torchtt.TT(y_cores)",
                      "result built through the validating constructor" if okr else "a result is returned that does not pass through TT(...)"))
    f = model.func("_tt_base.TT.fast_matvec")
    body = f.node.body
    call_i = [i for i, s in enumerate(body) if isinstance(s, ast.Return)]
    guards = [i for i, s in enumerate(body) if isinstance(s, ast.If) and any(isinstance(x, ast.Raise) for x in s.body)]
    ok = bool(call_i) and len(guards) >= 2 and max(guards) < call_i[-1]
    obs.append(Ob("RESULT-SHAPE", "_tt_base.TT.fast_matvec:RESULT-SHAPE:guards-first", OK if ok else VIOLATED, model.where(f), "guards precede dmrg_matvec(...)",
                  "type/kind/shape guards precede the call" if ok else "fast_matvec calls the DMRG routine before validating its operands"))
    return obs


def rule_result_kind(model: Model):
    """_amen_mm_python serves amen_mm (4-axis cores, to_ttm=True) and amen_mv (3-axis cores, to_ttm=False): every value it returns must be
    control- or data-dependent on the flag."""
    f = model.func("_amen._amen_mm_python")
    obs = []
    # the kind flag: the parameter that amen_mm passes as True and amen_mv as False (whatever it is called)
    flag = None
    vals = {}
    for caller in ("_amen.amen_mm", "_amen.amen_mv"):
        cf = model.func(caller)
        for c in ast.walk(cf.node):
            if isinstance(c, ast.Call) and norm(c.func).endswith("_amen_mm_python"):
                for i, a in enumerate(c.args):
                    if isinstance(a, ast.Constant) and isinstance(a.value, bool):
                        vals.setdefault(i, set()).add(a.value)
                for kw in c.keywords:
                    if kw.arg in f.params() and isinstance(kw.value, ast.Constant) and isinstance(kw.value.value, bool):
                        vals.setdefault(f.params().index(kw.arg), set()).add(kw.value.value)
    for i, v in vals.items():
        if v == {True, False} and i < len(f.params()):
            flag = f.params()[i]
    if flag is None:
        return [Ob("RESULT-SHAPE", "_amen._amen_mm_python:RESULT-KIND:flag", ERROR, model.where(f), "kind flag", "the parameter that tells amen_mm from amen_mv was not found")]

    def mentions(e):
        return any(isinstance(x, ast.Name) and x.id == flag for x in ast.walk(e))
    parents = {}
    for n in ast.walk(f.node):
        for c in ast.iter_child_nodes(n):
            parents[id(c)] = n

    def under_flag(n):
        """inside an `if <flag>` branch, or after an `if <flag>: ... return/raise` that ends the other case (early-return form)"""
        cur = n
        while id(cur) in parents:
            par = parents[id(cur)]
            if isinstance(par, ast.If) and mentions(par.test):
                return True
            for fld in ("body", "orelse"):
                blk = getattr(par, fld, None)
                if isinstance(blk, list) and cur in blk:
                    for prev in blk[:blk.index(cur)]:
                        if isinstance(prev, ast.If) and mentions(prev.test) and prev.body and isinstance(prev.body[-1], (ast.Return, ast.Raise)):
                            return True
            cur = par
        return False
    rets = [n for n in own_returns(f.node) if n.value is not None]
    for i, r in enumerate(rets):
        ok = under_flag(r) or mentions(r.value)
        if not ok and isinstance(r.value, ast.Name):
            defs = [a for a in ast.walk(f.node) if isinstance(a, ast.Assign) and any(isinstance(t, ast.Name) and t.id == r.value.id for t in a.targets)]
            ok = bool(defs) and all(under_flag(a) or mentions(a.value) for a in defs)
        if not ok:
            # backward slice in the block of the return: the last binding of a name the value reads is conditional on the flag
            par = parents.get(id(r))
            blk = next((getattr(par, fld) for fld in ("body", "orelse", "finalbody") if isinstance(getattr(par, fld, None), list) and r in getattr(par, fld)), None)
            if blk is not None:
                ok = _slice_depends(blk, blk.index(r), {x.id for x in ast.walk(r.value) if isinstance(x, ast.Name)}, mentions, 4)
        obs.append(Ob("RESULT-SHAPE", f"_amen._amen_mm_python:RESULT-KIND:return{i}", OK if ok else VIOLATED, model.where(f, r), norm(r)[:80],
                      "returned value depends on the kind flag (3-axis cores for amen_mv, 4-axis cores for amen_mm)" if ok else
                      "this return does not depend on the kind flag: amen_mv (to_ttm=False) would receive the 4-axis cores of an operator - a TT matrix of shape "
                      "[(M_k, 1)] instead of a TT tensor of shape M"))
    return obs


def _slice_depends(block, idx, names, mentions, depth):
    """does a name of `names`, read at block[idx], get its last binding in this block under a test on the flag (or from an
    expression that reads the flag, directly or through at most `depth` plain local bindings)?"""
    names = set(names)
    for j in range(idx - 1, -1, -1):
        s = block[j]
        stored = {x.id for x in ast.walk(s) if isinstance(x, ast.Name) and isinstance(x.ctx, ast.Store)} & names
        if not stored:
            continue
        if isinstance(s, ast.If):
            if mentions(s.test):
                return True
            return False        # conditional on something else: not decided here
        if isinstance(s, ast.Assign):
            if mentions(s.value):
                return True
            if depth <= 0:
                return False
            names = (names - stored) | {x.id for x in ast.walk(s.value) if isinstance(x, ast.Name) and isinstance(x.ctx, ast.Load)}
            depth -= 1
            continue
        return False
    return False


def check(model: Model, tier: str):
    obs = []
    model.use_inlined("_dmrg.dmrg_matvec_python", "_dmrg.dmrg_hadamard_python")   # a shared private driver is read in place
    for fs in ("_dmrg.dmrg_matvec_python", "_dmrg.dmrg_hadamard_python", "_amen._amen_mm_python"):
        obs += rule_empty_reduce(model, fs)
    exc = {}
    # progress output and the undocumented truncation option 'fro' are outside the property's quantifier: their guards are fixed
    obs += rules.rule_defassign(model, [model.func(a) for a in ANCHORS], exc, domain="quantifier")
    obs += rule_result_shape(model)
    obs += rule_result_kind(model)
    from ..normguard import rule_residual_gauge
    obs += rule_residual_gauge(model, "_amen._amen_mm_python")
    # the caller's tolerance reaches the routine that truncates (added after seed S5-C11-2: a keyword rewrite of the call dropped `eps`)
    from .c01 import eps_flow
    for caller, callee in (("_amen.amen_mm", "torchtt._amen._amen_mm_python"), ("_amen.amen_mv", "torchtt._amen._amen_mm_python"),
                           ("_tt_base.TT.fast_matvec", "torchtt._dmrg.dmrg_matvec"), ("_dmrg.dmrg_matvec", "torchtt._dmrg.dmrg_matvec_python"),
                           ("_dmrg.dmrg_hadamard", "torchtt._dmrg.dmrg_hadamard_python")):
        if model.has_func(caller):
            obs += eps_flow(model, caller, callee, rule="E4-EPSFLOW")
    eng = Effects(model)
    for fn, p in (("_tt_base.TT.fast_matvec", "initial"), ("_dmrg.dmrg_hadamard", "z0"), ("_amen.amen_mm", "X0"), ("_amen.amen_mv", "x0")):
        fo = model.func(fn)
        effs = [e for e in eng.summary(fo).effects if e.param == p]
        obs.append(Ob("E3-PARAM", f"{fn}:E3-PARAM:{p}", VIOLATED if effs else OK, effs[0].where if effs else model.where(fo), p,
                      f"the initial guess `{p}` is written: {effs[0].construct} in {effs[0].func}" if effs else "initial guess not written"))
    obs += rules.rule_unres(model, [model.func(a) for a in ANCHORS if "python" not in a])
    from ..e5 import obligations as e5ob
    obs += e5ob.for_property(model, "C11", tier)
    from ..e5.slicetype import type_body
    obs += type_body(model, "_amen._amen_mm_python")
    from ..normguard import rule_zero_norm, rule_arnoldi_seed
    obs += rule_zero_norm(model, "_amen._amen_mm_python")
    from ..normguard import rule_enrich_width
    obs += rule_enrich_width(model, "_amen._amen_mm_python")
    from ..normguard import rule_scale_free
    from ..normguard import rule_homogeneous
    obs += rule_homogeneous(model, "_amen._amen_mm_python")
    obs += rule_homogeneous(model, "_dmrg.dmrg_matvec_python")
    obs += rule_homogeneous(model, "_dmrg.dmrg_hadamard_python")
    obs += rule_scale_free(model, "_amen._amen_mm_python")
    obs += rule_scale_free(model, "_dmrg.dmrg_matvec_python")
    obs += rule_scale_free(model, "_dmrg.dmrg_hadamard_python")
    from ..normguard import rule_qr_rank
    obs += rule_qr_rank(model, '_dmrg.dmrg_matvec_python')
    obs += rule_qr_rank(model, '_dmrg.dmrg_hadamard_python')
    obs += rule_qr_rank(model, '_amen._amen_mm_python')
    return obs, {"functions": ANCHORS}
