"""C09 - cat, pad, diag, mprod, to_ttm, conj, clone are exact (E5)."""
from __future__ import annotations

from .. import rules
from ..effects import Effects
from ..model import Model
from ..e5 import obligations as e5ob

META = {
    "explanation": "Contraction-structure type checking (E5) of the structural conversions: per position class the core produced by "
                   "cat (block placement with running offsets), pad (zero blocks / bond augmentation), diag (delta-tied modes in "
                   "both directions), mprod, to_ttm, conj and clone is compared with the specified network or block partition.",
    "assumptions": ["exact arithmetic"],
    "floors": {"E5-CHAIN": 32},
}
ANCHORS = ["_extras.cat", "_extras.pad", "_extras.diag", "_tt_base.TT.mprod", "_tt_base.TT.to_ttm", "_tt_base.TT.conj", "_tt_base.TT.clone"]


def check(model: Model, tier: str):
    obs = e5ob.for_property(model, "C09", tier)
    scope = [model.func(a) for a in ANCHORS]
    obs += rules.rule_unres(model, scope)
    obs += rules.rule_defassign(model, scope)
    return obs, {"functions": ANCHORS}
