"""C01 - TT-SVD accuracy and rank bounds: claimed at clause level (premises of the TT-SVD error theorem)."""
from __future__ import annotations

import ast
from fractions import Fraction

from .. import allowance as al
from ..model import Model, Func, norm
from ..report import Ob, OK, VIOLATED, ERROR, INFO
from . import common

META = {
    "explanation": "Decides the structural premises of Oseledets' TT-SVD bound, not the floating-point inequality: (1) the "
                   "per-bond threshold at to_tt's rank_chop site normalises to eps * ||s|| * (d-1)^(-1/2) with the "
                   "constructor's eps traced through TT.__init__ -> to_tt / mat_to_tt -> to_tt; (2) rank_chop's decision "
                   "table over the ordering of (discarded energy, threshold) is total and selects the minimal rank; (3) "
                   "the rank used for all three truncating slices and stored in the rank list is min(rank_chop, rmax[...]); "
                   "(4) the SVD wrapper returns factors of its argument in both orientation branches; (5) core/remainder "
                   "shapes are typed by the contraction checker (E5 obligations).",
    "assumptions": ["accuracy of torch.linalg.svd / numpy.linalg.svd", "floating-point roundoff is outside the claim"],
    "floors": {"E5-CHAIN": 20, "NARROW": 8, "E4-ALLOWANCE": 1, "E4-EPSFLOW": 3, "CMP-TOTAL": 1, "RANK-CAP": 3, "SVD-WRAP": 2},
}
ANCHORS = ["_decomposition.to_tt", "_decomposition.mat_to_tt", "_decomposition.rank_chop", "_decomposition.SVD",
           "_tt_base.TT.__init__"]

RANK_CHOP = "torchtt._decomposition.rank_chop"
# the number of truncations: an order (a length) or an order minus one - whatever the local is called
ORDER = r"len\([A-Za-z_][\w.]*\)"      # the length of a named list (not of a filtered comprehension)
SHARE = {"re:\\(" + ORDER + " - 1\\)": Fraction(-1, 2), "re:" + ORDER: Fraction(-1, 2)}


def _canon_arg(nz, e):
    """the tensor an expression denotes, through single-assignment locals and value-preserving wrappers (.cpu().numpy())"""
    cur = nz.strip(e)
    for _ in range(4):
        if isinstance(cur, ast.Name) and cur.id in nz.single_def and cur.id not in nz.f.params():
            cur = nz.strip(nz.single_def[cur.id])
        else:
            break
    return norm(cur)


def allowance_sites(model: Model, fshort: str, share, eps_param="eps", rule="E4-ALLOWANCE"):
    f = model.func(fshort)
    nz = al.Normaliser(model, f, (eps_param,))
    obs = []
    for call in al.find_calls(model, f, RANK_CHOP):
        k = f"{fshort}:{rule}:rank_chop({norm(call.args[0])[:30] if call.args else ''})"
        if len(call.args) < 2:
            obs.append(Ob(rule, k, ERROR, model.where(f, call), norm(call)[:100], "rank_chop call without threshold argument"))
            continue
        spec = _canon_arg(nz, call.args[0])
        env = nz.env_at(call)
        ms = nz.monos(call.args[1], env)
        if ms is None:
            obs.append(Ob(rule, k, ERROR, model.where(f, call), norm(call.args[1])[:100],
                          "threshold expression is not a product/quotient/power form the normaliser models"))
            continue
        bad = None
        opaque = None
        import re as _re
        known_re = [_re.compile(ORDER), _re.compile(r"\(" + ORDER + r" - 1\)")] + [_re.compile(a[3:]) for a in share if a.startswith("re:")]
        known = {"EPS:" + eps_param} | {a for a in share if not a.startswith("re:")}
        for m in ms:
            unk = [a for a in m.exps if a not in known and not a.startswith("NORM(") and not any(r.fullmatch(a) for r in known_re)]
            if unk:
                opaque = (m, unk)
                continue
            ok, why = al.check_relative_allowance(m, "EPS:" + eps_param, spec, share)
            if not ok:
                bad = (m, why)
                break
        def _counts_filtered(a):
            if _re.search(r"\b(sum|len)\(\[?.* for .* in .* if ", a) or "COUNT-IF(" in a:
                return True
            # a local of the expression that is defined as a filtered count
            return any(nz._filtered_count(nz.single_def[w]) is not None for w in _re.findall(r"[A-Za-z_]\w*", a) if w in nz.single_def)
        if opaque and not bad and any(_counts_filtered(a) for a in opaque[1]) \
                and not any(v <= Fraction(-1, 2) and any(r.fullmatch(a) for r in known_re) for a, v in opaque[0].exps.items()):
            # the share is a *filtered* count of modes: at most, and in general less than, the number of bonds - but every bond is truncated
            obs.append(Ob(rule, k, VIOLATED, model.where(f, call), norm(call.args[1])[:120],
                          f"threshold normalises to [{opaque[0].show()}]: the allowance is divided by a filtered count of the modes ({opaque[1]}), which is "
                          "smaller than the number of bonds whenever a mode fails the filter, while every bond of the train is still truncated - the "
                          "squared bond errors can add up to more than (eps*||A||)^2"))
        elif opaque and not bad:
            obs.append(Ob(rule, k, ERROR, model.where(f, call), norm(call.args[1])[:120],
                          f"threshold normalises to [{opaque[0].show()}], which contains quantities the allowance analysis does not model "
                          f"({opaque[1]}): neither confirmed nor refuted"))
            continue
        if bad:
            obs.append(Ob(rule, k, VIOLATED, model.where(f, call), norm(call.args[1])[:120],
                          f"truncation threshold normalises to [{bad[0].show()}]: {bad[1]}. The per-bond allowance must be "
                          f"at most eps*||s||/sqrt(#truncations) for the sum of squared bond errors to stay below "
                          f"(eps*||A||)^2; inputs truncating at the edge of every bond exceed eps otherwise"))
        else:
            obs.append(Ob(rule, k, OK, model.where(f, call), norm(call.args[1])[:120],
                          "normal form(s): " + " | ".join(m.show() for m in ms)))
    return obs


def eps_flow(model: Model, caller_short: str, callee_q: str, eps_param="eps", pos=None, rule="E4-EPSFLOW"):
    """The eps handed to the callee is the caller's eps (coef <= 1, no enlarging factor)."""
    f = model.func(caller_short)
    callee = model.functions.get(callee_q)
    obs = []
    if callee is None:
        return [Ob(rule, f"{caller_short}:{rule}:{callee_q}", ERROR, "", callee_q, "callee vanished")]
    cparams = callee.params()
    idx = cparams.index("eps") if "eps" in cparams else None
    nz = al.Normaliser(model, f, (eps_param,))
    for call in al.find_calls(model, f, callee_q):
        arg = None
        for kw in call.keywords:
            if kw.arg == "eps":
                arg = kw.value
        starred = any(isinstance(a, ast.Starred) for a in call.args)
        if arg is None and idx is not None and idx < len(call.args) and not starred:
            arg = call.args[idx]
        if arg is None and starred:
            # f(a, *pair, eps, ...): positions after an unpacked sequence are not known - the argument that carries the caller's tolerance
            cands = [a for a in call.args if not isinstance(a, ast.Starred) and any(isinstance(x, ast.Name) and x.id == eps_param for x in ast.walk(a))]
            if len(cands) == 1:
                arg = cands[0]
            else:
                obs.append(Ob(rule, f"{caller_short}:{rule}:{callee_q.rsplit('.', 1)[-1]}({norm(call)[:40]})", ERROR, model.where(f, call), norm(call)[:100],
                              "the call unpacks a sequence into positional arguments: which argument is the tolerance is not decided"))
                continue
        if arg is None and idx is None:
            # the callee's parameter is not called `eps` (renamed): the argument that carries the caller's tolerance
            cands = [a for a in list(call.args) + [kw.value for kw in call.keywords]
                     if any(isinstance(x, ast.Name) and x.id == eps_param for x in ast.walk(a))]
            if len(cands) == 1:
                arg = cands[0]
            else:
                # ... or a record built from it (`options = SimpleNamespace(eps=eps, ...)`; `_Options(eps=eps, ...)`) that is handed over
                for a in list(call.args) + [kw.value for kw in call.keywords]:
                    if isinstance(a, ast.Name):
                        defs = [d.value for d in ast.walk(f.node) if isinstance(d, ast.Assign) and len(d.targets) == 1 and isinstance(d.targets[0], ast.Name)
                                and d.targets[0].id == a.id and isinstance(d.value, ast.Call)]
                        for dv in defs:
                            inner = [x for x in list(dv.args) + [kw.value for kw in dv.keywords]
                                     if any(isinstance(y, ast.Name) and y.id == eps_param for y in ast.walk(x))]
                            if len(inner) == 1:
                                arg = inner[0]
        if arg is None and idx is None:
            obs.append(Ob(rule, k, ERROR, model.where(f, call), norm(call)[:100],
                          f"{callee_q.rsplit('.', 1)[-1]} no longer has a parameter called `eps` and no argument of this call carries the caller's tolerance "
                          "in a form this rule follows: not decided"))
            continue
        k = f"{caller_short}:{rule}:{callee_q.rsplit('.', 1)[-1]}({norm(call)[:40]})"
        if arg is None:
            obs.append(Ob(rule, k, VIOLATED, model.where(f, call), norm(call)[:100],
                          f"call does not pass the tolerance: {callee_q.rsplit('.', 1)[-1]} runs with its default eps "
                          "instead of the caller's"))
            continue
        ms = nz.monos(arg, nz.env_at(call))
        if ms is None:
            obs.append(Ob(rule, k, ERROR, model.where(f, call), norm(arg), "eps argument not in a modelled form"))
            continue
        bad = None
        for m in ms:
            e = dict(m.exps)
            if m.coef > 1:
                bad = f"factor {m.coef} > 1"
            elif e.pop("EPS:" + eps_param, 0) != 1:
                bad = f"the caller's `{eps_param}` does not enter linearly ({m.show()})"
            elif any(v > 0 for v in e.values()):
                bad = f"enlarging factor in {m.show()}"
        if bad:
            obs.append(Ob(rule, k, VIOLATED, model.where(f, call), norm(arg),
                          f"tolerance passed to {callee_q.rsplit('.', 1)[-1]} is not the caller's eps: {bad}"))
        else:
            obs.append(Ob(rule, k, OK, model.where(f, call), norm(arg), " | ".join(m.show() for m in ms)))
    return obs


def _order(fn):
    """id(node) -> position in a depth-first walk of the function (execution order of straight-line code; independent of line numbers, which an
    inlined helper keeps from its own definition)"""
    out = {}

    def go(n):
        out[id(n)] = len(out)
        for c in ast.iter_child_nodes(n):
            go(c)
    go(fn)
    return out


def rank_cap(model: Model, fshort: str, rmax_names=("rmax", "Rmax")):
    """RANK-CAP: the rank bound used by the truncating slices and stored into the rank list is min(rank_chop, rmax[..])."""
    f = model.func(fshort)
    obs = []
    capped = None      # name holding min(rank_chop result, rmax element)
    chop_names = set()
    cap_node = None
    for n in ast.walk(f.node):
        if isinstance(n, ast.Assign) and len(n.targets) == 1 and isinstance(n.targets[0], ast.Name):
            v = n.value
            has_chop = any(isinstance(x, ast.Call) and model.resolve(f.module, x.func) == RANK_CHOP for x in ast.walk(v))
            if has_chop and not (isinstance(v, ast.Call) and isinstance(v.func, ast.Name) and v.func.id == "min"):
                chop_names.add(n.targets[0].id)
    for n in ast.walk(f.node):
        if isinstance(n, ast.Assign) and len(n.targets) == 1 and isinstance(n.targets[0], ast.Name):
            v = n.value
            if isinstance(v, ast.Call) and isinstance(v.func, ast.Name) and v.func.id == "min":
                elems = list(v.args[0].elts) if (len(v.args) == 1 and isinstance(v.args[0], (ast.List, ast.Tuple))) else list(v.args)
                has_chop = any(any(isinstance(x, ast.Call) and model.resolve(f.module, x.func) == RANK_CHOP for x in ast.walk(e))
                               or (isinstance(e, ast.Name) and e.id in chop_names) for e in elems)
                has_rmax = any(isinstance(e, ast.Subscript) and isinstance(e.value, ast.Name) and e.value.id in rmax_names
                               for e in elems)
                if has_chop and has_rmax:
                    capped = n.targets[0].id
                    cap_node = n
    k0 = f"{fshort}:RANK-CAP:min"
    if capped is None:
        obs.append(Ob("RANK-CAP", k0, VIOLATED, model.where(f), "min([rank_chop(...), rmax[...]])",
                      f"{fshort} has no assignment r = min(rank_chop(...), rmax[...]): the rank chosen by the tolerance is not "
                      "capped by the caller's rmax"))
        return obs
    obs.append(Ob("RANK-CAP", k0, OK, model.where(f, cap_node), norm(cap_node)[:100], f"cap held in `{capped}`"))
    # the cap must not be overwritten by an uncapped value afterwards, and truncating slices use it
    def _capped_value(v):
        if not (isinstance(v, ast.Call) and isinstance(v.func, ast.Name) and v.func.id == "min"):
            return False
        elems = list(v.args[0].elts) if (len(v.args) == 1 and isinstance(v.args[0], (ast.List, ast.Tuple))) else list(v.args)
        return any(isinstance(e, ast.Subscript) and isinstance(e.value, ast.Name) and e.value.id in rmax_names for e in elems)
    # another assignment of the same name from a rank_chop result that is not itself capped (the CPU / CUDA twins are both capped)
    later_chop = [n for n in ast.walk(f.node) if isinstance(n, ast.Assign) and len(n.targets) == 1
                  and isinstance(n.targets[0], ast.Name) and n.targets[0].id == capped and n is not cap_node
                  and not _capped_value(n.value) and _order(f.node)[id(n)] > _order(f.node)[id(cap_node)]
                  and any(isinstance(x, ast.Call) and model.resolve(f.module, x.func) == RANK_CHOP for x in ast.walk(n.value))]
    if later_chop:
        obs.append(Ob("RANK-CAP", f"{fshort}:RANK-CAP:overwritten", VIOLATED, model.where(f, later_chop[0]), norm(later_chop[0])[:100],
                      f"`{capped}` is reassigned from an uncapped rank_chop result after the cap"))
    # truncating slices `X[:, :r]`, `X[:r]`, `X[:r, :]` of the SVD factors
    svd_names = set()
    for n in ast.walk(f.node):
        if isinstance(n, ast.Assign) and isinstance(n.targets[0], ast.Tuple) and isinstance(n.value, ast.Call) \
                and (model.resolve(f.module, n.value.func) or "").endswith("SVD"):
            svd_names |= {e.id for e in n.targets[0].elts if isinstance(e, ast.Name)}
    slices = []
    for n in ast.walk(f.node):
        if isinstance(n, ast.Subscript) and isinstance(n.value, ast.Name) and n.value.id in svd_names and isinstance(n.ctx, ast.Load):
            for sl in (n.slice.elts if isinstance(n.slice, ast.Tuple) else [n.slice]):
                if isinstance(sl, ast.Slice) and sl.lower is None and sl.upper is not None:
                    slices.append((n, sl.upper))
    for n, up in slices:
        k = f"{fshort}:RANK-CAP:slice:{norm(n)}"
        if isinstance(up, ast.Name) and up.id == capped:
            obs.append(Ob("RANK-CAP", k, OK, model.where(f, n), norm(n), f"truncated at the capped rank `{capped}`"))
        else:
            obs.append(Ob("RANK-CAP", k, VIOLATED, model.where(f, n), norm(n),
                          f"SVD factor is truncated at `{norm(up)}`, not at the capped rank `{capped}`: the factors of one bond "
                          "are cut at different ranks or the rmax cap is bypassed"))
    if len(slices) < 3:
        obs.append(Ob("RANK-CAP", f"{fshort}:RANK-CAP:slices", VIOLATED, model.where(f), "u[:, :r], s[:r], v[:r, :]",
                      f"only {len(slices)} of the three SVD factors are truncated at the chosen rank"))
    # stored rank
    stores = [n for n in ast.walk(f.node) if isinstance(n, ast.Assign) and isinstance(n.targets[0], ast.Subscript)
              and isinstance(n.targets[0].value, ast.Name) and n.targets[0].value.id in ("r", "R")]
    for n in stores:
        k = f"{fshort}:RANK-CAP:store:{norm(n.targets[0])}"
        if isinstance(n.value, ast.Name) and n.value.id == capped:
            obs.append(Ob("RANK-CAP", k, OK, model.where(f, n), norm(n), "rank list records the capped rank"))
        elif fshort.endswith("to_tt") or fshort.endswith("round_tt"):
            obs.append(Ob("RANK-CAP", k, VIOLATED, model.where(f, n), norm(n),
                          f"the rank list entry is set from `{norm(n.value)}`, not from the capped rank `{capped}`"))
    return obs


def svd_wrapper(model: Model):
    """SVD-WRAP: in each branch the returned triple (A, B, C) satisfies mat = A diag(B) C, given u, s, v = svd(X)
    with X = mat or mat.t()."""
    f = model.func("_decomposition.SVD")
    obs = []
    par = f.params()[0]

    def orient(e):
        """(+1, name) for X, (-1, name) for X transposed; strips tensor(...)/to(...) wrappers"""
        sign = 1
        while True:
            if isinstance(e, ast.Call) and isinstance(e.func, ast.Attribute) and e.func.attr in ("t", "numpy", "cpu", "to", "conj_physical") and \
                    (e.func.attr != "t" or not e.args):
                if e.func.attr == "t":
                    sign = -sign
                e = e.func.value
            elif isinstance(e, ast.Attribute) and e.attr in ("T", "mT"):
                sign = -sign
                e = e.value
            elif isinstance(e, ast.Call) and model.resolve(f.module, e.func) in ("torch.tensor", "torch.as_tensor", "torch.t", "torch.from_numpy") and e.args:
                if model.resolve(f.module, e.func) == "torch.t":
                    sign = -sign
                e = e.args[0]
            else:
                break
        return (sign, e.id) if isinstance(e, ast.Name) else (sign, None)

    # walk statement lists, tracking the most recent svd assignment in the same block
    def walk(stmts):
        cur = None
        for s in stmts:
            if isinstance(s, ast.Assign) and isinstance(s.targets[0], ast.Tuple) and isinstance(s.value, ast.Call) \
                    and (model.resolve(f.module, s.value.func) or "").endswith("linalg.svd") and s.value.args:
                names = [e.id if isinstance(e, ast.Name) else None for e in s.targets[0].elts]
                sg, nm = orient(s.value.args[0])
                cur = (names, sg if nm == par else None, s)
            elif isinstance(s, ast.Return) and cur is not None and isinstance(s.value, ast.Tuple) and len(s.value.elts) == 3:
                names, sg, svd_stmt = cur
                k = f"_decomposition.SVD:SVD-WRAP:{norm(svd_stmt.value)[:50]}"
                if sg is None or None in names or len(names) != 3:
                    obs.append(Ob("SVD-WRAP", k, ERROR, model.where(f, s), norm(s), "svd argument is not mat / mat.t()"))
                    continue
                u, sv, v = names
                got = [orient(e) for e in s.value.elts]
                want = [(1, u), (1, sv), (1, v)] if sg == 1 else [(-1, v), (1, sv), (-1, u)]
                if got == want:
                    obs.append(Ob("SVD-WRAP", k, OK, model.where(f, s), norm(s)[:100], "returned triple factors the argument"))
                else:
                    obs.append(Ob("SVD-WRAP", k, VIOLATED, model.where(f, s), norm(s)[:140],
                                  f"svd of {'mat' if sg == 1 else 'mat.t()'} gives {u}, {sv}, {v}; mat = "
                                  f"{'u s v' if sg == 1 else 'v^T s u^T'} requires returning "
                                  f"{[('' if a == 1 else 'T:') + b for a, b in want]}, the code returns "
                                  f"{[('' if a == 1 else 'T:') + str(b) for a, b in got]}: the tall-matrix branch hands back "
                                  "factors of a different matrix"))
            elif isinstance(s, ast.If):
                walk(s.body)
                walk(s.orelse)
            elif isinstance(s, ast.Try):
                walk(s.body)
                for h in s.handlers:
                    walk(h.body)
    walk(f.node.body)
    return obs


def cmp_total_ob(model: Model):
    f = model.func("_decomposition.rank_chop")
    st, detail, facts = al.cmp_total(model, f)
    k = "_decomposition.rank_chop:CMP-TOTAL:decision-table"
    status = {"ok": OK, "violated": VIOLATED, "unmodelled": ERROR}[st]
    obs = [Ob("CMP-TOTAL", k, status, model.where(f), "rank_chop decision table", detail)]
    # early returns: only for zero norm (-> 1) and eps <= 0 (-> s.size)
    early = [n for n in f.node.body if isinstance(n, ast.If) and any(isinstance(x, ast.Return) for x in n.body)]
    for n in early:
        t = norm(n.test)
        ret = norm([x for x in n.body if isinstance(x, ast.Return)][0])
        ek = f"_decomposition.rank_chop:CMP-TOTAL:early:{t}"
        ok = ("norm" in t and "== 0" in t and ret == "return 1") or ("<= 0" in t and ".size" in ret)
        obs.append(Ob("CMP-TOTAL", ek, OK if ok else ERROR, model.where(f, n), f"if {t}: {ret}",
                      "admissible early return" if ok else
                      "early return outside the two recognised cases (zero spectrum -> rank 1, eps <= 0 -> keep all): the decision it takes is not modelled"))
    # The decision is DECIDED by evaluating the function over the finite domain of orderings of the tail energies against the threshold
    # (ttsa/orderdom.py); the recognised-form reading above is the cross-reference
    from .. import orderdom
    sem = []
    for inst, st, why in orderdom.decide(model, f):
        sem.append(Ob("CMP-TOTAL", f"_decomposition.rank_chop:CMP-TOTAL:eval:{inst.name()}", {"ok": OK, "violated": VIOLATED, "leave": ERROR}[st], model.where(f),
                      f"rank_chop on {inst.name()}", why if st != "leave" else f"the evaluation leaves the ordering domain: {why}"))
    if any(o.status == ERROR for o in sem):
        # not evaluable: the structural reading stands, the evaluation is reported as information only
        for o in sem:
            if o.status == ERROR:
                o.status = INFO
        if not any(o.status in (VIOLATED, ERROR) for o in obs):
            return obs + sem
        return obs + [o for o in sem if o.status != VIOLATED] + [o for o in sem if o.status == VIOLATED]
    common.cross_reference(obs, sem, "rank_chop is evaluated on every ordering of the tail energies for n <= 4")
    return obs + sem


def check(model: Model, tier: str):
    model.use_inlined("_decomposition.to_tt", "_decomposition.mat_to_tt", "_decomposition.round_tt", "_tt_base.TT.__init__")   # helpers around the rank selection / the decomposing constructor branches are read in place
    obs = []
    obs += allowance_sites(model, "_decomposition.to_tt", SHARE)
    # eps flows from the constructor to to_tt / mat_to_tt and from mat_to_tt to to_tt
    obs += eps_flow(model, "_tt_base.TT.__init__", "torchtt._decomposition.to_tt")
    obs += eps_flow(model, "_tt_base.TT.__init__", "torchtt._decomposition.mat_to_tt")
    obs += eps_flow(model, "_decomposition.mat_to_tt", "torchtt._decomposition.to_tt")
    obs += cmp_total_ob(model)
    from ..e5 import obligations as e5ob
    from .common import cross_reference
    sem = e5ob.for_property(model, "C01", tier)
    # shape, chaining, kept factors and the per-bond cap of to_tt are decided by evaluating it as a whole at orders 2-4 (e5/scenarios7.py)
    obs += cross_reference(rank_cap(model, "_decomposition.to_tt"), [o for o in sem if ":to_tt:d" in o.key], "E5 scenarios to_tt:d2-d4")
    obs += svd_wrapper(model)
    # rmax flows too: every to_tt / mat_to_tt call of the constructor passes rmax
    f = model.func("_tt_base.TT.__init__")
    for q in ("torchtt._decomposition.to_tt", "torchtt._decomposition.mat_to_tt"):
        for call in al.find_calls(model, f, q):
            passes = any(isinstance(a, ast.Name) and a.id == "rmax" for a in call.args) or \
                any(kw.arg == "rmax" and isinstance(kw.value, ast.Name) and kw.value.id == "rmax" for kw in call.keywords)
            k = f"_tt_base.TT.__init__:RANK-CAP:rmax-passed:{norm(call)[:50]}"
            obs.append(Ob("RANK-CAP", k, OK if passes else VIOLATED, model.where(f, call), norm(call)[:100],
                          "rmax forwarded" if passes else "the constructor's rmax is not forwarded to the decomposition"))
    mt = model.func("_decomposition.mat_to_tt")
    for call in al.find_calls(model, mt, "torchtt._decomposition.to_tt"):
        passes = any(kw.arg == "rmax" and isinstance(kw.value, ast.Name) and kw.value.id == "rmax" for kw in call.keywords) or \
            any(isinstance(a, ast.Name) and a.id == "rmax" for a in call.args)
        obs.append(Ob("RANK-CAP", "_decomposition.mat_to_tt:RANK-CAP:rmax-passed", OK if passes else VIOLATED,
                      model.where(mt, call), norm(call)[:100], "rmax forwarded" if passes else "rmax not forwarded to to_tt"))
    obs += sem
    # complex sources are decomposed as complex: no narrowing conversion on the data path
    from ..dtypekind import rule_narrow, self_fixture
    obs += rule_narrow(model, [model.func(a) for a in ("_tt_base.TT.__init__", "_decomposition.to_tt", "_decomposition.mat_to_tt", "_decomposition.SVD",
                                                       "_decomposition.QR", "_decomposition.lr_orthogonal", "_decomposition.rl_orthogonal")])
    fx = dict(self_fixture())
    okfx = any(o.status == VIOLATED for o in fx.get("f", [])) and all(o.status == OK for o in fx.get("g", []))
    obs.append(Ob("NARROW", "fixture:NARROW:positive-example", OK if okfx else ERROR, "ttsa/dtypekind.py", "self_fixture",
                  "the built-in positive example is flagged and its guarded twin is not" if okfx else "the NARROW rule no longer recognises its positive example"))
    from ..adjoint import rule_adjoint
    obs += rule_adjoint(model, [model.func(a) for a in ["_decomposition.to_tt", "_decomposition.mat_to_tt"]])
    return obs, {"functions": ANCHORS}
