"""C04 - TT-matrix algebra equals dense linear-operator algebra (E5)."""
from __future__ import annotations

from .. import rules
from ..model import Model
from ..e5 import obligations as e5ob

META = {
    "explanation": "Contraction-structure type checking (E5) of A@x, x@A, A@B, A@dense (sweep invariant for any batch rank), "
                   "transpose, and the TT-matrix branches of +, -, * and scalar operations: per position class the produced core must "
                   "be the specified network (row/column modes are distinct roles, so a transposed letter pair is a type error even "
                   "on square operators), with one consistent merge order of the rank pairs on both sides of every bond.",
    "assumptions": ["exact arithmetic", "torch.einsum / tensordot / reshape semantics as modelled in ttsa/e5/net.py"],
    "floors": {"E5-CHAIN": 150, "UNRES": 30},
}
ANCHORS = ["_tt_base.TT.__matmul__", "_aux_ops.dense_matvec", "_tt_base.TT.t", "_tt_base.TT.__add__", "_tt_base.TT.__sub__",
           "_tt_base.TT.__mul__", "_tt_base.TT.full"]


def check(model: Model, tier: str):
    obs = e5ob.for_property(model, "C04", tier)
    scope = [model.func(a) for a in ("_tt_base.TT.__matmul__", "_aux_ops.dense_matvec", "_tt_base.TT.t")]
    obs += rules.rule_unres(model, scope)
    obs += rules.rule_defassign(model, scope)
    return obs, {"functions": ANCHORS}
