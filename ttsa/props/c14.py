"""C14 - cross approximation: claimed only for the enrichment-bookkeeping clause (X1) and discipline rules."""
from __future__ import annotations

import ast

from .. import rules
from ..effects import Effects
from ..model import Model, norm
from ..report import Ob, OK, VIOLATED, ERROR, INFO

META = {
    "explanation": "Decides only X1 (enrichment bookkeeping) at the four rank-kick sites of dmrg_cross and function_interpolate: after "
                   "Q, Rt = QR(cat((U, K), axis)) with U: m x r and K: m x kick, the other factor is zero-padded by `radd` rows/columns "
                   "and multiplied by Rt; the obligation r + radd = Rt.shape[1] (= r + kick) is checked in a small symbolic shape domain "
                   "with QR(m x c) -> Q: m x min(m, c), R: min(m, c) x c. `Rt.shape[1] - r` and `kick` discharge it identically; "
                   "`Q.shape[1] - r` normalises to min(m, c) - r, which is smaller than kick whenever m < r + kick (mode sizes smaller "
                   "than rank + kick): a definite shape error. Plus: the start tensor is copied (effect analysis), name resolution. "
                   "X2 (index provenance, value-range analysis of the integer index arrays): the index store Idx keeps Left(j) = rank[j] x j "
                   "(column i in [0, N[i])) and Right(j) = (d-j) x rank[j] (row i in [0, N[j+i])); every store extends the proper set at the proper "
                   "position, every selection from it is bounded by its rank, every np.unravel_index is applied to flat indices bounded by the "
                   "product of its shape (the rows of the matrix maxvol searched), the matrix handed to the user's function is "
                   "(Left(k) | [0,N[k]) | [0,N[k+1]) | Right(k+2)^T) = d aligned columns, and function_interpolate gathers core i of every argument "
                   "tensor with column i along its mode axis. Recovery accuracy, maxvol quality and seed independence are NOT decided.",
    "assumptions": ["QR/SVD are modelled by their shape laws for tall arguments (the wide case is X1); the start cores are orthogonalised, so min(N[k]*rank[k+1], rank[k]) = rank[k]", "interface matrices Ps[j] are square of size rank[j]"],
    "floors": {"RANK-BOUND": 12, "X1-ENRICH": 4, "E3-PARAM": 2, "X2-CALL": 2, "X2-GATHER": 4, "X2-UNRAVEL": 6, "X2-SELECT": 14, "X2-STORE": 6},
}
ANCHORS = ["interpolate.dmrg_cross", "interpolate.function_interpolate", "interpolate._maxvol"]


def rule_enrich(model: Model):
    obs = []
    for fs in ("interpolate.dmrg_cross", "interpolate.function_interpolate"):
        f = model.func(fs)
        # statements `X, R = QR(tn.cat((X, K), axis)[.t()])`
        for n in ast.walk(f.node):
            if not (isinstance(n, ast.Assign) and isinstance(n.targets[0], ast.Tuple) and len(n.targets[0].elts) == 2 and isinstance(n.value, ast.Call)
                    and (model.resolve(f.module, n.value.func) or "").endswith("_decomposition.QR") and n.value.args):
                continue
            arg = n.value.args[0]
            transposed = False
            if isinstance(arg, ast.Call) and isinstance(arg.func, ast.Attribute) and arg.func.attr == "t" and not arg.args:
                arg = arg.func.value
                transposed = True
            elif isinstance(arg, ast.Attribute) and arg.attr in ("T", "mT"):
                arg = arg.value
                transposed = True
            if not (isinstance(arg, ast.Call) and (model.resolve(f.module, arg.func) or "") in
                    ("torch.cat", "torch.concat", "torch.concatenate", "torch.hstack", "torch.vstack")):
                continue
            qname = n.targets[0].elts[0].id if isinstance(n.targets[0].elts[0], ast.Name) else None
            rname = n.targets[0].elts[1].id if isinstance(n.targets[0].elts[1], ast.Name) else None
            # the assignment that follows and defines how many zero rows/columns pad the other factor: the first later assignment of a
            # name that is used as a size inside a zeros(...) call
            radd = None
            pad_names = {x.id for z in ast.walk(f.node) if isinstance(z, ast.Call) and norm(z.func).endswith("zeros") and z.args
                         for x in ast.walk(z.args[0]) if isinstance(x, ast.Name)}
            for m in ast.walk(f.node):
                if isinstance(m, ast.Assign) and isinstance(m.targets[0], ast.Name) and m.targets[0].id in pad_names and m.lineno > n.lineno \
                        and (radd is None or m.lineno < radd.lineno):
                    radd = m
            k = f"{fs}:X1-ENRICH:{'RL' if transposed else 'LR'}:{norm(n.value)[:50]}"
            if radd is None:
                obs.append(Ob("X1-ENRICH", k, ERROR, model.where(f, n), norm(n)[:100], "no `radd = ...` assignment follows the enrichment QR"))
                continue
            v = radd.value
            form = norm(v).replace(" ", "")
            # <factor>.shape[1] - <truncation rank>: the subtrahend is whatever name holds the rank kept before the enrichment
            if isinstance(v, ast.BinOp) and isinstance(v.op, ast.Sub) and isinstance(v.right, ast.Name):
                form = norm(v.left).replace(" ", "") + "-rnew"
            if form == f"{rname}.shape[1]-rnew" or form == "kick":
                obs.append(Ob("X1-ENRICH", k, OK, model.where(f, radd), norm(radd), "radd + rnew equals the column count of the R factor identically"))
            elif form == f"{qname}.shape[1]-rnew":
                obs.append(Ob("X1-ENRICH", k, VIOLATED, model.where(f, radd), norm(radd),
                              f"radd is taken from the Q factor: Q has min(m, rnew + kick) columns, so rnew + radd = min(m, rnew + kick), while the "
                              f"R factor `{rname}` that multiplies the padded factor has rnew + kick columns. Whenever the unfolding has fewer rows "
                              "than rnew + kick (mode sizes smaller than rank + kick, e.g. N = [2, 3, 2, 4]) the product has mismatching shapes "
                              "(RuntimeError) - witness region m < rnew + kick"))
            else:
                obs.append(Ob("X1-ENRICH", k, ERROR, model.where(f, radd), norm(radd), "radd expression not in a recognised form"))
            obs += _carry(model, f, fs, n, arg, qname, rname, transposed)
    return obs


def _carry(model, f, fs, qr_stmt, cat_call, qname, rname, transposed):
    """ENRICH-CARRY (added after seed S4-C14-2).  `X, R = QR(cat((X, K)))` replaces the factor X by Q; the product X @ Y is kept only if
    the other factor is multiplied by R afterwards.  The repository does that under `if radd > 0`, which is the whole story exactly when
    the kick block K has at least one column: its extent along the concatenation axis has to be a quantity that is positive throughout the
    property's domain (the enrichment parameter itself, kick >= 1) - or the multiplication by R must not be conditional."""
    k = f"{fs}:X1-ENRICH:carry:{'RL' if transposed else 'LR'}"
    parents = {}
    for a in ast.walk(f.node):
        for c in ast.iter_child_nodes(a):
            parents[id(c)] = a
    carries = [m for m in ast.walk(f.node) if isinstance(m, ast.Assign) and m.lineno > qr_stmt.lineno and isinstance(m.value, ast.BinOp)
               and isinstance(m.value.op, ast.MatMult) and rname is not None
               and any(isinstance(x, ast.Name) and x.id == rname for x in ast.walk(m.value))]
    carries.sort(key=lambda m: m.lineno)
    if not carries:
        return [Ob("X1-ENRICH", k, VIOLATED, model.where(f, qr_stmt), norm(qr_stmt)[:90],
                   f"the factor is replaced by the Q factor of its enrichment, but nothing multiplies the other factor by `{rname}`: the product of the two "
                   "factors is no longer the truncated supercore")]
    c = carries[0]
    cond = None
    cur = c
    while id(cur) in parents and parents[id(cur)] is not parents.get(id(qr_stmt)):
        cur = parents[id(cur)]
        if isinstance(cur, ast.If):
            cond = cur
        if isinstance(cur, (ast.For, ast.While, ast.FunctionDef)):
            break
    if cond is None:
        return [Ob("X1-ENRICH", k, OK, model.where(f, c), norm(c)[:90], "the other factor is multiplied by R unconditionally")]
    # width of the kick block along the concatenation axis
    elts = cat_call.args[0].elts if cat_call.args and isinstance(cat_call.args[0], (ast.Tuple, ast.List)) else list(cat_call.args)
    axis = 1 if norm(cat_call.func).endswith("hstack") else 0 if norm(cat_call.func).endswith("vstack") else None
    if axis is None:
        ax = cat_call.args[1] if len(cat_call.args) > 1 else next((kw.value for kw in cat_call.keywords if kw.arg in ("dim", "axis")), None)
        axis = ax.value if isinstance(ax, ast.Constant) and isinstance(ax.value, int) else None
    kname = elts[1].id if len(elts) == 2 and isinstance(elts[1], ast.Name) else None
    kdef = None
    for m in ast.walk(f.node):
        if isinstance(m, ast.Assign) and len(m.targets) == 1 and isinstance(m.targets[0], ast.Name) and m.targets[0].id == kname and m.lineno < qr_stmt.lineno \
                and (kdef is None or m.lineno > kdef.lineno):
            kdef = m
    shape = kdef.value.args[0] if kdef is not None and isinstance(kdef.value, ast.Call) and kdef.value.args else None
    if axis is None or not isinstance(shape, (ast.Tuple, ast.List)) or len(shape.elts) != 2:
        return [Ob("X1-ENRICH", k, ERROR, model.where(f, qr_stmt), norm(qr_stmt)[:90], "the kick block / concatenation axis is not in a recognised form")]
    w = shape.elts[axis]
    params = set(f.params())
    for _ in range(3):      # through locals bound once: `nk = kick`
        if isinstance(w, ast.Name) and w.id not in params:
            defs = [m for m in ast.walk(f.node) if isinstance(m, ast.Assign) and len(m.targets) == 1 and isinstance(m.targets[0], ast.Name) and m.targets[0].id == w.id
                    and m.lineno < kdef.lineno]
            if defs:
                w = max(defs, key=lambda m: m.lineno).value       # the binding in force at the kick block (straight-line code of one loop body)
                continue
        break
    if isinstance(w, ast.Name) and w.id in params:
        return [Ob("X1-ENRICH", k, OK, model.where(f, c), f"if {norm(cond.test)}: {norm(c)[:60]}",
                   f"the kick block has `{w.id}` columns - the enrichment parameter, at least 1 in the property's domain - so `{norm(cond.test)}` always holds "
                   "and the other factor is always multiplied by R")]
    if isinstance(w, ast.Constant) and isinstance(w.value, int) and w.value >= 1:
        return [Ob("X1-ENRICH", k, OK, model.where(f, c), norm(c)[:90], "the kick block has a positive constant width")]
    can_vanish = any((isinstance(x, ast.Call) and isinstance(x.func, ast.Name) and x.func.id == "min") or (isinstance(x, ast.BinOp) and isinstance(x.op, ast.Sub))
                     for x in ast.walk(w))
    if not can_vanish:
        return [Ob("X1-ENRICH", k, ERROR, model.where(f, kdef), norm(kdef)[:100], f"the width `{norm(w)}` of the kick block is not in a form whose sign is known")]
    return [Ob("X1-ENRICH", k, VIOLATED, model.where(f, kdef), norm(kdef)[:100],
               f"the kick block has `{norm(w)}` columns, which is not the (positive) enrichment parameter: when it is 0 the QR still replaces the factor by Q "
               f"(columns re-signed / re-mixed by R) while `if {norm(cond.test)}` skips the multiplication of the other factor by `{rname}` - the product of the "
               "two factors is no longer the truncated supercore and the core written back is wrong")]


def check(model: Model, tier: str):
    model.use_inlined("interpolate.dmrg_cross", "interpolate.function_interpolate")   # sweeps moved into private helpers are read in place
    obs = rule_enrich(model)
    eng = Effects(model)
    for fn, p in (("interpolate.dmrg_cross", "x_start"), ("interpolate.function_interpolate", "start_tens"), ("interpolate.function_interpolate", "x")):
        fo = model.func(fn)
        effs = [e for e in eng.summary(fo).effects if e.param == p]
        obs.append(Ob("E3-PARAM", f"{fn}:E3-PARAM:{p}", VIOLATED if effs else OK, effs[0].where if effs else model.where(fo), p,
                      f"`{p}` is written: {effs[0].construct}" if effs else "argument tensors are not written"))
    obs += rules.rule_unres(model, [model.func(a) for a in ANCHORS])
    from ..ranges import check_function, rule_rank_bound
    for fn in ("interpolate.dmrg_cross", "interpolate.function_interpolate"):
        obs += check_function(model, fn)
        obs += rule_rank_bound(model, fn)
    return obs, {"functions": ANCHORS}
