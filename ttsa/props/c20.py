"""C20 - the TT linear layer computes the dense affine map it represents."""
from __future__ import annotations

import ast

from .. import rules
from ..model import Model, norm
from ..report import Ob, OK, VIOLATED, ERROR, INFO
from ..e5 import obligations as e5ob

META = {
    "explanation": "forward is typed as a sweep (Lemma 3) over a dense input with a symbolic number of leading batch axes: each "
                   "tensordot must contract the first remaining input mode with the core's column axis and the running bond with "
                   "the core's left bond, append the produced row mode after the earlier ones, squeeze the closing bond and add the "
                   "bias over the produced modes. REGISTER: on every non-raising path of __init__ the attributes forward reads "
                   "(cores, bias) are nn.ParameterList of nn.Parameter / nn.Parameter, both initialiser branches assign the same "
                   "attribute set, the weight operator is built with rows = output sizes, and dtype reaches randn and the bias.",
    "assumptions": ["variance scaling of the initialisers is not part of the statement", "autograd's chain rule (see C15)"],
    "floors": {"E5-CHAIN": 3, "REGISTER": 5},
}
ANCHORS = ["nn.LinearLayerTT.__init__", "nn.LinearLayerTT.forward", "_aux_ops.dense_matvec"]


def _paths(stmts):
    """all straight-line paths through if/elif/else nests: lists of simple statements; a path ending in raise is marked"""
    paths = [([], False)]
    for st in stmts:
        nxt = []
        for seq, dead in paths:
            if dead:
                nxt.append((seq, dead))
                continue
            if isinstance(st, ast.If):
                for sub, d2 in _paths(st.body):
                    nxt.append((seq + [("test", st.test, True)] + sub, d2))
                for sub, d2 in _paths(st.orelse):
                    nxt.append((seq + [("test", st.test, False)] + sub, d2))
            elif isinstance(st, ast.Raise):
                nxt.append((seq + [st], True))
            else:
                nxt.append((seq + [st], False))
        paths = nxt
    return paths


def _resolve(e, env, depth=0):
    while depth < 6:
        if isinstance(e, ast.Name) and e.id in env:
            e = env[e.id]
        elif isinstance(e, ast.Attribute) and norm(e) in env and norm(e) not in ("self.cores", "self.bias"):
            e = env[norm(e)]       # self.size_out = size_out earlier on the path
        else:
            break
        depth += 1
    return e


def rule_register(model: Model):
    """On every completing path of __init__: self.cores = ParameterList([Parameter(c) for c in W.cores]) with W = randn([(out_k, in_k)...], rank,
    dtype=dtype), self.bias = Parameter(zeros(size_out, dtype=dtype)); unknown initialisers raise.  Names are resolved through the
    assignments of the path, so locals may be called anything and shared code may sit inside or after the branches."""
    from ..inline import inlined
    f = inlined(model, model.func("nn.LinearLayerTT.__init__"))      # the variance / the checks may sit in a private helper
    obs = []
    k0 = "nn.LinearLayerTT.__init__:REGISTER:"
    paths = _paths(f.node.body)
    done = [(seq, dead) for seq, dead in paths if not dead]
    raised = [(seq, dead) for seq, dead in paths if dead]
    obs.append(Ob("REGISTER", k0 + "else-raises", OK if raised else VIOLATED, model.where(f), "unknown initialiser -> raise",
                  "unknown initialisers are rejected" if raised else "an unknown initialiser falls through and the layer has no parameters"))
    if not done:
        return obs + [Ob("REGISTER", k0 + "paths", ERROR, model.where(f), "__init__", "no completing path found")]
    for pi, (seq, _) in enumerate(done):
        tests = [norm(x[1]) + ("" if x[2] else " is false") for x in seq if isinstance(x, tuple)]
        tag = " & ".join(tests)[:60] or f"path{pi}"
        env = {}
        for st in seq:
            if isinstance(st, ast.Assign):
                for t in st.targets:
                    if isinstance(t, ast.Tuple) and isinstance(st.value, ast.Tuple) and len(t.elts) == len(st.value.elts):
                        for tt_, vv in zip(t.elts, st.value.elts):
                            env[norm(tt_)] = vv
                    else:
                        env[norm(t)] = st.value
        # cores
        v = _resolve(env.get("self.cores"), env) if "self.cores" in env else None
        W = None
        ok = isinstance(v, ast.Call) and model.resolve(f.module, v.func) == "torch.nn.ParameterList" and v.args
        if ok:
            lc = _resolve(v.args[0], env)
            ok = isinstance(lc, ast.ListComp) and len(lc.generators) == 1 and isinstance(lc.elt, ast.Call) and model.resolve(f.module, lc.elt.func) == "torch.nn.Parameter" \
                and isinstance(lc.generators[0].target, ast.Name) and lc.elt.args and norm(lc.elt.args[0]) == lc.generators[0].target.id \
                and isinstance(lc.generators[0].iter, ast.Attribute) and lc.generators[0].iter.attr == "cores"
            if ok:
                W = _resolve(lc.generators[0].iter.value, env)
        obs.append(Ob("REGISTER", k0 + f"{tag}:cores", OK if ok else VIOLATED, model.where(f), norm(v)[:90] if v is not None else "<missing>",
                      "cores registered as nn.ParameterList of nn.Parameter, in order" if ok else
                      "self.cores is not an nn.ParameterList of nn.Parameter over the cores of the weight operator: the cores are not trainable parameters of the module"))
        b = _resolve(env.get("self.bias"), env) if "self.bias" in env else None
        okb = isinstance(b, ast.Call) and model.resolve(f.module, b.func) == "torch.nn.Parameter" and b.args
        obs.append(Ob("REGISTER", k0 + f"{tag}:bias", OK if okb else VIOLATED, model.where(f), norm(b)[:90] if b is not None else "<missing>",
                      "bias registered as nn.Parameter" if okb else "self.bias is not an nn.Parameter"))
        bz = _resolve(b.args[0], env) if okb else None
        okz = isinstance(bz, ast.Call) and model.resolve(f.module, bz.func) == "torch.zeros" and bz.args and norm(_resolve(bz.args[0], env)) == "size_out" and \
            any(kw.arg == "dtype" and norm(_resolve(kw.value, env)) == "dtype" for kw in bz.keywords)
        obs.append(Ob("REGISTER", k0 + f"{tag}:bias-shape", OK if okz else VIOLATED, model.where(f), norm(bz)[:90] if bz is not None else "<missing>",
                      "bias has the output shape and the layer dtype" if okz else "bias must be zeros(size_out, dtype=dtype)"))
        okt = isinstance(W, ast.Call) and model.resolve(f.module, W.func) == "torchtt._extras.randn" and len(W.args) >= 2 and \
            norm(_resolve(W.args[1], env)) == "rank" and any(kw.arg == "dtype" and norm(_resolve(kw.value, env)) == "dtype" for kw in W.keywords)
        if okt:
            shp = _resolve(W.args[0], env)
            okt = False
            if isinstance(shp, ast.Call) and norm(shp.func) == "list" and len(shp.args) == 1 and isinstance(shp.args[0], ast.Call) \
                    and norm(shp.args[0].func) == "zip" and len(shp.args[0].args) == 2:
                # list(zip(size_out, size_in)): the same pairs
                okt = norm(_resolve(shp.args[0].args[0], env)) == "size_out" and norm(_resolve(shp.args[0].args[1], env)) == "size_in"
            if isinstance(shp, ast.ListComp) and len(shp.generators) == 1 and isinstance(shp.elt, ast.Tuple) and len(shp.elt.elts) == 2 \
                    and isinstance(shp.generators[0].target, ast.Tuple) and len(shp.generators[0].target.elts) == 2 \
                    and isinstance(shp.generators[0].iter, ast.Call) and norm(shp.generators[0].iter.func) == "zip" and len(shp.generators[0].iter.args) == 2:
                src = {norm(tv): norm(_resolve(sv, env)) for tv, sv in zip(shp.generators[0].target.elts, shp.generators[0].iter.args)}
                okt = src.get(norm(shp.elt.elts[0])) == "size_out" and src.get(norm(shp.elt.elts[1])) == "size_in"
        obs.append(Ob("REGISTER", k0 + f"{tag}:weight", OK if okt else VIOLATED, model.where(f), norm(W)[:100] if W is not None else "<missing>",
                      "weight operator built with rows = output sizes, columns = input sizes, the given rank and dtype" if okt else
                      "the weight must be randn([(out_k, in_k)], rank, dtype=dtype): rows are the output modes"))
    return obs


def check(model: Model, tier: str):
    obs = e5ob.for_property(model, "C20", tier)
    obs += rule_register(model)
    scope = [model.func(a) for a in ANCHORS]
    obs += rules.rule_unres(model, scope)
    obs += rules.rule_defassign(model, scope)
    return obs, {"functions": ANCHORS}
