"""C20 - the TT linear layer computes the dense affine map it represents."""
from __future__ import annotations

import ast

from .. import rules
from ..model import Model, norm
from ..report import Ob, OK, VIOLATED, ERROR, INFO
from ..e5 import obligations as e5ob

META = {
    "explanation": "forward is typed as a sweep (Lemma 3) over a dense input with a symbolic number of leading batch axes: each "
                   "tensordot must contract the first remaining input mode with the core's column axis and the running bond with "
                   "the core's left bond, append the produced row mode after the earlier ones, squeeze the closing bond and add the "
                   "bias over the produced modes. REGISTER: on every non-raising path of __init__ the attributes forward reads "
                   "(cores, bias) are nn.ParameterList of nn.Parameter / nn.Parameter, both initialiser branches assign the same "
                   "attribute set, the weight operator is built with rows = output sizes, and dtype reaches randn and the bias.",
    "assumptions": ["variance scaling of the initialisers is not part of the statement", "autograd's chain rule (see C15)"],
    "floors": {"E5-CHAIN": 3, "REGISTER": 8},
}
ANCHORS = ["nn.LinearLayerTT.__init__", "nn.LinearLayerTT.forward", "_aux_ops.dense_matvec"]


def rule_register(model: Model):
    f = model.func("nn.LinearLayerTT.__init__")
    obs = []
    top = [s for s in f.node.body if isinstance(s, ast.If)]
    k0 = "nn.LinearLayerTT.__init__:REGISTER:"
    if not top:
        return [Ob("REGISTER", k0 + "dispatch", ERROR, model.where(f), "if initializer == ...", "initialiser dispatch not found")]
    branches = []
    node = top[0]
    while True:
        branches.append((norm(node.test), node.body))
        if len(node.orelse) == 1 and isinstance(node.orelse[0], ast.If):
            node = node.orelse[0]
        else:
            final_else = node.orelse
            break
    ok_else = any(isinstance(s, ast.Raise) for s in final_else)
    obs.append(Ob("REGISTER", k0 + "else-raises", OK if ok_else else VIOLATED, model.where(f), "else: raise",
                  "unknown initialisers are rejected" if ok_else else "an unknown initialiser falls through and the layer has no parameters"))
    for test, body in branches:
        tag = test[:40]
        assigns = {}
        for s in body:
            if isinstance(s, ast.Assign):
                for t in s.targets:
                    assigns[norm(t)] = s.value
        # cores
        v = assigns.get("self.cores")
        ok = isinstance(v, ast.Call) and (model.resolve(f.module, v.func) == "torch.nn.ParameterList") and v.args \
            and isinstance(v.args[0], ast.ListComp) and isinstance(v.args[0].elt, ast.Call) \
            and model.resolve(f.module, v.args[0].elt.func) == "torch.nn.Parameter" and norm(v.args[0].generators[0].iter) == "t.cores"
        obs.append(Ob("REGISTER", k0 + f"{tag}:cores", OK if ok else VIOLATED, model.where(f), norm(v)[:90] if v is not None else "<missing>",
                      "cores registered as nn.ParameterList of nn.Parameter, in order" if ok else
                      "self.cores is not an nn.ParameterList of nn.Parameter over t.cores: the cores are not trainable parameters of the module"))
        b = assigns.get("self.bias")
        okb = isinstance(b, ast.Call) and model.resolve(f.module, b.func) == "torch.nn.Parameter"
        obs.append(Ob("REGISTER", k0 + f"{tag}:bias", OK if okb else VIOLATED, model.where(f), norm(b)[:90] if b is not None else "<missing>",
                      "bias registered as nn.Parameter" if okb else "self.bias is not an nn.Parameter"))
        bz = assigns.get("bias")
        okz = isinstance(bz, ast.Call) and model.resolve(f.module, bz.func) == "torch.zeros" and norm(bz.args[0]) == "size_out" and \
            any(kw.arg == "dtype" and norm(kw.value) == "dtype" for kw in bz.keywords)
        obs.append(Ob("REGISTER", k0 + f"{tag}:bias-shape", OK if okz else VIOLATED, model.where(f), norm(bz)[:90] if bz is not None else "<missing>",
                      "bias has the output shape and the layer dtype" if okz else "bias must be zeros(size_out, dtype=dtype)"))
        t = assigns.get("t")
        okt = isinstance(t, ast.Call) and model.resolve(f.module, t.func) == "torchtt._extras.randn" and t.args and \
            norm(t.args[0]).replace(" ", "") == "[(s2,s1)fors1,s2inzip(size_in,size_out)]" and norm(t.args[1]) == "rank" and \
            any(kw.arg == "dtype" and norm(kw.value) == "dtype" for kw in t.keywords)
        obs.append(Ob("REGISTER", k0 + f"{tag}:weight", OK if okt else VIOLATED, model.where(f), norm(t)[:100] if t is not None else "<missing>",
                      "weight operator built with rows = output sizes, columns = input sizes, the given rank and dtype" if okt else
                      "the weight must be randn([(out_k, in_k)], rank, dtype=dtype): rows are the output modes"))
    return obs


def check(model: Model, tier: str):
    obs = e5ob.for_property(model, "C20", tier)
    obs += rule_register(model)
    scope = [model.func(a) for a in ANCHORS]
    obs += rules.rule_unres(model, scope)
    obs += rules.rule_defassign(model, scope)
    return obs, {"functions": ANCHORS}
