"""Shared scope definitions for the property checks."""
from __future__ import annotations

import ast

from ..model import Model, Func

TT = "_tt_base.TT"

# public functions of torchtt._extras exported by torchtt/__init__.py are derived at run time
BIG_SOLVER_BODIES = {
    "solvers._amen_solve_python", "_division.amen_divide", "_amen._amen_mm_python",
    "_dmrg.dmrg_matvec_python", "_dmrg.dmrg_hadamard_python",
    "interpolate.function_interpolate", "interpolate.dmrg_cross", "interpolate._maxvol",
    "_iterative_solvers.BiCGSTAB_reset", "_iterative_solvers.gmres", "_iterative_solvers.gmres_restart",
}


def live_functions(model: Model) -> list[Func]:
    return list(model.functions.values())


def exported_names(model: Model) -> set:
    """Canonical qualnames re-exported from torchtt/__init__.py."""
    m = model.modules["torchtt"]
    out = set()
    for alias, tgt in m.imports.items():
        if alias.startswith("\0"):
            continue
        c = model.canon(tgt)
        if c in model.functions or c in model.classes:
            out.add(c)
    return out


def public_entry_points(model: Model) -> list[Func]:
    """Public API: exported functions, every method of TT, public functions of the public submodules."""
    out = {}
    exp = exported_names(model)

    def private(name):
        # _helper / __mangled are internal; __dunder__ methods are the operator API
        return name.startswith("_") and not (name.startswith("__") and name.endswith("__"))
    for q, f in model.functions.items():
        if q in exp:
            out[q] = f
        elif f.cls is not None and private(f.name):
            continue        # reached (and summarised) through the public methods that call it
        elif f.cls == "TT" and f.module.name == "torchtt._tt_base":
            out[q] = f
        elif f.module.name in ("torchtt.solvers", "torchtt.grad", "torchtt.manifold", "torchtt.interpolate",
                               "torchtt._amen", "torchtt._dmrg") and f.cls is None and not f.name.startswith("_") \
                and not f.name.endswith("_python"):
            out[q] = f
        elif f.module.name == "torchtt.nn" and f.cls == "LinearLayerTT":
            out[q] = f
    return list(out.values())


def funcs(model: Model, shorts) -> list[Func]:
    return [model.func(s) for s in shorts]


def call_sites(model: Model, target_q: str):
    """All (caller Func, Call node) whose callee resolves to target_q."""
    out = []
    for f in model.functions.values():
        for n in ast.walk(f.node):
            if isinstance(n, ast.Call):
                r = model.resolve(f.module, n.func)
                if r == target_q:
                    out.append((f, n))
    return out


def cross_reference(structural, semantic, note: str):
    """A clause that is DECIDED by evaluating the real code (E5 scenarios `semantic`) may also have a structural reading (rules over the
    shape of the source).  The structural reading is kept as a cross-reference: where it is not positive - because the code was restructured
    into a form the rule does not recognise, which it cannot tell from a real violation - it is reported as INFO, never as a verdict.
    If the evaluation itself could not be carried out (an ERROR among `semantic`, or nothing evaluated), the structural verdicts stand."""
    from ..report import VIOLATED, ERROR, INFO
    decides = bool(semantic) and not any(o.status == ERROR for o in semantic)
    if decides:
        for o in structural:
            if o.status in (VIOLATED, ERROR):
                o.status = INFO
                o.detail = f"structural reading inconclusive (the clause is decided by evaluation: {note}): " + o.detail
    elif any(o.status == ERROR for o in semantic):
        # the changed code could not be evaluated either: a form the structural rule does not recognise is then "not known", never a verdict -
        # these rules cannot tell a restructured function from a broken one (that is why the evaluation decides)
        for o in structural:
            if o.status == VIOLATED:
                o.status = ERROR
                o.detail = "not recognised by the structural reading and not evaluable either (no verdict): " + o.detail
    return structural
