"""C18 - incompatible operands raise an error instead of returning a wrong tensor.

Obligations (DESIGN.md section 4, C18):
  O1 UNRAISED      no exception is constructed without being raised
  O2 VACUOUS/TYPECMP  no rejecting guard is a constant comparison
  O3 RAISE-TABLE   each confirmed (function, exception, incompatibility class) has a reachable raise whose
                   guard reads the operands named by the class
  O4 E5 unification obligations (see ttsa/e5: every size identification has a dominating guard)
  O5 AXIS-RANGE    axis/mode parameters fail loudly when out of range
  O7 DEFASSIGN     the value returned by a public entry point is bound on every path
"""
from __future__ import annotations

import ast

from .. import rules
from ..flow import walk_with_guards
from ..model import Model, Func, norm
from ..report import Ob, OK, VIOLATED, ERROR, INFO, AnalysisError
from . import common

META = {
    "explanation": "Static discipline rules over every live function of the package: exceptions constructed but not raised, "
                   "constant rejecting guards, a confirmed table of raise-guards (function, exception type, operands the guard "
                   "must read), loud failure of axis parameters, definite assignment of returned values, and the size "
                   "unification obligations emitted by the contraction type checker (each identification of two operand "
                   "sizes needs a dominating raise-guard; torch broadcasts size-1 axes, so an unguarded identification "
                   "has a witness input on which an object is returned instead of an error).",
    "assumptions": ["exception *types* raised by torch itself for cases the library delegates to it are not decided",
                    "order d >= 1 for every TT operand"],
    "floors": {"UNRAISED": 90, "VACUOUS": 15, "RAISE-TABLE": 88, "AXIS-RANGE": 6, "DEFASSIGN": 150},
}

ANCHORS = ["_tt_base.TT.__add__", "_tt_base.TT.__sub__", "_tt_base.TT.__mul__", "_tt_base.TT.__matmul__",
           "_tt_base.TT.fast_matvec", "_tt_base.TT.sum", "_tt_base.TT.__getitem__", "_extras.cat", "_extras.dot",
           "_extras.permute", "_extras.reshape", "solvers.amen_solve", "_amen.amen_mv", "_amen.amen_mm"]

T = "_tt_base.TT."
# (function, exception type, tokens the innermost guard chain must read, incompatibility class)
RAISE_TABLE = [
    (T + "M", "IncompatibleTypes", {"self.is_ttm"}, "M of a TT tensor"),
    (T + "__init__", "RankMismatch", {"s", "R"}, "rank chain broken"),
    (T + "__init__", "InvalidArguments", {"s", "len"}, "core not 3/4-axis"),
    (T + "__init__", "InvalidArguments", {"N", "R", "M", "d"}, "boundary ranks / mixed kinds"),
    (T + "__init__", "NotImplementedError", {"source"}, "unsupported source type"),
    (T + "set_core", "InvalidArguments", {"k", "self.N"}, "core index out of range"),
    (T + "set_core", "InvalidArguments", {"core.shape", "self.R", "k"}, "core does not match ranks"),
    (T + "__add__", "ShapeMismatch", {"self.M", "other.M", "self.N", "other.N"}, "ttm shapes differ"),
    (T + "__add__", "ShapeMismatch", {"self.N", "other.N", "len"}, "other has more modes"),
    (T + "__add__", "ShapeMismatch", {"other.N", "self.N", "k", "i"}, "mode neither equal nor 1"),
    (T + "__add__", "IncompatibleTypes", {"self.is_ttm", "other.is_ttm"}, "kind mix"),
    (T + "__add__", "InvalidArguments", {"other"}, "bad type"),
    (T + "__sub__", "ShapeMismatch", {"self.M", "other.M", "self.N", "other.N"}, "ttm shapes differ"),
    (T + "__sub__", "ShapeMismatch", {"self.N", "other.N", "len"}, "other has more modes"),
    (T + "__sub__", "ShapeMismatch", {"other.N", "self.N", "k", "i"}, "mode neither equal nor 1"),
    (T + "__sub__", "IncompatibleTypes", {"self.is_ttm", "other.is_ttm"}, "kind mix"),
    (T + "__sub__", "InvalidArguments", {"other"}, "bad type"),
    (T + "__mul__", "ShapeMismatch", {"self.M", "other.M", "self.N", "other.N"}, "ttm shapes differ"),
    (T + "__mul__", "ShapeMismatch", {"self.N", "other.N", "len"}, "other has more modes"),
    (T + "__mul__", "ShapeMismatch", {"other.N", "self.N", "k", "i"}, "mode neither equal nor 1"),
    (T + "__mul__", "IncompatibleTypes", {"self.is_ttm", "other.is_ttm"}, "kind mix"),
    (T + "__mul__", "InvalidArguments", {"other"}, "bad type"),
    (T + "__matmul__", "ShapeMismatch", {"self.N", "other.shape"}, "ttm @ dense"),
    (T + "__matmul__", "ShapeMismatch", {"self.N", "other.N"}, "ttm @ tt"),
    (T + "__matmul__", "ShapeMismatch", {"self.N", "other.M"}, "ttm @ ttm / tt @ ttm"),
    (T + "__matmul__", "InvalidArguments", {"self.is_ttm", "other.is_ttm"}, "tt @ tt"),
    (T + "fast_matvec", "InvalidArguments", {"other"}, "non-TT operand"),
    (T + "fast_matvec", "IncompatibleTypes", {"self.is_ttm", "other.is_ttm"}, "kinds"),
    (T + "fast_matvec", None, {"self.N", "other.N"}, "column modes of A vs modes of x (undocumented: any exception type)"),
    (T + "__truediv__", "IncompatibleTypes", {"self.is_ttm", "other.is_ttm"}, "kind mix"),
    (T + "__truediv__", "ShapeMismatch", {"self.N", "other.N"}, "shapes differ"),
    (T + "__truediv__", "InvalidArguments", {"other"}, "bad type"),
    (T + "__rtruediv__", "InvalidArguments", {"other"}, "bad type"),
    (T + "t", "InvalidArguments", {"self.is_ttm"}, "transpose of a TT tensor"),
    (T + "sum", "InvalidArguments", {"index"}, "index not int/list"),
    (T + "__getitem__", "NotImplementedError", {"index", "Ellipsis"}, "ellipsis twice / on operator"),
    (T + "__getitem__", "InvalidArguments", {"idx1", "idx2"}, "bad element type (ttm)"),
    (T + "__getitem__", "InvalidArguments", {"idx"}, "bad element type (tt)"),
    (T + "__getitem__", "InvalidArguments", {"k", "self.cores"}, "too few indices"),
    (T + "__getitem__", "InvalidArguments", {"self.N", "len"}, "int/slice on order > 1"),
    (T + "__getitem__", "InvalidArguments", {"index"}, "bad index type"),
    (T + "__pow__", "IncompatibleTypes", {"self.is_ttm", "other.is_ttm"}, "kind mix"),
    (T + "__pow__", "InvalidArguments", {"other"}, "bad type"),
    (T + "to_qtt", "ShapeMismatch", {"self.N", "self.M"}, "non-square operator"),
    (T + "to_qtt", "ShapeMismatch", {"self.N", "mode_size"}, "not a power of mode_size (ttm)"),
    (T + "qtt_to_tens", "InvalidArguments", {"original_shape"}, "shape not a list"),
    (T + "qtt_to_tens", "ShapeMismatch", {"k", "original_shape"}, "modes do not regroup"),
    (T + "mprod", "IncompatibleTypes", {"self.is_ttm"}, "ttm operand"),
    (T + "mprod", "ShapeMismatch", {"cores_new", "factor_matrices", "mode", "i"}, "mode size vs matrix (list)"),
    (T + "mprod", "ShapeMismatch", {"cores_new", "factor_matrices.shape", "mode"}, "mode size vs matrix (single)"),
    (T + "mprod", "InvalidArguments", {"factor_matrices", "mode"}, "bad arguments"),
    ("_extras.zeros", "InvalidArguments", {"shape"}, "shape not a list"),
    ("_extras.ones", "InvalidArguments", {"shape"}, "shape not a list"),
    ("_extras.xfun", "InvalidArguments", {"shape"}, "shape not a list"),
    ("_extras.linspace", "InvalidArguments", {"shape"}, "shape not a list"),
    ("_extras.arange", "InvalidArguments", {"shape"}, "shape not a list"),
    ("_extras.kron", "IncompatibleTypes", {"first.is_ttm", "second.is_ttm"}, "kind mix"),
    ("_extras.kron", "InvalidArguments", {"first", "second"}, "bad types"),
    ("_extras.random", "InvalidArguments", {"N", "R"}, "rank list does not fit"),
    ("_extras.reshape", "ShapeMismatch", {"tens.N", "N", "tens.M", "M"}, "element count (ttm)"),
    ("_extras.reshape", "ShapeMismatch", {"tens.N", "shape"}, "element count (tt)"),
    ("_extras.dot", "InvalidArguments", {"a", "b"}, "non-TT"),
    ("_extras.dot", "NotImplementedError", {"a.is_ttm", "b.is_ttm"}, "ttm operand"),
    ("_extras.dot", "ShapeMismatch", {"a.N", "b.N"}, "sizes differ (full)"),
    ("_extras.dot", "ShapeMismatch", {"a.N", "b.N", "len"}, "a shorter than b"),
    ("_extras.bilinear_form", "InvalidArguments", {"x", "A", "y"}, "non-TT"),
    ("_extras.bilinear_form", "IncompatibleTypes", {"x.is_ttm", "y.is_ttm", "A.is_ttm"}, "kinds"),
    ("_extras.bilinear_form", "ShapeMismatch", {"x.N", "A.M", "y.N", "A.N"}, "shapes"),
    ("_extras.diag", "InvalidArguments", {"input"}, "non-TT"),
    ("_extras.permute", "InvalidArguments", {"input"}, "non-TT"),
    ("_extras.permute", "ShapeMismatch", {"dims", "input.N"}, "wrong number of dims"),
    ("_extras.permute", "InvalidArguments", {"dims", "set"}, "duplicates"),
    ("_extras.permute", "InvalidArguments", {"dims", "min", "max"}, "out of range"),
    ("_extras.save", "InvalidArguments", {"tensor"}, "non-TT"),
    ("_extras.cat", "InvalidArguments", {"tensors"}, "ttm operand"),
    ("_extras.cat", "InvalidArguments", {"tensors", "dim"}, "mode sizes differ off the axis"),
    ("_extras.cat", "InvalidArguments", {"tensors", "len"}, "orders differ"),
    ("_extras.pad", "InvalidArguments", {"padding", "tensor.N"}, "too many paddings"),
    ("solvers.amen_solve", "InvalidArguments", {"A", "b"}, "non-TT"),
    ("solvers.amen_solve", "IncompatibleTypes", {"A.is_ttm", "b.is_ttm"}, "kinds"),
    ("solvers.amen_solve", "ShapeMismatch", {"A.M", "A.N"}, "not square"),
    ("solvers.amen_solve", "ShapeMismatch", {"A.N", "b.N"}, "A vs b"),
    ("solvers.amen_solve", "InvalidArguments", {"preconditioner"}, "unknown preconditioner (C++ path)"),
    ("_amen.amen_mv", "InvalidArguments", {"A", "b"}, "non-TT"),
    ("_amen.amen_mv", "IncompatibleTypes", {"A.is_ttm", "b.is_ttm"}, "kinds"),
    ("_amen.amen_mv", "ShapeMismatch", {"A.N", "b.N"}, "A vs b"),
    ("_amen.amen_mm", None, {"A.N", "B.M"}, "inner modes (undocumented: any exception type)"),
    ("manifold.riemannian_projection", "IncompatibleTypes", {"Xspace.is_ttm", "z.is_ttm"}, "kinds"),
    ("nn.LinearLayerTT.__init__", "InvalidArguments", {"initializer"}, "unknown initialiser"),
]
# documented but deliberately excluded, with reason (a documentation slip is not a behavioural violation):
#   _amen.amen_mv "Invalid preconditioner": the function has no preconditioner parameter.
#   solvers._LinearOp.matvec / _division.LinearOp.matvec raise bare Exception for unknown preconditioners (reached
#   only with a value that amen_solve's Python path passes through unchecked; undecided, see DESIGN section 5).

# axis / mode-index parameters (function, parameter)
AXIS_TABLE = [
    (T + "sum", "index"), ("_extras.dot", "axis"), ("_extras.cat", "dim"), (T + "mprod", "mode"),
    ("_extras.permute", "dims"), (T + "set_core", "k"),
]

AXIS_SCENARIOS = {
    T + "sum": ("sum:out-of-range", "sum:negative"), "_extras.dot": ("dot:axis-out-of-range",), "_extras.cat": ("cat:dim-out-of-range",),
    T + "mprod": ("mprod:mode-out-of-range", "mprod:list-mode-out-of-range"), "_extras.permute": ("permute:dims-out-of-range", "permute:dims-repeated"),
    T + "set_core": ("set_core:k-out-of-range",),
}

DEFASSIGN_EXCEPTIONS = {
    (T + "qtt_to_tens", "sig:=item | augMult"): "first-iteration initialisation idiom: `core` is None on loop entry and is reset to None "
                                   "whenever a core is emitted, so the assigning branch always runs before the reading one",
    (T + "qtt_to_tens", "sig:=item"): "the same first-iteration idiom for a further quantity read off the first piece of a folded core (assigned in the "
                                     "`core == None` branch, which runs before the reading one)",
    ("_decomposition.mat_to_tt", "sig:unpack[0/2]=call:to_tt"): "only unassigned when is_sparse is true; every call site passes no is_sparse "
                                         "argument (re-verified on each run)",
    ("_decomposition.mat_to_tt", "sig:unpack[1/2]=call:to_tt"): "same as ttv",
}


def tokens(e: ast.AST) -> set:
    out = set()
    for n in ast.walk(e):
        if isinstance(n, ast.Attribute):
            try:
                base = norm(n.value)
            except Exception:
                continue
            a = n.attr
            if a.startswith("__") and not a.endswith("__"):
                a = a[2:]
            out.add(f"{base}.{a}")
        elif isinstance(n, ast.Name):
            out.add(n.id)
    return out


def raises_with_inner_guard(model: Model, f: Func):
    """(raise node, exception type, tokens of the innermost if/elif chain guarding it)."""
    out = []

    def rec(stmts, chain_tokens):
        from ..flow import _always_abrupt
        clauses = set()       # tests of earlier guard clauses of this block (`if c: return/raise ...`): what follows runs under their negation,
        #                       exactly like the else-part of an if/elif chain
        for s in stmts:
            if isinstance(s, ast.Raise):
                out.append((s, rules.raise_type(model, f, s), set(chain_tokens) | clauses))
            elif isinstance(s, ast.If):
                tk = tokens(s.test) | clauses
                if _always_abrupt(s.body) and not s.orelse:
                    clauses = clauses | tokens(s.test)
                rec(s.body, tk)
                # an elif/else continues the chain: its guard is the negation of all earlier tests
                if len(s.orelse) == 1 and isinstance(s.orelse[0], ast.If):
                    _chain(s.orelse[0], tk)
                else:
                    rec(s.orelse, tk)
            elif isinstance(s, (ast.For, ast.While)):
                rec(s.body, chain_tokens)
                rec(s.orelse, chain_tokens)
            elif isinstance(s, ast.Try):
                rec(s.body, chain_tokens)
                for h in s.handlers:
                    rec(h.body, chain_tokens)
                rec(s.orelse, chain_tokens)
                rec(s.finalbody, chain_tokens)
            elif isinstance(s, ast.With):
                rec(s.body, chain_tokens)

    def _chain(ifnode, acc):
        tk = acc | tokens(ifnode.test)
        rec(ifnode.body, tk)
        if len(ifnode.orelse) == 1 and isinstance(ifnode.orelse[0], ast.If):
            _chain(ifnode.orelse[0], tk)
        else:
            rec(ifnode.orelse, tk)

    rec(f.node.body, set())
    # a guard that reads locals derived from the operands reads the operands: close the token sets over local definitions
    defs = {}
    for n in ast.walk(f.node):
        if isinstance(n, ast.Assign):
            tk = tokens(n.value)
            for t in n.targets:
                for x in ast.walk(t):
                    if isinstance(x, ast.Name):
                        defs.setdefault(x.id, set()).update(tk)
        elif isinstance(n, (ast.For, ast.comprehension)):
            tk = tokens(n.iter)
            for x in ast.walk(n.target):
                if isinstance(x, ast.Name):
                    defs.setdefault(x.id, set()).update(tk)
    closed = []
    for node, exc, tk in out:
        cur = set(tk)
        for _ in range(3):
            add = set()
            for t in cur:
                base = t.split(".")[0]
                if base in defs:
                    add |= defs[base]
            if add <= cur:
                break
            cur |= add
        closed.append((node, exc, cur))
    return closed


def rule_raise_table(model: Model) -> list[Ob]:
    """Each table entry must be matched by a *distinct* raise of the function (most specific entries first)."""
    obs = []
    by_fn = {}
    for ent in RAISE_TABLE:
        by_fn.setdefault(ent[0], []).append(ent)
    for fn, ents in by_fn.items():
        if not model.has_func(fn):
            for _, exc, need, cls in ents:
                obs.append(Ob("RAISE-TABLE", f"{fn}:RAISE-TABLE:{exc or 'any'}:{'+'.join(sorted(need))}", ERROR, "", fn,
                              f"function {fn} of the confirmed raise table vanished"))
            continue
        from ..inline import inlined
        f = inlined(model, model.func(fn))      # raises moved into private helpers by an extract-method refactoring are read in place
        raises = raises_with_inner_guard(model, f)
        used = set()
        import builtins as _b
        params = set(f.params())

        def stable(need):
            """tokens that do not depend on how a local is called: parameters, attributes of parameters, builtins.  (Local names of the
            table are hints confirmed on the pinned tree; the guard tokens are closed over the locals' definitions, so the stable part
            of an entry is still found in the guard after any renaming.)"""
            return {t for t in need if t.split(".")[0].split("[")[0] in params or hasattr(_b, t) or t in ("Ellipsis",)}
        for _, exc, need0, cls in sorted(ents, key=lambda e: -len(e[2])):
            need = stable(need0)
            k = f"{fn}:RAISE-TABLE:{exc or 'any'}:{'+'.join(sorted(need0))}"
            hit = [i for i, r in enumerate(raises) if i not in used and (exc is None or r[1] == exc) and need <= r[2]]
            if hit:
                # prefer the raise with the fewest extra tokens
                best = min(hit, key=lambda i: len(raises[i][2] - need))
                used.add(best)
                obs.append(Ob("RAISE-TABLE", k, OK, model.where(f, raises[best][0]), f"{exc} [{cls}]",
                              f"raise {exc or '<any>'} guarded by a test reading {sorted(need)}"))
            else:
                near = [sorted(r[2]) for r in raises if exc is None or r[1] == exc]
                obs.append(Ob("RAISE-TABLE", k, VIOLATED, model.where(f), f"{exc} [{cls}]",
                              f"{fn} has no (further) `raise {exc or '<exception>'}` whose guard reads {sorted(need)} "
                              f"(incompatibility class: {cls}); guards of that type present read: {near[:4]}. Operands of this "
                              "class are not rejected by the library and reach torch, which broadcasts size-1 axes or fails "
                              "with a foreign exception"))
    return obs


# --------------------------------------------------------------------------- AXIS-RANGE

def _ancestors_map(fn):
    par = {}
    for n in ast.walk(fn):
        for c in ast.iter_child_nodes(n):
            par[id(c)] = n
    return par


def _enclosing_ifs(node, par, fn):
    out = []
    cur = node
    while id(cur) in par:
        p = par[id(cur)]
        if isinstance(p, ast.If):
            # which branch?
            if any(cur is x for x in p.body):
                out.append((id(p), "T"))
            elif any(cur is x for x in p.orelse):
                out.append((id(p), "F"))
        cur = p
    return list(reversed(out))


def classify_axis_uses(model: Model, f: Func, param: str, seen=None):
    """Returns dict(guard=[...], loud=[...], silent=[...]) of uses of `param`."""
    seen = seen or set()
    fn = f.node
    par = _ancestors_map(fn)
    res = {"guard": [], "loud": [], "silent": []}
    # element aliases: `for i in param` / `[... for i in param]` - a range guard on the element guards the parameter
    for n in ast.walk(fn):
        it, tg = None, None
        if isinstance(n, ast.For):
            it, tg, scope = n.iter, n.target, n
        elif isinstance(n, ast.comprehension):
            it, tg, scope = n.iter, n.target, par.get(id(n))
        if it is not None and isinstance(it, ast.Name) and it.id == param and isinstance(tg, ast.Name):
            for q in ast.walk(scope):
                if isinstance(q, ast.If) and any(isinstance(x, ast.Raise) for x in q.body) and \
                        any(isinstance(x, ast.Name) and x.id == tg.id for x in ast.walk(q.test)):
                    txt = norm(q.test)
                    if "len(" in txt and ("<" in txt or ">" in txt):
                        res["guard"].append(q)
    for n in ast.walk(fn):
        if not (isinstance(n, ast.Name) and n.id == param and isinstance(n.ctx, ast.Load)):
            continue
        p = par.get(id(n))
        gp = par.get(id(p)) if p is not None else None
        # inside a raise-guard test?
        cur, in_guard = n, False
        while id(cur) in par:
            q = par[id(cur)]
            if isinstance(q, ast.If) and (cur is q.test):
                if any(isinstance(s, ast.Raise) for s in q.body):
                    txt = norm(q.test)
                    if "len(" in txt or "max(" in txt or "min(" in txt or ">=" in txt or "<" in txt:
                        in_guard = True
                break
            cur = q
        if in_guard:
            res["guard"].append(n)
            continue
        # subscript index: X[param] or X[param[i]] with Index being exactly the name (not a slice bound)
        if isinstance(p, ast.Subscript) and p.slice is n:
            res["loud"].append(n)
            continue
        if isinstance(p, ast.Subscript) and p.value is n:
            # param[i] used as ... look one level up
            if isinstance(gp, ast.Subscript) and gp.slice is p:
                res["loud"].append(n)
                continue
            res["silent"].append(n) if not isinstance(gp, (ast.Compare,)) else res["silent"].append(n)
            continue
        if isinstance(p, ast.Call) and n in p.args:
            callee = None
            if isinstance(p.func, ast.Attribute):
                # method call on a TT-valued expression: .sum(axis)
                mname = p.func.attr
                cand = f"_tt_base.TT.{mname}"
                if model.has_func(cand):
                    callee = model.func(cand)
                    pos = p.args.index(n) + 1
            else:
                r = model.resolve(f.module, p.func)
                if r and r in model.functions:
                    callee = model.functions[r]
                    pos = p.args.index(n)
            if callee is not None and callee.qual not in seen:
                ps = callee.params()
                if pos < len(ps):
                    sub = classify_axis_uses(model, callee, ps[pos], seen | {f.qual})
                    if axis_verdict(sub, _ancestors_map(callee.node), callee.node)[0]:
                        res["loud"].append(n)
                        continue
            if isinstance(p.func, ast.Name) and p.func.id in ("len", "isinstance", "set", "min", "max", "list", "sorted"):
                continue   # neutral uses
            res["silent"].append(n)
            continue
        if isinstance(p, ast.Compare):
            # isinstance-like None tests are neutral
            if any(isinstance(c, ast.Constant) and c.value is None for c in [p.left] + p.comparators):
                continue
            res["silent"].append(n)
            continue
        if isinstance(p, (ast.Slice, ast.BinOp)):
            res["silent"].append(n)
            continue
        if isinstance(p, (ast.List, ast.Assign)):
            continue   # normalisation `index = [index]`
        if isinstance(p, (ast.Attribute,)):
            # dims.index(i): silent lookups on the parameter itself
            res["silent"].append(n)
            continue
        if isinstance(p, (ast.For, ast.comprehension)):
            continue
        res["silent"].append(n)
    return res


def axis_verdict(uses, par, fn):
    if uses["guard"]:
        return True, "explicit range guard"
    if not uses["silent"]:
        return (True, "every use indexes a list directly (IndexError when out of range)") if uses["loud"] \
            else (True, "parameter unused")
    # a loud use whose if-context is a prefix of every silent use's if-context
    for l in uses["loud"]:
        lc = _enclosing_ifs(l, par, fn)
        if all(_enclosing_ifs(s, par, fn)[: len(lc)] == lc for s in uses["silent"]):
            return True, "a loudly failing use lies on every path that reaches the silent uses"
    return False, "only silent uses (membership tests, slices, ==) and no dominating range guard"


def rule_axis_range(model: Model) -> list[Ob]:
    obs = []
    for fn, param in AXIS_TABLE:
        k = f"{fn}:AXIS-RANGE:{param}"
        if not model.has_func(fn):
            obs.append(Ob("AXIS-RANGE", k, ERROR, "", fn, "function vanished"))
            continue
        f = model.func(fn)
        if param not in f.params():
            obs.append(Ob("AXIS-RANGE", k, ERROR, model.where(f), param, f"parameter {param} vanished from {fn}"))
            continue
        uses = classify_axis_uses(model, f, param)
        ok, why = axis_verdict(uses, _ancestors_map(f.node), f.node)
        sil = sorted({norm(_stmt_of(s, f.node))[:60] for s in uses["silent"]})[:4]
        if ok:
            obs.append(Ob("AXIS-RANGE", k, OK, model.where(f), param, why))
        else:
            obs.append(Ob("AXIS-RANGE", k, VIOLATED, model.where(f, uses["silent"][0]), param,
                          f"axis parameter `{param}` of {fn}: {why}; silent uses: {sil}. An out-of-range value is accepted "
                          "and an object is returned instead of an error"))
    return obs


def _stmt_of(node, fn):
    par = _ancestors_map(fn)
    cur = node
    while id(cur) in par and not isinstance(cur, ast.stmt):
        cur = par[id(cur)]
    if isinstance(cur, (ast.If, ast.For, ast.While)):
        return cur.test if hasattr(cur, "test") else cur.iter
    return cur


def verify_is_sparse_exception(model: Model) -> list[Ob]:
    """Re-verify the reason of the mat_to_tt exception: no call site passes is_sparse."""
    obs = []
    for target in ("torchtt._decomposition.mat_to_tt",):
        for f, call in common.call_sites(model, target):
            passes = any(kw.arg == "is_sparse" for kw in call.keywords) or len(call.args) > 5
            k = f"{f.short}:EXC-REASON:mat_to_tt-is_sparse:{norm(call)[:50]}"
            if passes and not all(isinstance(kw.value, ast.Constant) and kw.value.value is False
                                  for kw in call.keywords if kw.arg == "is_sparse"):
                obs.append(Ob("EXC-REASON", k, ERROR, model.where(f, call), norm(call)[:80],
                              "call site passes is_sparse: the DEFASSIGN exception for mat_to_tt no longer holds"))
            else:
                obs.append(Ob("EXC-REASON", k, OK, model.where(f, call), norm(call)[:80], "is_sparse not passed"))
    return obs


def check(model: Model, tier: str):
    live = common.live_functions(model)
    obs = []
    obs += rules.rule_unraised(model, live)
    obs += rules.rule_vacuous(model, live)
    obs += rules.rule_typecmp(model, live)
    table = rule_raise_table(model)
    obs += rule_axis_range(model)
    pub = common.public_entry_points(model)
    pubset = {f.qual for f in pub}
    armed = [f for f in pub if f.short not in common.BIG_SOLVER_BODIES]
    helpers = [model.func(s) for s in ("_decomposition.mat_to_tt", "_decomposition.to_tt", "_decomposition.round_tt",
                                       "_aux_ops.dense_matvec", "_aux_ops.apply_mask", "_aux_ops.bilinear_form_aux")
               if model.has_func(s)]
    obs += rules.rule_defassign(model, armed + helpers, DEFASSIGN_EXCEPTIONS)
    rest = [f for f in live if f.qual not in pubset and f not in helpers or f.short in common.BIG_SOLVER_BODIES]
    obs += [o for o in rules.rule_defassign(model, rest, DEFASSIGN_EXCEPTIONS, status=INFO) if o.status == INFO]
    obs += verify_is_sparse_exception(model)
    # O4: unification obligations from the contraction type checker
    try:
        from ..e5 import obligations as e5ob
    except ImportError:
        e5ob = None
    uni = e5ob.unification_obligations(model, tier) if e5ob is not None else []
    obs += uni
    # Size-compatibility entries of the raise table (ShapeMismatch / RankMismatch) are DECIDED for the functions that have E5 scenarios:
    # there every identification of two operand sizes needs a fact established by a guard on the path (E5-UNIFY), compatible operands must
    # be entailed on returning paths (compat) and incompatible kinds must raise (E5-RAISE).  Where the table cannot find "one raise per
    # entry" in such a function - guards merged into one test, moved into a helper with other parameter names - it reports INFO.
    by_func = {}
    for o in uni:
        by_func.setdefault(o.key.split(":", 1)[0], []).append(o)
    for o in table:
        if o.status in (VIOLATED, ERROR) and ("ShapeMismatch" in o.construct or "RankMismatch" in o.construct):
            fn = o.key.split(":RAISE-TABLE:", 1)[0]
            sem = by_func.get(fn, []) + by_func.get("torchtt." + fn, [])
            if sem and not any(x.status in (VIOLATED, ERROR) for x in sem) and any(x.rule == "E5-UNIFY" for x in sem):
                o.status = INFO
                o.detail = "structural reading inconclusive (size compatibility of this function is decided by evaluation: E5-UNIFY / compat / E5-RAISE): " + o.detail
    obs += table
    # Out-of-range positions are DECIDED by evaluating each function on a position outside 0..d-1 (must-raise scenarios); the classification
    # of the parameter's uses (AXIS-RANGE) is the structural cross-reference
    for o in obs:
        if o.rule == "AXIS-RANGE":
            names = AXIS_SCENARIOS.get(o.key.split(":AXIS-RANGE:")[0], ())
            sem = [x for x in uni if x.rule in ("E5-RAISE", "E5-CHAIN") and x.construct in names]
            if len({x.construct for x in sem}) == len(names) and names:
                common.cross_reference([o], sem, "the function is evaluated on positions outside 0..d-1: " + ", ".join(names))
    return obs, {"functions": sorted(f.short for f in live)}
