"""C10 - reshape, permute and QTT conversion: claimed at clause level."""
from __future__ import annotations

import ast
from fractions import Fraction

from .. import allowance as al
from .. import rules
from ..effects import Effects
from ..model import Model, norm, own_returns
from ..report import Ob, OK, VIOLATED, ERROR, INFO
from . import c01, common

META = {
    "explanation": "DECIDED BY EVALUATION (E5, ttsa/e5/scenarios8.py): reshape, to_qtt (tensors and square operators) and qtt_to_tens are walked - the real "
                   "merge/split loops, the constructor, to_tt / mat_to_tt with SVD and QR by their shape laws - on fixed shape pairs (aligned and "
                   "non-aligned factorisations, singleton modes in front / in the middle / at the end, powers of the mode size); every returning path must "
                   "produce exactly the requested modes, cores that chain with boundary rank 1, and use every input core (a dropped core loses its "
                   "sign / phase); shapes with no valid result must raise; one core exchange of permute is evaluated on every path of its branch. "
                   "The order of the elements inside a re-grouped mode is NOT decided (an index scramble that keeps all shapes is out of reach). "
                   "STRUCTURAL cross-references: (1) DRAIN - the merge/split loop of reshape walks a core cursor and a target "
                   "cursor; for each exit the other cursor must be drained: when the targets are exhausted the remaining "
                   "(singleton-mode) cores cores[idx:] are contracted into the last new core (they hold a sign/phase), when the "
                   "cores are exhausted the remaining unit targets are appended - for tensors and operators alike; (2) TARGET-MODE - "
                   "each emitted core takes its mode size from the current target entry; (3) allowances: permute truncates at "
                   "eps*||S||*d^(-3/2) (<= d(d-1)/2 swaps share eps: exponent of d <= -1), reshape splits at eps/sqrt(dfin-1) and "
                   "rounds once with eps; (4) GAUGE - both start from a right-to-left orthogonalisation of the operand with a fresh "
                   "rank list and never write the operand.",
    "assumptions": ["the eps bound itself and optimality of ranks are not decided", "element order inside a re-grouped mode is not decided (shapes, chaining and provenance are)"],
    "floors": {"EXACT-SPLIT": 1, "E5-CHAIN": 80, "DRAIN": 1, "E4-ALLOWANCE": 2, "E4-EPSFLOW": 2, "GAUGE": 2},
}
ANCHORS = ["_extras.reshape", "_extras.permute", "_tt_base.TT.to_qtt", "_tt_base.TT.qtt_to_tens"]


def _kind_branches(model):
    f = model.func("_extras.reshape")
    for s in f.node.body:
        if isinstance(s, ast.If) and norm(s.test) == "tens.is_ttm":
            return f, {"ttm": s.body, "tt": s.orelse}
    return f, None


def _names(model, f):
    """role names derived from the code: target shape parameter, orthogonalised core list, result list"""
    shape = f.params()[1]
    cores = None
    for st in f.node.body:
        if isinstance(st, ast.Assign) and isinstance(st.value, ast.Call) and model.resolve(f.module, st.value.func) == "torchtt._decomposition.rl_orthogonal" \
                and isinstance(st.targets[0], ast.Tuple) and isinstance(st.targets[0].elts[0], ast.Name):
            cores = st.targets[0].elts[0].id
    result = None
    for n in ast.walk(f.node):
        if isinstance(n, ast.Return) and n.value is not None:
            for c in ast.walk(n.value):
                if isinstance(c, ast.Call) and model.resolve(f.module, c.func) == "torchtt._tt_base.TT" and c.args and isinstance(c.args[0], ast.Name):
                    result = c.args[0].id
    # the result list may be built under another name and bound to the returned one afterwards (`cores_new = built`)
    results = {result} if result else set()
    grew = True
    while grew:
        grew = False
        for n in ast.walk(f.node):
            if isinstance(n, ast.Assign) and len(n.targets) == 1 and isinstance(n.targets[0], ast.Name) and n.targets[0].id in results \
                    and isinstance(n.value, ast.Name) and n.value.id not in results:
                results.add(n.value.id)
                grew = True
    return shape, cores, results


def _cmp_len(test, op_types, listname, nz=None):
    """Name compared with len(listname) (possibly len(...)-1) by one of op_types; returns the Name or None.  The right-hand side is read
    through single-assignment locals and lists that have one element per element of `listname` (ttsa.allowance.Normaliser.canon)"""
    if isinstance(test, ast.Compare) and len(test.ops) == 1 and isinstance(test.ops[0], op_types) and isinstance(test.left, ast.Name):
        r = (nz.canon(test.comparators[0]) if nz is not None else norm(test.comparators[0])).replace(" ", "")
        if r in (f"len({listname})", f"len({listname})-1"):
            return test.left.id
    return None


def rule_drain(model: Model):
    f, br = _kind_branches(model)
    if br is None:
        return [Ob("DRAIN", "_extras.reshape:DRAIN:dispatch", ERROR, model.where(f), "if tens.is_ttm", "kind dispatch not found")]
    shape, cores, results = _names(model, f)
    nz = al.Normaliser(model, f, ("eps",))
    obs = []
    if cores is None or not results:
        return [Ob("DRAIN", "_extras.reshape:DRAIN:roles", ERROR, model.where(f), "roles", "cannot identify the orthogonalised core list / result list")]
    for kind, stmts in br.items():
        loops = [s for s in stmts if isinstance(s, ast.While)]
        k0 = f"_extras.reshape:DRAIN:{kind}:"
        if not loops:
            obs.append(Ob("DRAIN", k0 + "loop", ERROR, model.where(f), "while True", "merge/split loop not found"))
            continue
        main = loops[0]
        tgt_breaks, tcur = [], None
        core_breaks, ccur = [], None
        for n in ast.walk(main):
            if isinstance(n, ast.If) and any(isinstance(x, ast.Break) for x in n.body):
                t = _cmp_len(n.test, (ast.Eq, ast.GtE), shape, nz)
                c = _cmp_len(n.test, (ast.Eq, ast.GtE), cores, nz)
                if t:
                    tgt_breaks.append(n)
                    tcur = t
                if c:
                    core_breaks.append(n)
                    ccur = c
        if not tgt_breaks or not core_breaks:
            obs.append(Ob("DRAIN", k0 + "exits", ERROR, model.where(f, main), "loop exits",
                          "the loop's exits (cursor == len(target shape) / cursor vs len(cores)) are not in a recognised form"))
            continue
        obs.append(Ob("DRAIN", k0 + "exit-present", OK, model.where(f, main), f"cursors `{ccur}` (cores) and `{tcur}` (targets)", "both exits recognised"))
        ok_a = True
        for n in tgt_breaks:
            absorbs = False
            for x in n.body:
                if isinstance(x, ast.For) and norm(x.iter).replace(" ", "") == f"{cores}[{ccur}:]" and isinstance(x.target, ast.Name):
                    tgt = x.target.id
                    for y in ast.walk(x):
                        for result in results:
                            if isinstance(y, ast.Assign) and norm(y.targets[0]).replace(" ", "") == f"{result}[-1]":
                                used = {z.id for z in ast.walk(y.value) if isinstance(z, ast.Name)}
                                if tgt in used and f"{result}[-1]" in norm(y.value).replace(" ", ""):
                                    absorbs = True
            ok_a = ok_a and absorbs
        obs.append(Ob("DRAIN", k0 + "targets-exhausted", OK if ok_a else VIOLATED, model.where(f, tgt_breaks[0]),
                      f"if {tcur} == len({shape}): absorb {cores}[{ccur}:]; break",
                      "remaining singleton-mode cores are contracted into the last new core" if ok_a else
                      f"when the target shape is exhausted the remaining cores {cores}[{ccur}:] are dropped; after orthogonalisation each holds a "
                      "unit-modulus scalar, so the result loses a sign / complex phase (e.g. [4,3,1] -> [12])"))
        after = stmts[stmts.index(main) + 1:]
        drain = [s for s in after if isinstance(s, ast.While) and _cmp_len(s.test, (ast.Lt,), shape, nz) == tcur
                 and any(isinstance(x, ast.Call) and isinstance(x.func, ast.Attribute) and x.func.attr == "append" and norm(x.func.value) in results
                         for x in ast.walk(s))]
        bump = any(isinstance(s, ast.AugAssign) and norm(s.target) == tcur for s in after)
        ok_b = bool(drain) and bump
        if not ok_b:
            # the same count as a for loop: range(cursor + 1, len(shape)) without the bump, or range(cursor, len(shape)) after it
            for s in after:
                if isinstance(s, ast.For) and isinstance(s.iter, ast.Call) and norm(s.iter.func) == "range" and len(s.iter.args) == 2 \
                        and nz.canon(s.iter.args[1]).replace(" ", "") == f"len({shape})" \
                        and any(isinstance(x, ast.Call) and isinstance(x.func, ast.Attribute) and x.func.attr == "append" and norm(x.func.value) in results
                                for x in ast.walk(s)):
                    lo = norm(s.iter.args[0]).replace(" ", "")
                    bumped_before = any(isinstance(b, ast.AugAssign) and norm(b.target) == tcur for b in after[:after.index(s)])
                    if (lo in (f"{tcur}+1", f"1+{tcur}") and not bumped_before) or (lo == tcur and bumped_before):
                        ok_b = True
        obs.append(Ob("DRAIN", k0 + "cores-exhausted", OK if ok_b else VIOLATED, model.where(f, main), f"while {tcur} < len({shape}): append unit core",
                      "remaining unit targets are appended" if ok_b else
                      "when the cores are exhausted the remaining (unit) target modes are not appended: the result has fewer modes than requested"))
    return obs


def rule_exact_split(model: Model):
    """EXACT-SPLIT (added after seed S3-C10-2).  reshape splits a (merged) core mode of size P into the requested size Q and the rest P // Q and
    reshapes the core accordingly; that is only a reshape of the same data when Q divides P.  Every floor quotient that reaches a reshape
    target must therefore be computed under a dominating test `P % Q == 0` (possibly one conjunct of it) over the same two quantities
    (locals are read through their definitions).  No `%` test at all in the function: the form of the guard is not recognised (exit 2)."""
    from ..model import call_args
    f = model.func("_extras.reshape")
    nz = al.Normaliser(model, f, ("eps",))
    obs = []
    parents = {}
    for n in ast.walk(f.node):
        for fld in ("body", "orelse"):
            for c in getattr(n, fld, []) if isinstance(getattr(n, fld, None), list) else []:
                parents[id(c)] = (n, fld)
    # names used inside reshape targets
    in_targets = set()
    for n in ast.walk(f.node):
        if isinstance(n, ast.Call):
            ra = call_args(n, "reshape")
            if ra and len(ra) >= 2:
                for x in ast.walk(ra[1]):
                    if isinstance(x, ast.Name):
                        in_targets.add(x.id)
    mods = []
    for n in ast.walk(f.node):
        if isinstance(n, ast.If):
            conj = n.test.values if isinstance(n.test, ast.BoolOp) and isinstance(n.test.op, ast.And) else [n.test]
            for t in conj:
                if isinstance(t, ast.Compare) and len(t.ops) == 1 and isinstance(t.ops[0], ast.Eq) and isinstance(t.left, ast.BinOp) and isinstance(t.left.op, ast.Mod) \
                        and isinstance(t.comparators[0], ast.Constant) and t.comparators[0].value == 0:
                    mods.append((n, nz.canon(t.left.left).replace(" ", ""), nz.canon(t.left.right).replace(" ", "")))
    quots = [n for n in ast.walk(f.node) if isinstance(n, ast.Assign) and len(n.targets) == 1 and isinstance(n.targets[0], ast.Name)
             and isinstance(n.value, ast.BinOp) and isinstance(n.value.op, ast.FloorDiv) and n.targets[0].id in in_targets]
    if not quots:
        return [Ob("EXACT-SPLIT", "_extras.reshape:EXACT-SPLIT", ERROR, model.where(f), "P // Q in a reshape target", "no floor quotient reaches a reshape target: the split of a mode was not recognised")]
    if not mods:
        return [Ob("EXACT-SPLIT", "_extras.reshape:EXACT-SPLIT", ERROR, model.where(f), "P % Q == 0", "no divisibility test of the form `P % Q == 0` was found in reshape")]
    for i, q in enumerate(quots):
        P_, Q_ = nz.canon(q.value.left).replace(" ", ""), nz.canon(q.value.right).replace(" ", "")
        ok = False
        cur = q
        while id(cur) in parents:
            par, fld = parents[id(cur)]
            if isinstance(par, ast.If) and fld == "body" and any(m[0] is par and m[1] == P_ and m[2] == Q_ for m in mods):
                ok = True
                break
            cur = par
        obs.append(Ob("EXACT-SPLIT", f"_extras.reshape:EXACT-SPLIT:{q.targets[0].id}:{i}", OK if ok else VIOLATED, model.where(f, q), norm(q),
                      f"computed under `{P_} % {Q_} == 0`" if ok else
                      f"`{norm(q)}` reaches a reshape target without a dominating test `{P_} % {Q_} == 0`: when the requested mode does not divide the "
                      "(merged) core mode the reshape regroups other data - the result has wrong modes / values or torch raises"))
    return obs


def rule_gauge(model: Model):
    obs = []
    for fn in ("_extras.reshape", "_extras.permute"):
        f = model.func(fn)
        arg = f.params()[0]
        calls = [(i, s) for i, s in enumerate(f.node.body) if isinstance(s, ast.Assign) and isinstance(s.value, ast.Call)
                 and model.resolve(f.module, s.value.func) == "torchtt._decomposition.rl_orthogonal"]
        k = f"{fn}:GAUGE:rl_orthogonal"
        ok = False
        if calls:
            i, s = calls[0]
            from ..model import bound_args
            ba = bound_args(model.functions["torchtt._decomposition.rl_orthogonal"], s.value) or {}
            a = [norm(x) for x in list(ba.values())[:3]] if len(ba) >= 3 else [norm(x) for x in s.value.args]
            first_loop = min([j for j, t in enumerate(f.node.body) if isinstance(t, (ast.While, ast.For, ast.If)) and
                              any(isinstance(x, (ast.While, ast.For)) for x in ast.walk(t))] or [10 ** 6])
            ok = a[:3] == [f"{arg}.cores", f"{arg}.R", f"{arg}.is_ttm"] and i < first_loop and isinstance(s.targets[0], ast.Tuple)
        obs.append(Ob("GAUGE", k, OK if ok else VIOLATED, model.where(f), f"cores, R = rl_orthogonal({arg}.cores, {arg}.R, {arg}.is_ttm)",
                      "starts from a right-to-left orthogonalisation with a fresh rank list" if ok else
                      "the sweep no longer starts from rl_orthogonal(operand cores, fresh rank list): the per-bond SVD truncations are not "
                      "measured in an orthogonal gauge"))
    return obs


def check(model: Model, tier: str):
    obs = []
    model.use_inlined("_extras.reshape", "_extras.permute")
    obs += rule_drain(model)
    obs += c01.allowance_sites(model, "_extras.permute", {"re:" + c01.ORDER: Fraction(-1)})
    # any direct rank selection inside reshape must use a relative allowance shared among the dfin-1 bonds of the result
    obs += c01.allowance_sites(model, "_extras.reshape", {"re:\\(len\\(shape\\) - 1\\)": Fraction(-1, 2)})
    obs += c01.eps_flow(model, "_extras.reshape", "torchtt._decomposition.to_tt")
    obs += c01.eps_flow(model, "_extras.reshape", "torchtt._decomposition.mat_to_tt")
    # the split tolerance is shared among the dfin-1 bonds of the result
    f = model.func("_extras.reshape")
    nz = al.Normaliser(model, f, ("eps",))
    for q in ("torchtt._decomposition.to_tt", "torchtt._decomposition.mat_to_tt"):
        for call in al.find_calls(model, f, q):
            cal = model.functions[q].params()
            idx = cal.index("eps")
            arg = call.args[idx] if idx < len(call.args) else None
            ms = nz.monos(arg, nz.env_at(call)) if arg is not None else None
            k = f"_extras.reshape:E4-ALLOWANCE:{q.rsplit('.', 1)[-1]}"
            if ms is None:
                obs.append(Ob("E4-ALLOWANCE", k, ERROR, model.where(f, call), norm(call)[:80], "eps argument not modelled"))
                continue
            ok = all(any(m.exps.get(a, 0) <= Fraction(-1, 2) for a in ("(len(shape) - 1)", "len(shape)")) for m in ms)
            obs.append(Ob("E4-ALLOWANCE", k, OK if ok else VIOLATED, model.where(f, call), norm(arg),
                          " | ".join(m.show() for m in ms) if ok else
                          f"split tolerance {[m.show() for m in ms]} is not divided among the dfin-1 bonds of the result (need exponent <= -1/2)"))
    # final rounding with the caller's eps
    rets = [n for n in own_returns(f.node)]
    okr = rets and isinstance(rets[-1].value, ast.Call) and isinstance(rets[-1].value.func, ast.Attribute) and rets[-1].value.func.attr == "round" \
        and rets[-1].value.args and norm(rets[-1].value.args[0]) == "eps"
    obs.append(Ob("E4-EPSFLOW", "_extras.reshape:E4-EPSFLOW:final-round", OK if okr else VIOLATED, model.where(f), "return TT(cores_new).round(eps)",
                  "one final rounding with the caller's eps" if okr else "the final rounding does not use the caller's eps"))
    obs += rule_gauge(model)
    obs += rule_exact_split(model)
    # the caller's rmax reaches every split (added after seed S4-C10-2: a split that falls back on to_tt's own default cap of 100 truncates)
    fr = model.func("_extras.reshape")
    for q in ("torchtt._decomposition.to_tt", "torchtt._decomposition.mat_to_tt"):
        for i, call in enumerate(al.find_calls(model, fr, q)):
            cal = model.functions[q].params()
            idx = cal.index("rmax") if "rmax" in cal else None
            arg = call.args[idx] if idx is not None and idx < len(call.args) else next((kw.value for kw in call.keywords if kw.arg == "rmax"), None)
            passes = isinstance(arg, ast.Name) and arg.id in fr.params()
            obs.append(Ob("E4-EPSFLOW", f"_extras.reshape:E4-EPSFLOW:rmax:{q.rsplit('.', 1)[-1]}:{i}", OK if passes else VIOLATED, model.where(fr, call), norm(call)[:90],
                          "the caller's rmax is handed to the split" if passes else
                          f"this split does not receive the caller's rmax (argument: {norm(arg) if arg is not None else 'missing - the callee default applies'}): ranks "
                          "above the callee's default cap are cut although the caller allowed them, and the eps bound is lost"))
    from ..e5 import obligations as e5ob
    sem = e5ob.for_property(model, "C10", tier)       # permute: the contract of one core exchange; reshape / to_qtt: walked on fixed factorisations
    # The termination branches of the merge / split loop (DRAIN) and the divisibility of every split (EXACT-SPLIT) are DECIDED by walking the
    # real loop on fixed shape pairs - aligned and non-aligned factorisations, singleton modes in front, in the middle and at the end, tensors
    # and operators; the structural readings of the loop are the cross-reference
    rs = [o for o in sem if ":reshape" in o.key or o.construct.startswith("reshape")]
    import re
    names = {m.group(0) for o in rs for m in [re.match(r"reshape(\.ttm)?:\[[^\]]*\]->\[[^\]]*\]", o.construct)] if m}
    if len(names) >= 20:
        common.cross_reference([o for o in obs if o.rule in ("DRAIN", "EXACT-SPLIT")], rs, "reshape is evaluated on fixed shape pairs (ttsa/e5/scenarios8.py)")
    obs += sem
    from ..adjoint import rule_adjoint, self_fixture
    obs += rule_adjoint(model, [model.func("_extras.permute"), model.func("_extras.reshape")])
    fx = self_fixture()
    okfx = any(o.status == VIOLATED for o in fx["p"]) and all(o.status == OK for o in fx["q"])
    obs.append(Ob("ADJOINT", "fixture:ADJOINT:positive-example", OK if okfx else ERROR, "ttsa/adjoint.py", "self_fixture",
                  "the built-in positive example is flagged and its conjugated twin is not" if okfx else "the ADJOINT rule no longer recognises its positive example"))
    eng = Effects(model)
    for fn in ("_extras.reshape", "_extras.permute", "_tt_base.TT.to_qtt", "_tt_base.TT.qtt_to_tens"):
        fo = model.func(fn)
        s = eng.summary(fo)
        for p in fo.params()[:1]:
            effs = [e for e in s.effects if e.param == p]
            obs.append(Ob("E3-PARAM", f"{fn}:E3-PARAM:{p}", VIOLATED if effs else OK, effs[0].where if effs else model.where(fo), p,
                          f"writes through `{p}`: {effs[0].construct}" if effs else "operand not written"))
    scope = [model.func(a) for a in ANCHORS]
    obs += rules.rule_unres(model, scope)
    from . import c18
    obs += rules.rule_defassign(model, [model.func("_extras.permute"), model.func("_tt_base.TT.to_qtt"), model.func("_tt_base.TT.qtt_to_tens")],
                                c18.DEFASSIGN_EXCEPTIONS)
    return obs, {"functions": ANCHORS}
