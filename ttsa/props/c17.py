"""C17 - compiled backend: claimed only for interface / sibling clauses (agreement of results needs both backends to run)."""
from __future__ import annotations

import ast
import re
from fractions import Fraction

from ..cpp import CppUnit, CppUnmodelled, pybind_exports, defines, kind_of_type, parse_expr, statements, strip_comments
from ..model import Model, norm
from ..report import Ob, OK, VIOLATED, ERROR, INFO

META = {
    "explanation": "Decides, from the Python and the C++ sources alone: (B1) every torchttcpp.<f>(...) call names a function exported in "
                   "PYBIND11_MODULE, passes as many arguments as the C++ function takes, of the matching kind (list of tensors / list of ints / "
                   "int / float / bool) and - by the confirmed role table - the matching quantity at each position; (B2) the preconditioner "
                   "codes passed by Python (None, 'c', 'r') are the values of NO_PREC / C_PREC / R_PREC and the C++ operator object takes the "
                   "central / right Jacobi branch for exactly these; (B3) the C++ local product, interface recursions, operator object "
                   "(setter, apply_prec, matvec with both preconditioners) and dense local matrix denote the same contraction networks as "
                   "specified for the Python siblings (E5 on a tolerant reading of cpp/*.h, layout-agnostic); the residual tolerance "
                   "real_tol = eps/sqrt(d)/damp with damp = 2 and the homogeneous rank-selection test (sum of squares against eps^2) agree; "
                   "(B4) dispatch: the compiled path is taken only under `use_cpp and _flag_use_cpp`, every rejection of operands / options "
                   "happens before the backend is chosen (both backends accept the same inputs), results are wrapped by TT(list(...)). "
                   "Does NOT decide agreement of the computed results nor the accuracy contracts of the compiled code.",
    "assumptions": ["the C++ sources are read by a tolerant parser for the constructs they use today; anything else is an analysis error",
                    "square local problems in the C++ operator object (its result is flattened with the shape of its argument)"],
    "floors": {"BIND": 2, "BIND-ARG": 29, "DISPATCH": 4, "E5-CHAIN": 14, "CPP-CONST": 3},
}
ANCHORS = ["solvers.amen_solve", "_dmrg.dmrg_matvec", "solvers._amen_solve_python", "_dmrg.dmrg_matvec_python"]

# role of each positional argument (confirmed by reading both sides); python expression -> role ; C++ parameter name -> role
PY_ROLE = {"A.cores": "cores(A)", "b.cores": "cores(b)", "x_cores": "cores(x0)", "x.cores": "cores(x)", "y0.cores": "cores(y0)",
           "b.N": "modes", "A.N": "modes", "A.M": "row-modes", "A.R": "ranks(A)", "b.R": "ranks(b)", "x.R": "ranks(x)", "x_R": "ranks(x0)", "y0.R": "ranks(y0)",
           "nswp": "nswp", "eps": "eps", "rmax": "rmax", "max_full": "max_full", "kickrank": "kickrank", "kick2": "kick2",
           "local_iterations": "local_iterations", "resets": "resets", "verbose": "verbose", "verb": "verbose", "prec": "preconditioner"}
CPP_ROLE = {"amen_solve": {"A_cores": "cores(A)", "b_cores": "cores(b)", "x0_cores": "cores(x0)", "N": "modes", "rA": "ranks(A)", "rb": "ranks(b)",
                           "r_x0": "ranks(x0)", "nswp": "nswp", "eps": "eps", "rmax": "rmax", "max_full": "max_full", "kickrank": "kickrank", "kick2": "kick2",
                           "local_iterations": "local_iterations", "resets": "resets", "verbose": "verbose", "preconditioner": "preconditioner"},
            "dmrg_mv": {"A_cores": "cores(A)", "x_cores": "cores(x)", "y0_cores": "cores(y0)", "M": "row-modes", "N": "modes", "rx": "ranks(x)", "ry0": "ranks(y0)",
                        "nswp": "nswp", "eps": "eps", "rmax": "rmax", "kickrank": "kickrank", "verb": "verbose"}}
PY_KIND = {"cores": "tensors", "modes": "ints", "row-modes": "ints", "ranks": "ints", "nswp": "int", "eps": "float", "rmax": "int", "max_full": "int",
           "kickrank": "int", "kick2": "int", "local_iterations": "int", "resets": "int", "verbose": "bool", "preconditioner": "int"}


def _py_role(e: ast.AST, fnode=None, depth=0):
    """role of a python argument expression; `[] if y0 is None else y0.cores` -> role of the non-empty alternative; a local name takes
    the role of what is assigned to it (`x_cores = x0.cores` / `[]`, `prec = 0 | 1 | 2` under tests of `preconditioner`)"""
    if isinstance(e, ast.IfExp):
        a, b = _py_role(e.body, fnode, depth), _py_role(e.orelse, fnode, depth)
        return b if a in (None, "empty") else a
    if isinstance(e, ast.List) and not e.elts:
        return "empty"
    t = norm(e)
    t = {"x0.cores": "x_cores", "x0.R": "x_R"}.get(t, t)
    if t in PY_ROLE:
        return PY_ROLE[t]
    if isinstance(e, ast.Name) and fnode is not None and depth < 2:
        roles = set()
        defs = []
        for n in ast.walk(fnode):
            if isinstance(n, ast.Assign) and len(n.targets) == 1:
                t0 = n.targets[0]
                if isinstance(t0, ast.Name) and t0.id == e.id:
                    defs.append(n.value)
                elif isinstance(t0, ast.Tuple) and isinstance(n.value, ast.Tuple) and len(t0.elts) == len(n.value.elts):
                    # a, b = x.cores, x.R
                    defs += [v for t, v in zip(t0.elts, n.value.elts) if isinstance(t, ast.Name) and t.id == e.id]
        for v in defs:
            if True:
                if isinstance(v, ast.Constant) and isinstance(v.value, int):
                    roles.add("const-int")
                elif isinstance(v, ast.BinOp) and isinstance(v.op, ast.Mult) and any(isinstance(x, ast.List) for x in (v.left, v.right)):
                    roles.add("empty")          # [1] * (1 + len(A.N)): the ranks of the default (empty) initial guess
                else:
                    roles.add(_py_role(v, fnode, depth + 1))
        roles.discard("empty")
        if roles == {"const-int"}:
            tests = [norm(x.test) for x in ast.walk(fnode) if isinstance(x, ast.If)]
            if any("preconditioner" in x for x in tests):
                return "preconditioner"
        if len(roles) == 1 and None not in roles and "const-int" not in roles:
            return next(iter(roles))
    return None


def rule_bind(model: Model, unit: CppUnit):
    obs = []
    ext = unit.files.get("cpp_ext.cpp")
    if ext is None:
        return [Ob("BIND", "cpp:BIND:ext", ERROR, "cpp/cpp_ext.cpp", "PYBIND11_MODULE", "cpp/cpp_ext.cpp not found")]
    exports = dict(pybind_exports(ext))
    for fs in ("solvers.amen_solve", "_dmrg.dmrg_matvec"):
        f = model.func(fs)
        calls = [n for n in ast.walk(f.node) if isinstance(n, ast.Call) and isinstance(n.func, ast.Attribute) and isinstance(n.func.value, ast.Name)
                 and n.func.value.id == "torchttcpp"]
        if not calls:
            obs.append(Ob("BIND", f"{fs}:BIND:call", ERROR, model.where(f), fs, "no torchttcpp call found in the dispatcher"))
            continue
        for c in calls:
            pyname = c.func.attr
            k = f"{fs}:BIND:{pyname}"
            if pyname not in exports:
                obs.append(Ob("BIND", k, VIOLATED, model.where(f, c), f"torchttcpp.{pyname}",
                              f"{fs} calls torchttcpp.{pyname}, which PYBIND11_MODULE does not export (exported: {sorted(exports)}): AttributeError when the backend is enabled"))
                continue
            cands = [cf for (fl, cls, nm), cf in unit.funcs.items() if nm == exports[pyname] and cls is None and fl != "amen_divide.h"]
            if not cands:
                obs.append(Ob("BIND", k, ERROR, model.where(f, c), pyname, f"C++ function {exports[pyname]} not found"))
                continue
            cf = cands[0]
            obs.append(Ob("BIND", k, OK, model.where(f, c), f"torchttcpp.{pyname} -> {cf.file}:{cf.line}", "exported and defined"))
            if c.keywords:
                obs.append(Ob("BIND-ARG", k + ":kw", VIOLATED, model.where(f, c), pyname, "keyword arguments are passed to a pybind function bound without argument names"))
            if len(c.args) != len(cf.params):
                obs.append(Ob("BIND-ARG", k + ":arity", VIOLATED, model.where(f, c), pyname,
                              f"{fs} passes {len(c.args)} positional arguments to {cf.name}, which takes {len(cf.params)} (cpp/{cf.file}:{cf.line}): TypeError when the backend is enabled"))
                continue
            roles = CPP_ROLE.get(cf.name, {})
            pinned = list(roles.values())         # role of each position on the pinned tree
            for i, (a, (ctype, cname)) in enumerate(zip(c.args, cf.params)):
                kk = f"{k}:arg{i}"
                pr = _py_role(a, f.node)
                cr = roles.get(cname)
                if cr is None and i < len(pinned) and PY_KIND.get(pinned[i].split("(")[0], "?") == kind_of_type(ctype):
                    cr = pinned[i]            # a renamed C++ parameter: same position, same kind as confirmed
                ckind = kind_of_type(ctype)
                if pr is None or cr is None or ckind == "?":
                    obs.append(Ob("BIND-ARG", kk, ERROR, model.where(f, c), f"{norm(a)} -> {ctype} {cname}",
                                  f"argument {i}: python expression `{norm(a)}` / C++ parameter `{ctype} {cname}` is not in the confirmed role table"))
                    continue
                pkind = PY_KIND.get(pr.split("(")[0], "?")
                if pr != cr:
                    obs.append(Ob("BIND-ARG", kk, VIOLATED, model.where(f, c), f"{norm(a)} -> {cname}",
                                  f"{fs}: positional argument {i} of torchttcpp.{pyname} is `{norm(a)}` ({pr}) but the C++ parameter at that position is "
                                  f"`{cname}` ({cr}): the backend receives the wrong quantity"))
                elif pkind != ckind:
                    obs.append(Ob("BIND-ARG", kk, VIOLATED, model.where(f, c), f"{norm(a)} -> {ctype} {cname}",
                                  f"{fs}: argument {i} `{norm(a)}` is a {pkind} but the C++ parameter `{cname}` is declared {ctype} ({ckind})"))
                else:
                    obs.append(Ob("BIND-ARG", kk, OK, model.where(f, c), f"{norm(a)} -> {ctype} {cname}", f"{pr}, {ckind}"))
    return obs


def rule_prec_table(model: Model, unit: CppUnit):
    obs = []
    f = model.func("solvers.amen_solve")
    consts = {}
    for src in unit.files.values():
        consts.update(defines(src))
    want = {"None": "NO_PREC", "'c'": "C_PREC", "'r'": "R_PREC"}
    # the code variable: whatever is passed at the position of the C++ parameter `preconditioner` (the last one)
    pv = "prec"
    for n in ast.walk(f.node):
        if isinstance(n, ast.Call) and isinstance(n.func, ast.Attribute) and isinstance(n.func.value, ast.Name) and n.func.value.id == "torchttcpp" \
                and n.func.attr == "amen_solve" and n.args and isinstance(n.args[-1], ast.Name):
            pv = n.args[-1].id
    # python: value of that variable per preconditioner value (if / elif chain)
    table = {}
    covered = set()
    for n in ast.walk(f.node):
        if isinstance(n, ast.If):
            chain, cur = [], n
            while True:
                chain.append(cur)
                if len(cur.orelse) == 1 and isinstance(cur.orelse[0], ast.If):
                    cur = cur.orelse[0]
                else:
                    break
            if id(n) in covered:
                continue
            vals = {}
            for c in chain:
                covered.add(id(c))
                t = c.test
                if isinstance(t, ast.Compare) and norm(t.left) == "preconditioner" and len(t.comparators) == 1 and isinstance(t.comparators[0], ast.Constant):
                    for s in c.body:
                        if isinstance(s, ast.Assign) and norm(s.targets[0]) == pv and isinstance(s.value, ast.Constant):
                            vals[repr(t.comparators[0].value)] = s.value.value
            last = chain[-1]
            for s in last.orelse:
                if isinstance(s, ast.Assign) and norm(s.targets[0]) == pv and isinstance(s.value, ast.Constant):
                    vals["<else>"] = s.value.value
            if vals:
                table = vals
    if not table:
        return [Ob("PREC-TABLE", "solvers.amen_solve:PREC-TABLE", ERROR, model.where(f), "prec", "mapping preconditioner -> code not found")]
    # the validation guard restricts the else branch to the remaining documented value
    remaining = [k for k in want if k not in table]
    if "<else>" in table and len(remaining) == 1:
        table[remaining[0]] = table.pop("<else>")
    for pyv, cname in want.items():
        k = f"solvers.amen_solve:PREC-TABLE:{pyv}"
        if cname not in consts:
            obs.append(Ob("PREC-TABLE", k, ERROR, "cpp/define.h", cname, f"{cname} is not #defined"))
            continue
        if pyv not in table:
            obs.append(Ob("PREC-TABLE", k, VIOLATED, model.where(f), f"preconditioner == {pyv}", f"no code is assigned for preconditioner {pyv}"))
            continue
        ok = str(table[pyv]) == consts[cname]
        obs.append(Ob("PREC-TABLE", k, OK if ok else VIOLATED, model.where(f), f"{pyv} -> {table[pyv]} ; {cname} = {consts[cname]}",
                      "codes agree" if ok else
                      f"Python passes {table[pyv]} for preconditioner {pyv}, but the C++ backend selects that preconditioner with {cname} = {consts[cname]}: "
                      "the compiled solver runs with a different preconditioner than requested"))
    return obs


def _split_dispatch(f):
    """(branch node, condition for the compiled path as (polarity, test), statements of the compiled path, statements of the python path).
    Recognises `if C: <cpp> else: <py>` and the early-return forms `if not C: return <py>` ; <cpp>  /  `if C: <cpp, returns>` ; <py>."""
    body = f.node.body
    for i, st in enumerate(body):
        if isinstance(st, ast.If) and any(isinstance(x, ast.Name) and x.id == "_flag_use_cpp" for x in ast.walk(st.test)):
            test, pol = st.test, True
            while isinstance(test, ast.UnaryOp) and isinstance(test.op, ast.Not):
                test, pol = test.operand, not pol
            then, other = st.body, st.orelse
            if not other:
                ends = bool(then) and isinstance(then[-1], (ast.Return, ast.Raise))
                if not ends:
                    return None
                other = body[i + 1:]
            cpp, py = (then, other) if pol else (other, then)
            return st, test, cpp, py
    return None


def rule_dispatch(model: Model):
    obs = []
    for fs, pyimpl in (("solvers.amen_solve", "_amen_solve_python"), ("_dmrg.dmrg_matvec", "dmrg_matvec_python")):
        f = model.func(fs)
        k = f"{fs}:DISPATCH"
        sp = _split_dispatch(f)
        if sp is None:
            obs.append(Ob("DISPATCH", k + ":branch", ERROR, model.where(f), fs, "backend branch on `use_cpp and _flag_use_cpp` not found at the top level"))
            continue
        br, test, cpp_side, py_side = sp
        names = {x.id for x in ast.walk(test) if isinstance(x, ast.Name)}
        conj = isinstance(test, ast.BoolOp) and isinstance(test.op, ast.And)
        ok = conj and {"use_cpp", "_flag_use_cpp"} <= names
        obs.append(Ob("DISPATCH", k + ":condition", OK if ok else VIOLATED, model.where(f, br), norm(br.test),
                      "compiled path only when requested and available" if ok else
                      f"the compiled path is selected by `{norm(test)}`: it must require both the caller's use_cpp and the import flag "
                      "(otherwise NameError without the extension, or the flag is ignored)"))
        raises = [x for st in cpp_side for x in ast.walk(st) if isinstance(x, ast.Raise)]
        raises += [x for st in py_side for x in ast.walk(st) if isinstance(x, ast.Raise)]
        obs.append(Ob("DISPATCH", k + ":common-validation", VIOLATED if raises else OK, model.where(f, raises[0]) if raises else model.where(f, br),
                      norm(raises[0])[:80] if raises else "all rejections precede the backend choice",
                      f"{fs} rejects an input (`{norm(raises[0])[:80]}`) inside one backend branch only: the other backend accepts the same input, "
                      "so the two backends do not accept the same inputs" if raises else "validation is common to both backends"))
        calls_py = any(isinstance(x, ast.Call) and norm(x.func).endswith(pyimpl) for st in py_side for x in ast.walk(st))
        uses_cpp = any(isinstance(x, ast.Attribute) and isinstance(x.value, ast.Name) and x.value.id == "torchttcpp" for st in cpp_side for x in ast.walk(st))
        cpp_ret = [x for st in cpp_side for x in ast.walk(st) if isinstance(x, ast.Return)]
        wrapped = bool(cpp_ret) and all(isinstance(r.value, ast.Call) and norm(r.value.func).endswith("TT") for r in cpp_ret)
        good = calls_py and wrapped and uses_cpp
        obs.append(Ob("DISPATCH", k + ":paths", OK if good else VIOLATED, model.where(f, br), "python path -> python implementation; compiled path -> TT(list(cores))",
                      "both paths return a TT object" if good else
                      "the dispatcher no longer falls back to the Python implementation / no longer calls the extension on the compiled path / no longer wraps its result in TT(...)"))
    return obs


# --------------------------------------------------------------------------- constants and the rank selector

def _monomial(expr_text):
    """normal form {atom: exponent} of a product/quotient expression in C++ or Python syntax (sqrt -> exponent 1/2)"""
    t = expr_text.replace("std::sqrt", "sqrt").replace("np.sqrt", "sqrt").replace("tn.sqrt", "sqrt").replace("(double)", "")
    e = parse_expr(t)

    def go(x, sign):
        if x[0] == "num":
            return {} if float(x[1]) == 1 else {f"#{float(x[1]):g}": sign}
        if x[0] == "id":
            return {x[1]: sign}
        if x[0] == "binop" and x[1] in "*/":
            a = go(x[2], sign)
            b = go(x[3], sign if x[1] == "*" else -sign)
            for k, v in b.items():
                a[k] = a.get(k, 0) + v
            return a
        if x[0] == "call" and x[1] == "sqrt" and len(x[2]) == 1:
            return {k: v * Fraction(1, 2) for k, v in go(x[2][0], sign).items()}
        raise CppUnmodelled(f"not a monomial: {expr_text}")
    return {k: v for k, v in go(e, Fraction(1)).items() if v != 0}


def rule_constants(model: Model, unit: CppUnit):
    obs = []
    f = model.func("solvers._amen_solve_python")
    try:
        cf = unit.func("amen_solve.h", "amen_solve")
    except CppUnmodelled as e:
        return [Ob("CPP-CONST", "cpp:CPP-CONST:amen_solve", ERROR, "cpp/amen_solve.h", "amen_solve", str(e))]
    # python: the local tolerance of the local solves is recognised by its normal form (eps^1 * order^-1/2 * constant), whatever it is called
    from .. import allowance as al
    epsname = "eps"
    pub = model.func("solvers.amen_solve")
    for c in ast.walk(pub.node):
        if isinstance(c, ast.Call) and norm(c.func).endswith("_amen_solve_python"):
            for i, a in enumerate(c.args):
                if isinstance(a, ast.Name) and a.id == "eps" and i < len(f.params()):
                    epsname = f.params()[i]
    nz = al.Normaliser(model, f, (epsname,))
    py_forms = []
    for n in ast.walk(f.node):
        if isinstance(n, ast.Assign) and len(n.targets) == 1 and isinstance(n.targets[0], ast.Name):
            ms = nz.monos(n.value, nz.env_at(n))
            if ms and len(ms) == 1 and ms[0].exps.get("EPS:" + epsname) == 1 and any(k_.startswith("len(") and v == Fraction(-1, 2) for k_, v in ms[0].exps.items()) \
                    and len(ms[0].exps) == 2:
                py_forms.append((n, ms[0]))
    cpp_defs = {m.group(1): m.group(2).strip() for m in re.finditer(r"\b(?:double|auto|float|int|uint64_t)\s+(\w+)\s*=\s*([^;]+);", cf.body)}
    k = "cpp:CPP-CONST:real_tol"
    cpp_tol = [(nm, tx) for nm, tx in cpp_defs.items() if re.search(r"\beps\b", tx) and "sqrt" in tx]
    if not py_forms or not cpp_tol:
        obs.append(Ob("CPP-CONST", k, ERROR, f"cpp/{cf.file}", "local tolerance", f"the tolerance of the local solves (eps / sqrt(d) / damp) was not recognised on both sides "
                      f"(python: {[norm(n) for n, _ in py_forms]}, C++: {cpp_tol})"))
    else:
        pn, pm = py_forms[0]
        try:
            cm = _monomial(cpp_tol[0][1])
            coef = Fraction(1)
            exps = {}
            for a_, v in cm.items():
                if a_.startswith("#"):
                    coef *= Fraction(a_[1:]) ** int(v) if v.denominator == 1 else Fraction(1)
                elif a_ in cpp_defs and re.fullmatch(r"[\d.]+", cpp_defs[a_]):
                    coef *= Fraction(cpp_defs[a_]) ** int(v)
                else:
                    exps[a_] = v
            same = coef == pm.coef and exps.get("eps") == 1 and sorted(v for k_, v in exps.items() if k_ != "eps") == [Fraction(-1, 2)]
            obs.append(Ob("CPP-CONST", k, OK if same else VIOLATED, f"cpp/{cf.file}:{cf.line}", f"{norm(pn)}  |  {cpp_tol[0][0]} = {cpp_tol[0][1]}",
                          f"both sides use {pm.show()}" if same else
                          f"the tolerance of the local solves differs between the backends: Python `{norm(pn)}` normalises to {pm.show()}, C++ `{cpp_tol[0][1]}` to "
                          f"{coef} * {exps}: the local solves and truncations of the compiled solver work to a different tolerance"))
        except CppUnmodelled as e:
            obs.append(Ob("CPP-CONST", k, ERROR, f"cpp/{cf.file}", "local tolerance", str(e)))
    # the damping factor itself (used in the truncation test): a numeric constant on both sides, same value
    k = "cpp:CPP-CONST:damp"
    from ..e5.interp import _fold_const

    def _num(v):
        if isinstance(v, ast.Name) and v.id in f.module.global_consts:
            v = f.module.global_consts[v.id]       # damp = _RESIDUAL_DAMP: a module constant bound once
        return _fold_const(v)
    py_consts = {n.targets[0].id: _num(n.value) for n in f.node.body if isinstance(n, ast.Assign) and isinstance(n.targets[0], ast.Name)
                 and _num(n.value) is not None}
    used = set()
    for n, _ in py_forms:
        used |= {x.id for x in ast.walk(n.value) if isinstance(x, ast.Name) and x.id in py_consts}
    cused = {nm for nm in cpp_defs if cpp_tol and re.search(r"\b" + nm + r"\b", cpp_tol[0][1]) and re.fullmatch(r"[\d.]+", cpp_defs[nm])}
    if len(used) == 1 and len(cused) == 1:
        a_, b_ = py_consts[next(iter(used))], float(cpp_defs[next(iter(cused))])
        obs.append(Ob("CPP-CONST", k, OK if float(a_) == b_ else VIOLATED, f"cpp/{cf.file}:{cf.line}", f"damping factor {a_} | {b_}",
                      "same damping factor" if float(a_) == b_ else f"the damping factor differs between the backends (Python {a_}, C++ {b_})"))
    else:
        obs.append(Ob("CPP-CONST", k, ERROR, f"cpp/{cf.file}", "damping factor", f"damping constant not recognised (python {sorted(used)}, C++ {sorted(cused)})"))
    # rank selector: homogeneous test (sum of squares against eps squared)
    try:
        rc = unit.func("ortho.h", "rank_chop")
        body = rc.body
        acc = re.search(r"(\w+)\s*\+=\s*([^;]+);", body)
        test = re.search(r"if\s*\(\s*(\w+)\s*(>=|>|<=|<)\s*([^)]+)\)\s*break", body)
        k = "cpp:CPP-CONST:rank_chop"
        if not acc or not test or acc.group(1) != test.group(1):
            obs.append(Ob("CPP-CONST", k, ERROR, f"cpp/{rc.file}:{rc.line}", "rank_chop", "accumulate-and-compare loop not recognised"))
        else:
            sname = [t for t, n in rc.params if "Tensor" in t]
            deg_acc = len(re.findall(r"\bss\s*\[", acc.group(2)))
            thr = _monomial(test.group(3))
            deg_thr = thr.get("eps", 0)
            ok = deg_acc == deg_thr and test.group(2) in (">=", ">") and deg_acc == 2
            obs.append(Ob("CPP-CONST", k, OK if ok else VIOLATED, f"cpp/{rc.file}:{rc.line}", f"{acc.group(0)} ... {test.group(0)}",
                          "tail energy (degree 2 in the singular values) compared with eps^2; stop when it reaches the allowance" if ok else
                          f"the C++ rank selector accumulates a degree-{deg_acc} quantity in the singular values and compares it ({test.group(2)}) with a "
                          f"degree-{deg_thr} quantity in eps: the Python selector keeps the smallest rank whose discarded energy sum(s_j^2) stays below eps^2"))
    except CppUnmodelled as e:
        obs.append(Ob("CPP-CONST", "cpp:CPP-CONST:rank_chop", ERROR, "cpp/ortho.h", "rank_chop", str(e)))
    return obs


def check(model: Model, tier: str):
    from ..e5 import obligations as e5ob
    unit = CppUnit(model.repo)
    model._cpp_unit = unit
    obs = []
    if not unit.files:
        return [Ob("BIND", "cpp:BIND:sources", ERROR, "cpp/", "cpp", "C++ sources not found")], {}
    obs += rule_bind(model, unit)
    sem = e5ob.for_property(model, "C17", tier)
    from .common import cross_reference
    # which code reaches the compiled solver for each preconditioner is decided by evaluating amen_solve with the backend enabled
    # (e5/scenarios6.py, amen_solve.cpp-dispatch); the reading of the if/elif table is the cross-reference
    obs += cross_reference(rule_prec_table(model, unit), [o for o in sem if "cpp-dispatch" in o.key], "E5 scenarios amen_solve.cpp-dispatch")
    obs += rule_dispatch(model)
    obs += rule_constants(model, unit)
    obs += sem
    return obs, {"functions": ANCHORS, "cpp_units": sorted(unit.files), "cpp_functions": len(unit.funcs)}
