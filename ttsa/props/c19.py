"""C19 - copies and save/load round trips."""
from __future__ import annotations

import ast

from .. import rules
from ..effects import Effects, elem_of, attr_of
from ..model import Model, norm, own_returns
from ..report import Ob, OK, VIOLATED, ERROR, INFO

META = {
    "explanation": "KEYS: every branch of save writes the key set that load reads, with 'cores' bound to the operand's core "
                   "list, and load rebuilds through TT(list) (which re-derives kind, shape and ranks from the cores, C05). "
                   "PICKLE-SAFE: rank/shape lists placed in the pickled dictionary are sanitised to Python ints (TT-SVD leaves "
                   "numpy integers in the rank list and torch.load(weights_only=True) rejects them) unless load opts out. "
                   "CLONE-FRESH (effect analysis): clone() returns an object none of whose cores shares storage with the "
                   "operand. WRAPPERS: detach/to/cpu/cuda map each core through the like-named torch method in order with "
                   "device/dtype forwarded; numpy() is full() converted. UNRES on these methods.",
    "assumptions": ["bit-identity of torch.save/torch.load serialisation itself", "device transfers"],
    "floors": {"KEYS": 3, "PICKLE-SAFE": 2, "CLONE-FRESH": 1, "WRAPPERS": 5},
}
ANCHORS = ["_extras.save", "_extras.load", "_tt_base.TT.clone", "_tt_base.TT.detach", "_tt_base.TT.to", "_tt_base.TT.cpu",
           "_tt_base.TT.numpy", "_tt_base.TT.cuda"]


def save_dicts(model: Model):
    f = model.func("_extras.save")
    out = []
    for n in ast.walk(f.node):
        if isinstance(n, ast.Assign) and isinstance(n.value, ast.Dict):
            keys = {k.value: v for k, v in zip(n.value.keys, n.value.values) if isinstance(k, ast.Constant)}
            # entries added afterwards: dct["M"] = ...
            if isinstance(n.targets[0], ast.Name):
                for m in ast.walk(f.node):
                    if isinstance(m, ast.Assign) and isinstance(m.targets[0], ast.Subscript) and isinstance(m.targets[0].value, ast.Name) \
                            and m.targets[0].value.id == n.targets[0].id and isinstance(m.targets[0].slice, ast.Constant):
                        keys.setdefault(m.targets[0].slice.value, m.value)
            out.append((n, keys))
    return f, out


def rule_keys(model: Model):
    obs = []
    f, dicts = save_dicts(model)
    param = f.params()[0]
    lf = model.func("_extras.load")
    read = set()
    loaded_name = None
    for n in ast.walk(lf.node):
        if isinstance(n, ast.Assign) and isinstance(n.value, ast.Call) and model.resolve(lf.module, n.value.func) == "torch.load":
            loaded_name = n.targets[0].id if isinstance(n.targets[0], ast.Name) else None
    for n in ast.walk(lf.node):
        if isinstance(n, ast.Subscript) and isinstance(n.value, ast.Name) and n.value.id == loaded_name and isinstance(n.slice, ast.Constant):
            read.add(n.slice.value)
    if not dicts:
        return [Ob("KEYS", "_extras.save:KEYS:dict", ERROR, model.where(f), "dict literal", "save no longer builds a dict literal")]
    for n, keys in dicts:
        k = f"_extras.save:KEYS:{'+'.join(sorted(keys))}"
        missing = sorted(read - set(keys))
        if missing:
            obs.append(Ob("KEYS", k, VIOLATED, model.where(f, n), norm(n)[:120],
                          f"load reads key(s) {missing} that this branch of save does not write: KeyError on load"))
        else:
            obs.append(Ob("KEYS", k, OK, model.where(f, n), norm(n)[:120], f"writes {sorted(keys)}; load reads {sorted(read)}"))
        kc = f"_extras.save:KEYS:cores-value:{'+'.join(sorted(keys))}"
        cv = keys.get("cores")
        ok = cv is not None and norm(cv) == f"{param}.cores"
        obs.append(Ob("KEYS", kc, OK if ok else VIOLATED, model.where(f, n), norm(cv) if cv is not None else "<missing>",
                      "cores saved from the operand" if ok else
                      f"'cores' must hold {param}.cores exactly (found {norm(cv) if cv is not None else None}): a transformed or partial "
                      "core list does not round-trip bit-identically"))
        # the dict is what torch.save receives
    # must-pass-through: on every path of save that does not raise, the dictionary built on that path is what torch.save receives
    from ..flow import simple_paths
    try:
        paths = simple_paths(f.node.body)
    except ValueError:
        paths = None
    if paths is None:
        obs.append(Ob("KEYS", "_extras.save:KEYS:torch.save", ERROR, model.where(f), "tn.save(dct, path)", "save has too many paths to enumerate"))
    else:
        dict_nodes = {id(n.value) for n, _ in dicts}
        bad = None
        for stmts, ex in paths:
            if ex == "raise":
                continue
            built = None
            written = False
            for st in stmts:
                if isinstance(st, ast.Assign) and id(st.value) in dict_nodes and isinstance(st.targets[0], ast.Name):
                    built, written = st.targets[0].id, False
                for c in ast.walk(st):
                    if isinstance(c, ast.Call) and model.resolve(f.module, c.func) == "torch.save" and c.args:
                        if (isinstance(c.args[0], ast.Name) and c.args[0].id == built) or id(c.args[0]) in dict_nodes:
                            written = True
            if not written:
                bad = stmts[-1] if stmts else f.node
        ok = bad is None
        obs.append(Ob("KEYS", "_extras.save:KEYS:torch.save", OK if ok else VIOLATED, model.where(f, bad) if bad is not None and hasattr(bad, "lineno") else model.where(f),
                      "tn.save(dct, path)", "on every path the dictionary built there is handed to torch.save" if ok else
                      "a path through save ends without handing the dictionary it built to torch.save: nothing (or a stale dictionary) is written"))
    # load rebuilds through TT(list of cores)
    rets = [n for n in own_returns(lf.node)]
    ok = len(rets) == 1 and isinstance(rets[0].value, ast.Call) and model.resolve(lf.module, rets[0].value.func) == "torchtt._tt_base.TT" \
        and len(rets[0].value.args) == 1 and norm(rets[0].value.args[0]) == f"{loaded_name}['cores']" and not rets[0].value.keywords
    obs.append(Ob("KEYS", "_extras.load:KEYS:rebuild", OK if ok else VIOLATED, model.where(lf), norm(rets[0])[:100] if rets else "",
                  "load rebuilds the object from the saved cores only" if ok else
                  "load must return TT(<dict>['cores']) (kind, ranks and shape are re-derived from the cores); extra arguments "
                  "(shape/eps) would re-decompose or truncate"))
    return obs


def _numpy_int_sources(model: Model):
    """Does rank_chop return a numpy integer (np.argmax result) unsanitised?"""
    f = model.func("_decomposition.rank_chop")
    tainted = set()
    for n in ast.walk(f.node):
        if isinstance(n, ast.Assign) and isinstance(n.targets[0], ast.Name):
            v = n.value
            def is_np(e):
                if isinstance(e, ast.Call):
                    r = model.resolve(f.module, e.func) or ""
                    if r.startswith("numpy.") and r not in ("numpy.linalg.norm",):
                        return True
                if isinstance(e, ast.IfExp):
                    return is_np(e.body) or is_np(e.orelse)
                if isinstance(e, ast.Name):
                    return e.id in tainted
                return False
            if is_np(v):
                tainted.add(n.targets[0].id)
            elif isinstance(v, ast.Call) and isinstance(v.func, ast.Name) and v.func.id == "int":
                tainted.discard(n.targets[0].id)
    for n in ast.walk(f.node):
        if isinstance(n, ast.Return) and isinstance(n.value, ast.Name) and n.value.id in tainted:
            return True
    return False


def _strip_identity_copies(v):
    """list(X), tuple(X), X.copy(), X[:], [e for e in X] hold the very elements of X"""
    for _ in range(4):
        if isinstance(v, ast.Call) and isinstance(v.func, ast.Name) and v.func.id in ("list", "tuple") and len(v.args) == 1 and not v.keywords:
            v = v.args[0]
        elif isinstance(v, ast.Call) and isinstance(v.func, ast.Attribute) and v.func.attr == "copy" and not v.args:
            v = v.func.value
        elif isinstance(v, ast.Subscript) and isinstance(v.slice, ast.Slice) and v.slice.lower is None and v.slice.upper is None and v.slice.step is None:
            v = v.value
        elif isinstance(v, ast.ListComp) and len(v.generators) == 1 and not v.generators[0].ifs and isinstance(v.elt, ast.Name) \
                and isinstance(v.generators[0].target, ast.Name) and v.elt.id == v.generators[0].target.id:
            v = v.generators[0].iter
        else:
            break
    return v


def rule_pickle(model: Model):
    obs = []
    f, dicts = save_dicts(model)
    lf = model.func("_extras.load")
    opt_out = any(isinstance(c, ast.Call) and model.resolve(lf.module, c.func) == "torch.load" and
                  any(kw.arg == "weights_only" and isinstance(kw.value, ast.Constant) and kw.value.value is False for kw in c.keywords)
                  for c in ast.walk(lf.node))
    source = _numpy_int_sources(model)
    for n, keys in dicts:
        for key, v in keys.items():
            if key in ("cores",):
                continue
            k = f"_extras.save:PICKLE-SAFE:{'+'.join(sorted(keys))}:{key}"
            txt = norm(v)
            core = _strip_identity_copies(v)
            is_list_attr = isinstance(core, ast.Attribute) and core.attr in ("R", "N", "M", "shape")
            sanitised = (isinstance(v, ast.ListComp) and isinstance(v.elt, ast.Call) and isinstance(v.elt.func, ast.Name) and v.elt.func.id == "int") or \
                (isinstance(v, ast.Call) and isinstance(v.func, ast.Name) and v.func.id in ("list", "tuple") and v.args and isinstance(v.args[0], ast.Call)
                 and isinstance(v.args[0].func, ast.Name) and v.args[0].func.id == "map" and v.args[0].args and norm(v.args[0].args[0]) == "int")
            if not is_list_attr or sanitised or opt_out or not source:
                why = "sanitised with int()" if sanitised else ("load opts out of weights_only" if opt_out else
                                                                ("scalar/bool value" if not is_list_attr else "no numpy-integer source in rank_chop"))
                obs.append(Ob("PICKLE-SAFE", k, OK, model.where(f, n), f"{key!r}: {txt}", why))
            else:
                obs.append(Ob("PICKLE-SAFE", k, VIOLATED, model.where(f, n), f"{key!r}: {txt}",
                              f"`{txt}` is pickled as is. rank_chop returns np.argmax(...) (numpy.int64); to_tt stores it in the rank list "
                              "that TT.__init__ keeps as __R, so the saved list holds numpy scalars, which torch.load(weights_only=True) "
                              "refuses: load(save(x)) raises UnpicklingError for a tensor built from dense data with a truncated bond"))
    return obs


def rule_clone(model: Model):
    eng = Effects(model)
    f = model.func("_tt_base.TT.clone")
    s = eng.summary(f)
    k = "_tt_base.TT.clone:CLONE-FRESH:cores"
    ret = s.ret
    cores = attr_of(ret, "cores")
    el = elem_of(cores)
    shared = [r for r in el.roots if r[0] == "P"] + [r for r in cores.roots if r[0] == "P"] + [r for r in ret.roots if r[0] == "P"]
    if shared:
        return [Ob("CLONE-FRESH", k, VIOLATED, model.where(f), "return value of clone",
                   f"the object returned by clone() shares storage/lists with the operand (origins {sorted(map(str, shared))}): writing to "
                   "the clone (set_core aside, e.g. in-place optimiser steps on its cores) changes the original")]
    return [Ob("CLONE-FRESH", k, OK, model.where(f), "return value of clone", "fresh object, fresh list, fresh core tensors")]


WRAP = {"detach": "detach", "cpu": "cpu", "cuda": "cuda", "to": "to", "clone": "clone"}


def rule_wrappers(model: Model):
    obs = []
    for name, meth in WRAP.items():
        f = model.func("_tt_base.TT." + name)
        k = f"_tt_base.TT.{name}:WRAPPERS:per-core-map"
        comp = None
        for n in ast.walk(f.node):
            if isinstance(n, ast.Call) and (model.resolve(f.module, n.func) == "torchtt._tt_base.TT") and n.args:
                a0 = n.args[0]
                if isinstance(a0, ast.Name):      # through a single-assignment temporary
                    defs = [x.value for x in ast.walk(f.node) if isinstance(x, ast.Assign) and len(x.targets) == 1
                            and isinstance(x.targets[0], ast.Name) and x.targets[0].id == a0.id]
                    if len(defs) == 1:
                        a0 = defs[0]
                if isinstance(a0, ast.ListComp):
                    comp = a0
        if comp is None:
            obs.append(Ob("WRAPPERS", k, ERROR, model.where(f), name, "not in the form TT([c.<m>(...) for c in self.cores])"))
            continue
        g = comp.generators[0]
        ok_iter = len(comp.generators) == 1 and norm(g.iter) == "self.cores" and not g.ifs and isinstance(g.target, ast.Name)
        e = comp.elt
        ok_call = isinstance(e, ast.Call) and isinstance(e.func, ast.Attribute) and e.func.attr == meth and \
            isinstance(e.func.value, ast.Name) and e.func.value.id == g.target.id
        ok_fwd = True
        if name == "to" and ok_call:
            kws = {kw.arg: norm(kw.value) for kw in e.keywords}
            ok_fwd = kws.get("dtype") == "dtype" and kws.get("device") == "device"
        if name == "cuda" and ok_call:
            ok_fwd = [norm(a) for a in e.args] == ["device"]
        ok = ok_iter and ok_call and ok_fwd
        obs.append(Ob("WRAPPERS", k, OK if ok else VIOLATED, model.where(f), norm(comp)[:100],
                      "each core mapped through the like-named torch method, order preserved" if ok else
                      f"TT.{name} must map every core, in order, through c.{meth}(...) with its arguments forwarded "
                      f"(iteration ok: {ok_iter}, method ok: {ok_call}, arguments forwarded: {ok_fwd})"))
    f = model.func("_tt_base.TT.numpy")
    rets = [n for n in own_returns(f.node)]
    txt = norm(rets[0].value).replace(" ", "") if rets else ""
    ok = txt in ("self.full().cpu().numpy()", "self.full().numpy()", "self.full().detach().cpu().numpy()")
    obs.append(Ob("WRAPPERS", "_tt_base.TT.numpy:WRAPPERS:full", OK if ok else VIOLATED, model.where(f), txt,
                  "dense reconstruction converted to numpy" if ok else "numpy() must be the dense reconstruction full() converted to numpy"))
    return obs


def check(model: Model, tier: str):
    obs = []
    obs += rule_keys(model)
    obs += rule_pickle(model)
    obs += rule_clone(model)
    obs += rule_wrappers(model)
    scope = [model.func(a) for a in ANCHORS]
    obs += rules.rule_unres(model, scope)
    info = rules.rule_unres(model, [model.func("_tt_base.TT.is_cuda")])
    for o in info:
        if o.status == VIOLATED:
            o.status = INFO
            obs.append(o)
    return obs, {"functions": ANCHORS}
