"""C02 - rounding: claimed at clause level (premises of the TT-rounding error theorem + operand intact)."""
from __future__ import annotations

import ast

from .. import allowance as al
from ..effects import Effects
from ..model import Model, norm, own_returns
from ..report import Ob, OK, VIOLATED, ERROR, INFO
from . import c01

META = {
    "explanation": "Decides the structural premises of the TT-rounding bound: (1) every path of round_tt to the truncating "
                   "sweep passes through lr_orthogonal and the sweep reads the orthogonalised cores (must-pass-through + "
                   "def-use); (2) orthogonalisation runs left-to-right and truncation right-to-left; (3) both rank_chop "
                   "sites use eps*||S||/sqrt(d-1) with TT.round's eps; (4) ranks are capped by rmax and all three SVD "
                   "factors are cut at the capped rank; (5) the operand is intact (effect analysis: fresh rank list, no "
                   "write through self); (6) the rank decision table is total and minimal.",
    "assumptions": ["accuracy of QR/SVD and floating-point roundoff are outside the claim"],
    "floors": {"E5-CHAIN": 20, "E4-ALLOWANCE": 1, "RANK-CAP": 3, "CMP-TOTAL": 1, "E3-PARAM": 2},
}
ANCHORS = ["_decomposition.round_tt", "_decomposition.lr_orthogonal", "_decomposition.rank_chop", "_tt_base.TT.round"]


def ortho_first(model: Model):
    f = model.func("_decomposition.round_tt")
    obs = []
    body = f.node.body
    call_idx = loop_idx = None
    res_name = None
    for i, s in enumerate(body):
        if isinstance(s, ast.Assign) and isinstance(s.value, ast.Call) and \
                model.resolve(f.module, s.value.func) == "torchtt._decomposition.lr_orthogonal" and call_idx is None:
            call_idx = i
            t = s.targets[0]
            res_name = t.elts[0].id if isinstance(t, ast.Tuple) and isinstance(t.elts[0], ast.Name) else (t.id if isinstance(t, ast.Name) else None)
        if isinstance(s, ast.For) and any(isinstance(x, ast.Call) and (model.resolve(f.module, x.func) or "").endswith("_decomposition.SVD")
                                          for x in ast.walk(s)) and loop_idx is None:
            loop_idx = i
    k = "_decomposition.round_tt:ORTHO-FIRST:dominates"
    if loop_idx is None:
        return [Ob("ORTHO-FIRST", k, ERROR, model.where(f), "truncation loop", "truncating SVD loop not found in round_tt")]
    if call_idx is None or call_idx > loop_idx:
        obs.append(Ob("ORTHO-FIRST", k, VIOLATED, model.where(f, body[loop_idx]), "lr_orthogonal before the SVD sweep",
                      "no unconditional call of lr_orthogonal precedes the truncating sweep in round_tt: the SVD of a "
                      "non-orthogonalised core does not measure the error of the whole tensor, so eps is not met for "
                      "badly conditioned cores"))
        return obs
    obs.append(Ob("ORTHO-FIRST", k, OK, model.where(f, body[call_idx]), norm(body[call_idx])[:100],
                  "top-level call precedes the truncation loop"))
    # the loop (and the seed `core_now = X[-1]`) reads the result of the call
    reads = set()
    for s in body[call_idx + 1: loop_idx + 1]:
        for n in ast.walk(s):
            if isinstance(n, ast.Subscript) and isinstance(n.value, ast.Name) and isinstance(n.ctx, ast.Load):
                reads.add(n.value.id)
    k2 = "_decomposition.round_tt:ORTHO-FIRST:feeds"
    rebound = [s for s in body[call_idx + 1: loop_idx] if isinstance(s, ast.Assign) and any(
        isinstance(t, ast.Name) and t.id == res_name for t in s.targets)]
    if res_name is None or res_name not in reads or rebound:
        obs.append(Ob("ORTHO-FIRST", k2, VIOLATED, model.where(f, body[loop_idx]), f"sweep reads {sorted(reads)}",
                      f"the truncating sweep does not read the list returned by lr_orthogonal (`{res_name}`)"))
    else:
        obs.append(Ob("ORTHO-FIRST", k2, OK, model.where(f, body[loop_idx]), f"sweep reads `{res_name}`", "result of lr_orthogonal feeds the sweep"))
    # returns before the call only under d == 1
    k3 = "_decomposition.round_tt:ORTHO-FIRST:bypass"
    bad = []
    for s in body[:call_idx]:
        for n in ast.walk(s):
            if isinstance(n, ast.Return):
                # must be inside `if d == 1`
                orders = order_names(f.node)
                ok = isinstance(s, ast.If) and isinstance(s.test, ast.Compare) and len(s.test.ops) == 1 and isinstance(s.test.ops[0], (ast.Eq, ast.LtE)) \
                    and is_order(s.test.left, orders) and isinstance(s.test.comparators[0], ast.Constant) and s.test.comparators[0].value == 1
                if not ok:
                    bad.append(n)
    obs.append(Ob("ORTHO-FIRST", k3, VIOLATED if bad else OK, model.where(f, bad[0]) if bad else model.where(f),
                  "early returns before orthogonalisation", "a return bypasses orthogonalisation and truncation for d > 1"
                  if bad else "only the order-1 early return precedes the orthogonalisation"))
    return obs


def order_names(fn) -> set:
    """locals bound to a length (the order d), whatever they are called"""
    out = set()
    for n in ast.walk(fn):
        if isinstance(n, ast.Assign) and len(n.targets) == 1 and isinstance(n.targets[0], ast.Name) and isinstance(n.value, ast.Call) \
                and isinstance(n.value.func, ast.Name) and n.value.func.id == "len":
            out.add(n.targets[0].id)
    return out


def is_order(e, orders) -> bool:
    return (isinstance(e, ast.Name) and e.id in orders) or (isinstance(e, ast.Call) and isinstance(e.func, ast.Name) and e.func.id == "len")


def is_order_minus_one(e, orders) -> bool:
    return isinstance(e, ast.BinOp) and isinstance(e.op, ast.Sub) and is_order(e.left, orders) and isinstance(e.right, ast.Constant) and e.right.value == 1


def _range_dir(it):
    """'up' / 'down' / None for range(...) iterables"""
    if not (isinstance(it, ast.Call) and isinstance(it.func, ast.Name) and it.func.id == "range"):
        return None
    a = it.args
    if len(a) == 3 and isinstance(a[2], ast.UnaryOp) and isinstance(a[2].op, ast.USub):
        return "down"
    if len(a) in (1, 2):
        return "up"
    return None


def sweep_dir(model: Model):
    obs = []
    lo = model.func("_decomposition.lr_orthogonal")
    loops = [n for n in lo.node.body if isinstance(n, ast.For)]
    k = "_decomposition.lr_orthogonal:SWEEP-DIR:left-to-right"
    if not loops:
        obs.append(Ob("SWEEP-DIR", k, ERROR, model.where(lo), "loop", "no loop found"))
    else:
        lp = loops[0]
        d = _range_dir(lp.iter)
        iv = lp.target.id if isinstance(lp.target, ast.Name) else "?"
        carries = any(isinstance(n, ast.Subscript) and norm(n).replace(" ", "") == f"tt_cores[{iv}+1]" for n in ast.walk(lp))
        writes = {norm(n.targets[0]).replace(" ", "") for n in ast.walk(lp) if isinstance(n, ast.Assign) and isinstance(n.targets[0], ast.Subscript)}
        ok = d == "up" and carries and any(w.endswith(f"[{iv}]") for w in writes)
        obs.append(Ob("SWEEP-DIR", k, OK if ok else VIOLATED, model.where(lo, lp), norm(lp.iter),
                      "ascending sweep, R factor carried into core i+1" if ok else
                      f"lr_orthogonal's sweep is not ascending with the R factor carried into core i+1 (range {norm(lp.iter)}, writes {sorted(writes)})"))
    rt = model.func("_decomposition.round_tt")
    loops = [n for n in rt.node.body if isinstance(n, ast.For)]
    k = "_decomposition.round_tt:SWEEP-DIR:right-to-left"
    if not loops:
        obs.append(Ob("SWEEP-DIR", k, ERROR, model.where(rt), "loop", "no loop found"))
    else:
        lp = loops[-1]
        d = _range_dir(lp.iter)
        iv = lp.target.id if isinstance(lp.target, ast.Name) else "?"
        reads_prev = any(isinstance(n, ast.Subscript) and norm(n).replace(" ", "").endswith(f"[{iv}-1]") for n in ast.walk(lp))
        a_ = lp.iter.args if isinstance(lp.iter, ast.Call) else []
        ok = d == "down" and reads_prev and len(a_) >= 2 and is_order_minus_one(a_[0], order_names(rt.node)) and isinstance(a_[1], ast.Constant) and a_[1].value == 0
        obs.append(Ob("SWEEP-DIR", k, OK if ok else VIOLATED, model.where(rt, lp), norm(lp.iter),
                      "descending sweep over bonds d-1..1, carrying into core i-1" if ok else
                      f"truncation sweep is not range(d-1, 0, -1) carrying into core i-1 (got {norm(lp.iter)}): it runs in the same "
                      "direction as the orthogonalisation or skips a bond"))
    return obs


def rmax_expansion(model: Model):
    f = model.func("_tt_base.TT.round")
    k = "_tt_base.TT.round:RANK-CAP:rmax-list"
    for n in ast.walk(f.node):
        if isinstance(n, ast.If) and "isinstance(rmax, list)" in norm(n.test):
            for s in n.body + n.orelse:
                if isinstance(s, ast.Assign) and isinstance(s.targets[0], ast.Name) and s.targets[0].id == "rmax":
                    txt = norm(s.value).replace(" ", "")
                    if "[rmax]" in txt and "len(" in txt and txt.startswith("[1]+"):
                        return [Ob("RANK-CAP", k, OK, model.where(f, s), norm(s), "scalar rmax expanded to a per-bond list indexable by 1..d-1")]
                    return [Ob("RANK-CAP", k, VIOLATED, model.where(f, s), norm(s),
                               "scalar rmax is not expanded to [1] + d*[rmax] + [1]: bond i would read the wrong cap or run out of range")]
    return [Ob("RANK-CAP", k, VIOLATED, model.where(f), "rmax normalisation", "TT.round no longer expands a scalar rmax to a per-bond list")]


def check(model: Model, tier: str):
    model.use_inlined("_decomposition.to_tt", "_decomposition.mat_to_tt", "_decomposition.round_tt", "_tt_base.TT.round")   # helpers around the rank selection are read in place
    obs = []
    from ..e5 import obligations as e5ob
    from .common import cross_reference
    sem = e5ob.for_property(model, "C02", tier)
    whole = [o for o in sem if ":round_tt:d" in o.key]
    # the order of the two sweeps and the carry are decided by evaluating round_tt as a whole at orders 2-4 (e5/scenarios7.py); the structural
    # reading (loop headers, carried indices) is the cross-reference for every order
    obs += cross_reference(ortho_first(model) + sweep_dir(model), whole, "E5 scenarios round_tt:d2-d4")
    obs += c01.allowance_sites(model, "_decomposition.round_tt", c01.SHARE)
    obs += c01.eps_flow(model, "_tt_base.TT.round", "torchtt._decomposition.round_tt")
    obs += cross_reference(c01.rank_cap(model, "_decomposition.round_tt"), whole, "E5 scenarios round_tt:d2-d4 (cap clause)")
    obs += rmax_expansion(model)
    obs += c01.cmp_total_ob(model)
    # rmax forwarded by TT.round
    f = model.func("_tt_base.TT.round")
    for call in al.find_calls(model, f, "torchtt._decomposition.round_tt"):
        from ..model import bound_args
        ba = bound_args(model.functions["torchtt._decomposition.round_tt"], call) or {}
        cap_param = model.functions["torchtt._decomposition.round_tt"].params()[3] if len(model.functions["torchtt._decomposition.round_tt"].params()) > 3 else None
        a3 = ba.get(cap_param) if cap_param else (call.args[3] if len(call.args) >= 4 else None)
        passes = isinstance(a3, ast.Name) and a3.id == "rmax"
        obs.append(Ob("RANK-CAP", "_tt_base.TT.round:RANK-CAP:rmax-passed", OK if passes else VIOLATED, model.where(f, call),
                      norm(call)[:100], "rmax forwarded" if passes else "rmax is not forwarded to round_tt"))
    # operand intact (E3)
    eng = Effects(model)
    for fn in ("_tt_base.TT.round",):
        fo = model.func(fn)
        s = eng.summary(fo)
        for p in fo.params():
            effs = [e for e in s.effects if e.param == p]
            k = f"{fn}:E3-PARAM:{p}"
            if effs:
                e = effs[0]
                obs.append(Ob("E3-PARAM", k, VIOLATED, e.where, e.construct,
                              f"rounding writes through `{p}`: {e.kind} on {p}{''.join(e.steps)} in {e.func} "
                              f"(`{e.construct}`; path {' => '.join(e.chain) or 'direct'}): the operand's ranks/cores change"))
            else:
                obs.append(Ob("E3-PARAM", k, OK, model.where(fo), p, "no write through this parameter"))
    # the result is a new object built from the returned cores
    rets = [n for n in own_returns(f.node)]
    obs += sem
    from ..dtypekind import rule_narrow
    obs += rule_narrow(model, [model.func(a) for a in ['_decomposition.round_tt', '_tt_base.TT.round']])
    from ..adjoint import rule_adjoint
    obs += rule_adjoint(model, [model.func(a) for a in ["_decomposition.round_tt", "_decomposition.lr_orthogonal", "_decomposition.rl_orthogonal"]])
    return obs, {"functions": ANCHORS}
