"""C13 - elementwise division: claimed only for routing / operator-consistency clauses (accuracy of the quotient: not applicable)."""
from __future__ import annotations

import ast

from .. import rules
from ..defattr import rule_defattr
from ..effects import Effects
from ..model import Model, norm
from ..report import Ob, OK, VIOLATED, ERROR, INFO

META = {
    "explanation": "Decides: (D1) ROUTING - at every call of amen_divide the first argument (whose cores become the diagonal operator) is the "
                   "divisor and the second the numerator: `x / y` and elementwise_divide(x, y) pass (y, x), `s / y` passes (y, s*ones); "
                   "(D2) the diagonal local operator has one meaning in every formulation - local_product, LinearOp.matvec (plain and "
                   "Jacobi-preconditioned), apply_prec, the interface recursions (adjointness) - for generic independent sizes (E5 canonical "
                   "networks); (D3) IFACE-TYPE: every tensor statement of the two sweeps of amen_divide types consistently over the independent "
                   "rank families (incl. the dense local matrix with its delta(m, n) and the flattening orders); (D4) DEF-ATTR for LinearOp; "
                   "(D5) division by a scalar is the single-strand chain with coefficient 1/s (C03 scenarios) and never writes the operand; "
                   "operands are not written (one named exception: the final rescale of amen_divide's own cores). Does NOT decide the accuracy "
                   "of the quotient (inherits the convergence behaviour of AMEn).",
    "assumptions": ["real operands", "generic sizes: rank families at different positions / of different trains are independent"],
    "floors": {"EXACT-DIV": 2, "SCALE-FREE": 2, "ENRICH-WIDTH": 1, "ZERO-NORM": 6, "ROUTING": 3, "E5-CHAIN": 12, "IFACE-TYPE": 28, "DEF-ATTR": 6},
}
ANCHORS = ["_division.amen_divide", "_division.local_product", "_division.LinearOp.matvec", "_division.LinearOp.apply_prec", "_division.compute_phi_fwd_A",
           "_division.compute_phi_bck_A", "_division.compute_phi_fwd_rhs", "_division.compute_phi_bck_rhs", "_tt_base.TT.__truediv__",
           "_tt_base.TT.__rtruediv__", "_extras.elementwise_divide"]

# (function, divisor, numerator): from the meaning of the operator - self / other, other / self, elementwise_divide(x, y) = x / y
# positions in the parameter list: (divisor, numerator)
ROUTES = {"_tt_base.TT.__truediv__": (1, 0), "_tt_base.TT.__rtruediv__": (0, None), "_extras.elementwise_divide": (1, 0)}


def _derives_from(f, name, banned):
    """does the local `name` (transitively, through assignments in f) read the name `banned`?"""
    seen, todo = set(), [name]
    while todo:
        n = todo.pop()
        if n in seen:
            continue
        seen.add(n)
        if n == banned:
            return True
        for a in ast.walk(f.node):
            if isinstance(a, (ast.Assign, ast.AugAssign)):
                tgts = a.targets if isinstance(a, ast.Assign) else [a.target]
                if any(isinstance(x, ast.Name) and x.id == n for t in tgts for x in ast.walk(t)):
                    for x in ast.walk(a.value):
                        if isinstance(x, ast.Name) and x.id != n:
                            # metadata reads (shape, dtype, device) of the divisor are fine
                            todo.append(x.id)
    return False


def rule_routing(model: Model):
    obs = []
    for fs, (di, ni) in ROUTES.items():
        f = model.func(fs)
        divisor = f.params()[di]
        numerator = f.params()[ni] if ni is not None else None
        calls = [n for n in ast.walk(f.node) if isinstance(n, ast.Call) and model.resolve(f.module, n.func) == "torchtt._division.amen_divide"]
        if not calls:
            obs.append(Ob("ROUTING", f"{fs}:ROUTING:call", ERROR, model.where(f), fs, "no call of amen_divide found"))
            continue
        for i, c in enumerate(calls):
            kw = {k.arg: k.value for k in c.keywords}
            a0 = c.args[0] if c.args else kw.get("a")
            a1 = c.args[1] if len(c.args) > 1 else kw.get("b")
            k = f"{fs}:ROUTING:{i}"
            ok0 = isinstance(a0, ast.Name) and a0.id == divisor
            if numerator is not None:
                ok1 = isinstance(a1, ast.Name) and a1.id == numerator
            else:
                # scalar numerator: a train built locally, not the divisor itself (its cores' values must not come from the divisor)
                ok1 = isinstance(a1, ast.Name) and a1.id != divisor
                if ok1:
                    defs = [a for a in ast.walk(f.node) if isinstance(a, ast.Assign) and any(isinstance(t, ast.Name) and t.id == a1.id for t in a.targets)]
                    ok1 = bool(defs) and all(isinstance(d.value, ast.Call) for d in defs)
                    for d in defs:
                        for x in ast.walk(d.value):
                            if isinstance(x, ast.Attribute) and isinstance(x.value, ast.Name) and x.value.id == divisor and x.attr == "cores" and \
                                    not _is_metadata_read(d.value, x):
                                ok1 = False
            if ok0 and ok1:
                obs.append(Ob("ROUTING", k, OK, model.where(f, c), norm(c)[:80], f"operator argument is the divisor `{divisor}`, right-hand side the numerator"))
            else:
                obs.append(Ob("ROUTING", k, VIOLATED, model.where(f, c), norm(c)[:80],
                              f"{fs}: amen_divide(a, b) solves diag(a) q = b, so `a` must be the divisor `{divisor}` and `b` the numerator"
                              f"{' `' + numerator + '`' if numerator else ' (a train of ones scaled by the scalar)'}; found a = {norm(a0) if a0 is not None else '?'}, "
                              f"b = {norm(a1) if a1 is not None else '?'}"))
    return obs


def _is_metadata_read(root, attr_node):
    """`x.cores[0].dtype` / `.device` / `.shape`: reads no values"""
    for n in ast.walk(root):
        if isinstance(n, ast.Attribute) and n.attr in ("dtype", "device", "shape") and any(m is attr_node for m in ast.walk(n.value)):
            return True
        # X.new_ones(shape) / new_zeros / new_full / new_empty: a fresh tensor with X's dtype and device - none of X's values
        if isinstance(n, ast.Call) and isinstance(n.func, ast.Attribute) and n.func.attr in ("new_ones", "new_zeros", "new_full", "new_empty") \
                and any(m is attr_node for m in ast.walk(n.func.value)):
            return True
    return False


def _recip_exprs(fn: ast.AST, scalar: str):
    """expressions that are the reciprocal of `scalar`: 1/scalar, scalar**-1, reciprocal(scalar), and locals bound once to one"""
    def is_recip(e, names):
        if isinstance(e, ast.Name):
            return e.id in names
        if isinstance(e, ast.BinOp) and isinstance(e.op, ast.Div) and isinstance(e.left, ast.Constant) and e.left.value in (1, 1.0) \
                and any(isinstance(x, ast.Name) and x.id == scalar for x in ast.walk(e.right)):
            return True
        if isinstance(e, ast.BinOp) and isinstance(e.op, ast.Pow) and isinstance(e.left, ast.Name) and e.left.id == scalar \
                and isinstance(e.right, ast.UnaryOp) and isinstance(e.right.op, ast.USub) and isinstance(e.right.operand, ast.Constant) and e.right.operand.value == 1:
            return True
        if isinstance(e, ast.Call) and norm(e.func).endswith("reciprocal") and any(isinstance(x, ast.Name) and x.id == scalar for a in e.args for x in ast.walk(a)):
            return True
        return False
    names = set()
    for _ in range(2):
        for n in ast.walk(fn):
            if isinstance(n, ast.Assign) and len(n.targets) == 1 and isinstance(n.targets[0], ast.Name) and is_recip(n.value, names):
                names.add(n.targets[0].id)
    return lambda e: is_recip(e, names)


def rule_recip(model: Model, fn_node=None, where=None):
    """EXACT-DIV: 'dividing by a scalar is exact' - the quotient core is ONE correctly rounded division core / scalar.  Multiplying by a
    reciprocal (core * (1/s)) rounds twice and differs from the quotient in the last place for most s.  One obligation per true division
    by the scalar operand (OK) and per multiplication by its reciprocal (violation)."""
    obs = []
    if fn_node is None:
        f = model.func("_tt_base.TT.__truediv__")
        fn_node, scalar = f.node, f.params()[1]
        loc = lambda n: model.where(f, n)
        short = f.short
    else:
        scalar = [a.arg for a in fn_node.args.args][1]
        loc = lambda n: where
        short = "fixture"
    recip = _recip_exprs(fn_node, scalar)
    c = 0
    for n in ast.walk(fn_node):
        if isinstance(n, ast.BinOp) and isinstance(n.op, ast.Div) and isinstance(n.right, ast.Name) and n.right.id == scalar:
            obs.append(Ob("EXACT-DIV", f"{short}:EXACT-DIV:div:{c}", OK, loc(n), norm(n), "one true division by the scalar operand"))
            c += 1
        if (isinstance(n, ast.BinOp) and isinstance(n.op, ast.Mult) and (recip(n.left) or recip(n.right))) or \
                (isinstance(n, ast.AugAssign) and isinstance(n.op, ast.Mult) and recip(n.value)):
            obs.append(Ob("EXACT-DIV", f"{short}:EXACT-DIV:recip:{c}", VIOLATED, loc(n), norm(n),
                          f"{short}: `{norm(n)[:80]}` multiplies by the reciprocal of the scalar `{scalar}` instead of dividing by it: two roundings instead of "
                          "one, so x / s is no longer the correctly rounded quotient (e.g. s = 3, 10, 49: the last place of most entries differs) - "
                          "the property states that dividing by a scalar is exact"))
            c += 1
    return obs


_RECIP_FIXTURE = """
def p(self, other):
    cores_new = self.cores.copy()
    inv = 1 / other
    cores_new[0] = cores_new[0] * inv
    return cores_new

def q(self, other):
    cores_new = self.cores.copy()
    cores_new[0] = cores_new[0] / other
    return cores_new
"""


def check(model: Model, tier: str):
    from ..e5 import obligations as e5ob
    from ..e5.slicetype import type_body
    obs = rule_routing(model)
    obs += rule_recip(model)
    fx = ast.parse(_RECIP_FIXTURE)
    bad = rule_recip(model, fx.body[0], "ttsa/props/c13.py")
    good = rule_recip(model, fx.body[1], "ttsa/props/c13.py")
    okfx = any(o.status == VIOLATED for o in bad) and good and all(o.status == OK for o in good)
    obs.append(Ob("EXACT-DIV", "fixture:EXACT-DIV:positive-example", OK if okfx else ERROR, "ttsa/props/c13.py", "_RECIP_FIXTURE",
                  "the built-in positive example is flagged and its dividing twin is not" if okfx else "the EXACT-DIV rule no longer recognises its positive example"))
    obs += e5ob.for_property(model, "C13", tier)
    # the size identifications made inside the two division operators belong to this property as well: a core-wise shortcut that combines cores
    # of different bond sizes (or broadcasts a bond) does not compute the quotient
    obs += [o for o in e5ob.unification_obligations(model, tier, only_funcs=("_tt_base.TT.__truediv__", "_tt_base.TT.__rtruediv__")) if o.rule == "E5-UNIFY"]
    obs += type_body(model, "_division.amen_divide")
    from ..normguard import rule_train_init
    obs += rule_train_init(model, "_division.amen_divide")
    from ..normguard import rule_residual_gauge
    obs += rule_residual_gauge(model, "_division.amen_divide")
    obs += rule_defattr(model, "torchtt._division.LinearOp")
    eng = Effects(model)
    from .c06 import EXCEPTIONS, verify_amen_divide_exception
    exc_ok, exc_why = verify_amen_divide_exception(model)
    for fn, params in (("_tt_base.TT.__truediv__", ("self", "other")), ("_tt_base.TT.__rtruediv__", ("self", "other")),
                       ("_extras.elementwise_divide", ("x", "y", "starting_tensor"))):
        fo = model.func(fn)
        for p in params:
            effs = [e for e in eng.summary(fo).effects if e.param == p]
            named = [e for e in effs if (e.func, e.construct) in EXCEPTIONS]
            effs = [e for e in effs if (e.func, e.construct) not in EXCEPTIONS]
            if named and not exc_ok:
                obs.append(Ob("E3-PARAM", f"{fn}:E3-PARAM:{p}:exception", VIOLATED, named[0].where, p,
                              f"`{named[0].construct}` writes the initial guess and the reason of the named exception can no longer be verified: {exc_why}"))
            obs.append(Ob("E3-PARAM", f"{fn}:E3-PARAM:{p}", VIOLATED if effs else OK, effs[0].where if effs else model.where(fo), p,
                          f"operand `{p}` is written: {effs[0].construct} in {effs[0].func}" if effs else
                          ("operand not written" + (f" (named exception: {named[0].construct} - zero-sweep path only, multiplication by one; {exc_why})" if named else ""))))
    from ..normguard import rule_zero_norm, rule_arnoldi_seed
    obs += rule_zero_norm(model, "_division.amen_divide")
    from ..normguard import rule_enrich_width
    obs += rule_enrich_width(model, "_division.amen_divide")
    from ..normguard import rule_scale_free
    from ..normguard import rule_homogeneous
    obs += rule_homogeneous(model, "_division.amen_divide")
    obs += rule_scale_free(model, "_division.amen_divide")
    fs = [model.func(a) for a in ANCHORS]
    exc = {}
    # progress output and the undocumented truncation option 'fro' are outside the property's quantifier: their guards are fixed
    obs += rules.rule_defassign(model, fs, exc, domain="quantifier")
    obs += rules.rule_unres(model, fs)
    from ..normguard import rule_qr_rank
    obs += rule_qr_rank(model, '_division.amen_divide')
    return obs, {"functions": ANCHORS}
