"""C13 - elementwise division: claimed only for routing / operator-consistency clauses (accuracy of the quotient: not applicable)."""
from __future__ import annotations

import ast

from .. import rules
from ..defattr import rule_defattr
from ..effects import Effects
from ..model import Model, norm
from ..report import Ob, OK, VIOLATED, ERROR, INFO

META = {
    "explanation": "Decides: (D1) ROUTING - at every call of amen_divide the first argument (whose cores become the diagonal operator) is the "
                   "divisor and the second the numerator: `x / y` and elementwise_divide(x, y) pass (y, x), `s / y` passes (y, s*ones); "
                   "(D2) the diagonal local operator has one meaning in every formulation - local_product, LinearOp.matvec (plain and "
                   "Jacobi-preconditioned), apply_prec, the interface recursions (adjointness) - for generic independent sizes (E5 canonical "
                   "networks); (D3) IFACE-TYPE: every tensor statement of the two sweeps of amen_divide types consistently over the independent "
                   "rank families (incl. the dense local matrix with its delta(m, n) and the flattening orders); (D4) DEF-ATTR for LinearOp; "
                   "(D5) division by a scalar is the single-strand chain with coefficient 1/s (C03 scenarios) and never writes the operand; "
                   "operands are not written (one named exception: the final rescale of amen_divide's own cores). Does NOT decide the accuracy "
                   "of the quotient (inherits the convergence behaviour of AMEn).",
    "assumptions": ["real operands", "generic sizes: rank families at different positions / of different trains are independent"],
    "floors": {"ENRICH-WIDTH": 1, "ZERO-NORM": 6, "ROUTING": 3, "E5-CHAIN": 12, "IFACE-TYPE": 28, "DEF-ATTR": 6},
}
ANCHORS = ["_division.amen_divide", "_division.local_product", "_division.LinearOp.matvec", "_division.LinearOp.apply_prec", "_division.compute_phi_fwd_A",
           "_division.compute_phi_bck_A", "_division.compute_phi_fwd_rhs", "_division.compute_phi_bck_rhs", "_tt_base.TT.__truediv__",
           "_tt_base.TT.__rtruediv__", "_extras.elementwise_divide"]

# (function, divisor, numerator): from the meaning of the operator - self / other, other / self, elementwise_divide(x, y) = x / y
# positions in the parameter list: (divisor, numerator)
ROUTES = {"_tt_base.TT.__truediv__": (1, 0), "_tt_base.TT.__rtruediv__": (0, None), "_extras.elementwise_divide": (1, 0)}


def _derives_from(f, name, banned):
    """does the local `name` (transitively, through assignments in f) read the name `banned`?"""
    seen, todo = set(), [name]
    while todo:
        n = todo.pop()
        if n in seen:
            continue
        seen.add(n)
        if n == banned:
            return True
        for a in ast.walk(f.node):
            if isinstance(a, (ast.Assign, ast.AugAssign)):
                tgts = a.targets if isinstance(a, ast.Assign) else [a.target]
                if any(isinstance(x, ast.Name) and x.id == n for t in tgts for x in ast.walk(t)):
                    for x in ast.walk(a.value):
                        if isinstance(x, ast.Name) and x.id != n:
                            # metadata reads (shape, dtype, device) of the divisor are fine
                            todo.append(x.id)
    return False


def rule_routing(model: Model):
    obs = []
    for fs, (di, ni) in ROUTES.items():
        f = model.func(fs)
        divisor = f.params()[di]
        numerator = f.params()[ni] if ni is not None else None
        calls = [n for n in ast.walk(f.node) if isinstance(n, ast.Call) and model.resolve(f.module, n.func) == "torchtt._division.amen_divide"]
        if not calls:
            obs.append(Ob("ROUTING", f"{fs}:ROUTING:call", ERROR, model.where(f), fs, "no call of amen_divide found"))
            continue
        for i, c in enumerate(calls):
            kw = {k.arg: k.value for k in c.keywords}
            a0 = c.args[0] if c.args else kw.get("a")
            a1 = c.args[1] if len(c.args) > 1 else kw.get("b")
            k = f"{fs}:ROUTING:{i}"
            ok0 = isinstance(a0, ast.Name) and a0.id == divisor
            if numerator is not None:
                ok1 = isinstance(a1, ast.Name) and a1.id == numerator
            else:
                # scalar numerator: a train built locally, not the divisor itself (its cores' values must not come from the divisor)
                ok1 = isinstance(a1, ast.Name) and a1.id != divisor
                if ok1:
                    defs = [a for a in ast.walk(f.node) if isinstance(a, ast.Assign) and any(isinstance(t, ast.Name) and t.id == a1.id for t in a.targets)]
                    ok1 = bool(defs) and all(isinstance(d.value, ast.Call) for d in defs)
                    for d in defs:
                        for x in ast.walk(d.value):
                            if isinstance(x, ast.Attribute) and isinstance(x.value, ast.Name) and x.value.id == divisor and x.attr == "cores" and \
                                    not _is_metadata_read(d.value, x):
                                ok1 = False
            if ok0 and ok1:
                obs.append(Ob("ROUTING", k, OK, model.where(f, c), norm(c)[:80], f"operator argument is the divisor `{divisor}`, right-hand side the numerator"))
            else:
                obs.append(Ob("ROUTING", k, VIOLATED, model.where(f, c), norm(c)[:80],
                              f"{fs}: amen_divide(a, b) solves diag(a) q = b, so `a` must be the divisor `{divisor}` and `b` the numerator"
                              f"{' `' + numerator + '`' if numerator else ' (a train of ones scaled by the scalar)'}; found a = {norm(a0) if a0 is not None else '?'}, "
                              f"b = {norm(a1) if a1 is not None else '?'}"))
    return obs


def _is_metadata_read(root, attr_node):
    """`x.cores[0].dtype` / `.device` / `.shape`: reads no values"""
    for n in ast.walk(root):
        if isinstance(n, ast.Attribute) and n.attr in ("dtype", "device", "shape") and any(m is attr_node for m in ast.walk(n.value)):
            return True
    return False


def check(model: Model, tier: str):
    from ..e5 import obligations as e5ob
    from ..e5.slicetype import type_body
    obs = rule_routing(model)
    obs += e5ob.for_property(model, "C13", tier)
    obs += type_body(model, "_division.amen_divide")
    obs += rule_defattr(model, "torchtt._division.LinearOp")
    eng = Effects(model)
    from .c06 import EXCEPTIONS, verify_amen_divide_exception
    exc_ok, exc_why = verify_amen_divide_exception(model)
    for fn, params in (("_tt_base.TT.__truediv__", ("self", "other")), ("_tt_base.TT.__rtruediv__", ("self", "other")),
                       ("_extras.elementwise_divide", ("x", "y", "starting_tensor"))):
        fo = model.func(fn)
        for p in params:
            effs = [e for e in eng.summary(fo).effects if e.param == p]
            named = [e for e in effs if (e.func, e.construct) in EXCEPTIONS]
            effs = [e for e in effs if (e.func, e.construct) not in EXCEPTIONS]
            if named and not exc_ok:
                obs.append(Ob("E3-PARAM", f"{fn}:E3-PARAM:{p}:exception", VIOLATED, named[0].where, p,
                              f"`{named[0].construct}` writes the initial guess and the reason of the named exception can no longer be verified: {exc_why}"))
            obs.append(Ob("E3-PARAM", f"{fn}:E3-PARAM:{p}", VIOLATED if effs else OK, effs[0].where if effs else model.where(fo), p,
                          f"operand `{p}` is written: {effs[0].construct} in {effs[0].func}" if effs else
                          ("operand not written" + (f" (named exception: {named[0].construct} - zero-sweep path only, multiplication by one; {exc_why})" if named else ""))))
    from ..normguard import rule_zero_norm, rule_arnoldi_seed
    obs += rule_zero_norm(model, "_division.amen_divide")
    from ..normguard import rule_enrich_width
    obs += rule_enrich_width(model, "_division.amen_divide")
    fs = [model.func(a) for a in ANCHORS]
    exc = {("_division.amen_divide", "sig:=binop | =call:datetime.datetime.now"): "verbose timing only", ("_division.amen_divide", "sig:=binop | =call:datetime.datetime.now"): "verbose timing only",
           ("_division.amen_divide", "sig:=binop | =call:datetime.datetime.now"): "verbose timing only", ("_division.amen_divide", "sig:for:range(_)"): "read only in the verbose report after a zero-sweep run",
           ("_division.amen_divide", "sig:unpack[1/3]=call:gmres_restart"): "verbose report of the iterative branch only", ("_division.amen_divide", "sig:unpack[2/3]=call:gmres_restart"): "verbose report of the iterative branch only",
           ("_division.amen_divide", "sig:=call:LinearOp"): "bound in the iterative branch; read under `not use_full` (same condition)",
           ("_division.amen_divide", "sig:=call:oe.contract | =call:tn.reshape"): "bound in the direct branch; read under `use_full` (same condition)",
           ("_division.amen_divide", "sig:=call:min | =const | =item | augAdd | for:range(_.shape[1] - 1, 0, -1)"): "unassigned only for trunc_norm='fro', an option outside the property's quantifier (observed: NameError there)"}
    obs += rules.rule_defassign(model, fs, exc)
    obs += rules.rule_unres(model, fs)
    return obs, {"functions": ANCHORS}
