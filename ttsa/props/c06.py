"""C06 - operations never change the value of their operands (E3 effect analysis)."""
from __future__ import annotations

import ast

from ..effects import Effects
from ..model import Model, norm
from ..report import Ob, OK, VIOLATED, ERROR, INFO
from . import common

META = {
    "explanation": "Alias/mutation effect analysis (E3): every function of the package is summarised bottom-up over the "
                   "resolved call graph; a summary lists each in-place tensor write, subscript/attribute store or list "
                   "mutation whose target object is reachable from a parameter (views keep the root of the storage they "
                   "share). One obligation per (public entry point, parameter): no such effect outside the documented "
                   "in-place API. Each candidate sink statement is additionally classified (one obligation per sink).",
    "assumptions": ["user callbacks (function_interpolate/dmrg_cross `function`, riemannian_gradient `func`) and the C++ "
                    "extension are assumed not to mutate their arguments",
                    "an augmented assignment to a bare scalar-like parameter name is a rebinding, not a mutation",
                    "TT objects handed to user code through t.cores can be mutated by the user; not decided"],
    "floors": {"E3-PARAM": 200, "E3-SINK": 150},
}

ANCHORS = ["_tt_base.TT.__truediv__", "_tt_base.TT.__mul__", "_dmrg.dmrg_matvec_python", "_dmrg.dmrg_hadamard_python",
           "_division.amen_divide", "solvers._amen_solve_python", "_tt_base.TT.set_core", "_tt_base.TT.reduce_dims",
           "_decomposition.lr_orthogonal", "_decomposition.rl_orthogonal", "_decomposition.round_tt"]

# documented in-place API (from the property statement): (function, parameter)
ALLOW = {
    ("_tt_base.TT.set_core", "self"), ("_tt_base.TT.reduce_dims", "self"),
    ("grad.watch", "tens"), ("grad.watch_list", "tensors"), ("grad.unwatch", "tens"),
}
# one named exception, with the reason and what is re-verified on each run.  It is identified by its structure, not by names:
# the final rescale of amen_divide - the statement `<cores>[i] *= <g>` of the last top-level loop, where <g> is the geometric mean
# np.exp(np.sum(np.log(<norm tracker>)) / d) of a tracker initialised with np.ones.
EXC_FUNC = "_division.amen_divide"
EXC_REASON = ("elements of the solution core list still alias the initial guess only on the zero-sweep path (nswp = 0); there the tracker is "
              "all ones and exp(mean(log(ones))) = 1.0, a multiplication by one. Re-verified: every store into the tracker besides its np.ones "
              "initialisation and the final geometric mean lies inside the sweep loop, and both sweep directions rebind the core list's elements.")


def _final_rescale(model: Model):
    """(statement text, core list name, tracker name, sweep loop) or None"""
    if not model.has_func(EXC_FUNC):
        return None
    f = model.func(EXC_FUNC)
    tops = [n for n in f.node.body if isinstance(n, ast.For)]
    if len(tops) < 2:
        return None
    last = tops[-1]
    sweep = max(tops[:-1], key=lambda n: sum(1 for _ in ast.walk(n)))
    for st in last.body:
        # <cores>[i] *= g  inside `for i in range(d)`,  or  core *= g  inside `for core in <cores>`
        indexed = isinstance(st, ast.AugAssign) and isinstance(st.op, ast.Mult) and isinstance(st.target, ast.Subscript) and isinstance(st.target.value, ast.Name)
        direct = isinstance(st, ast.AugAssign) and isinstance(st.op, ast.Mult) and isinstance(st.target, ast.Name) and isinstance(last.target, ast.Name) \
            and st.target.id == last.target.id and isinstance(last.iter, ast.Name)
        if (indexed or direct) and isinstance(st.value, ast.Name):
            g = st.value.id
            defs = [n for n in f.node.body if isinstance(n, ast.Assign) and any(isinstance(t, ast.Name) and t.id == g for t in n.targets)]
            gm = [d for d in defs if norm(d.value).replace(" ", "").startswith("np.exp(np.sum(np.log(")]
            if gm:
                return norm(st)[:100], (st.target.value.id if indexed else last.iter.id), g, sweep, f
    return None


EXCEPTIONS = {}      # filled per run by verify_amen_divide_exception: {(function, construct text): reason}


def verify_amen_divide_exception(model: Model):
    EXCEPTIONS.clear()
    fr = _final_rescale(model)
    if fr is None:
        return False, "final rescale `<cores>[i] *= exp(mean(log(tracker)))` of amen_divide not found"
    text, cores, tracker, sweep, f = fr
    inside = {id(x) for x in ast.walk(sweep)}
    outside_stores = []
    for n in ast.walk(f.node):
        tgt = None
        if isinstance(n, ast.Assign):
            tgt = n.targets[0]
        elif isinstance(n, ast.AugAssign):
            tgt = n.target
        if tgt is None:
            continue
        base = tgt.value if isinstance(tgt, ast.Subscript) else tgt
        if isinstance(base, ast.Name) and base.id == tracker and id(n) not in inside:
            outside_stores.append(norm(n).replace(" ", ""))
    ok_forms = [x for x in outside_stores if x.startswith(f"{tracker}=np.ones(") or x.startswith(f"{tracker}=np.exp(np.sum(np.log({tracker})")]
    if len(ok_forms) != len(outside_stores):
        return False, f"the tracker `{tracker}` is also written outside the sweep loop: {outside_stores}"
    # both sweep directions rebind <cores>[v], <cores>[v-1], <cores>[v+1] (v: the position variables of the inner loops)
    pos_vars = {n.target.id for n in ast.walk(sweep) if isinstance(n, ast.For) and n is not sweep and isinstance(n.target, ast.Name)}
    rebinds = set()
    for n in ast.walk(sweep):
        if isinstance(n, ast.Assign) and isinstance(n.targets[0], ast.Subscript) and isinstance(n.targets[0].value, ast.Name) and n.targets[0].value.id == cores:
            t = norm(n.targets[0].slice).replace(" ", "")
            for v in pos_vars:
                t = t.replace(v, "k")
            rebinds.add(t)
    need = {"k", "k-1", "k+1"}
    if not need <= rebinds:
        return False, f"the sweep no longer rebinds `{cores}` at {sorted(need - rebinds)}"
    EXCEPTIONS[(EXC_FUNC, text)] = EXC_REASON
    return True, f"`{tracker}` written only inside the sweep; `{cores}`[k-1], [k], [k+1] rebound in the sweep"


def check(model: Model, tier: str):
    eng = Effects(model)
    obs = []
    pub = common.public_entry_points(model)
    pubq = {f.qual for f in pub}
    exc_ok, exc_why = verify_amen_divide_exception(model)
    # per (function, parameter) obligations
    for f in sorted(model.functions.values(), key=lambda x: x.qual):
        s = eng.summary(f)
        by_param = {}
        for e in s.effects:
            by_param.setdefault(e.param, []).append(e)
        is_pub = f.qual in pubq
        for p in f.params():
            effs = by_param.get(p, [])
            k = f"{f.short}:E3-PARAM:{p}"
            if not effs:
                if is_pub:
                    obs.append(Ob("E3-PARAM", k, OK, model.where(f), p, "no write through any reference reachable from this parameter"))
                continue
            if (f.short, p) in ALLOW:
                obs.append(Ob("E3-PARAM", k, OK, model.where(f), p, "documented in-place API (allowlisted): " +
                              "; ".join(sorted({e.construct[:50] for e in effs}))[:300]))
                continue
            for e in effs:
                ek = f"{f.short}:E3-MUTATION:{p}{''.join(e.steps)}:{e.kind}:{e.func}:{e.construct[:70]}"
                exc = EXCEPTIONS.get((e.func, e.construct))
                if exc is not None:
                    if exc_ok:
                        obs.append(Ob("E3-MUTATION", ek, INFO, e.where, e.construct, f"excepted: {exc} [{exc_why}]"))
                    else:
                        obs.append(Ob("E3-MUTATION", ek, ERROR, e.where, e.construct,
                                      f"the reason of the exception can no longer be verified: {exc_why}"))
                    continue
                chain = " => ".join(e.chain) if e.chain else "(direct)"
                detail = (f"{f.short} writes through parameter `{p}`: {e.kind} on {p}{''.join(e.steps)} at {e.where} "
                          f"in {e.func}: `{e.construct}`; call path: {chain}. The operand's cores/metadata change under "
                          "the caller (shallow copies and views share the operand's tensors)")
                if is_pub:
                    obs.append(Ob("E3-MUTATION", ek, VIOLATED, e.where, e.construct, detail))
                else:
                    obs.append(Ob("E3-MUTATION", ek, INFO, e.where, e.construct, "internal helper writes its argument: " + detail[:200]))
    # per sink statement classification (instances)
    n_sinks = 0
    for f in model.functions.values():
        for n in ast.walk(f.node):
            is_sink = isinstance(n, ast.AugAssign) or \
                (isinstance(n, ast.Assign) and any(isinstance(t, (ast.Subscript, ast.Attribute)) for t in n.targets)) or \
                (isinstance(n, ast.Call) and isinstance(n.func, ast.Attribute) and
                 ((n.func.attr.endswith("_") and not n.func.attr.endswith("__")) or n.func.attr in ("append", "extend", "insert", "pop")))
            if is_sink:
                n_sinks += 1
                obs.append(Ob("E3-SINK", f"{f.short}:E3-SINK:{norm(n)[:80]}", OK, model.where(f, n), norm(n)[:100],
                              "candidate sink classified by the effect analysis", nontrivial=True))
    # a sink that produced a public violation is re-marked
    bad = {o.construct for o in obs if o.rule == "E3-MUTATION" and o.status == VIOLATED}
    obs = [o for o in obs if not (o.rule == "E3-SINK" and o.construct[:70] in {b[:70] for b in bad})]
    return obs, {"functions": sorted(f.short for f in model.functions.values()),
                 "unmodelled": sorted(eng.unresolved)}
