"""C03 - TT-tensor arithmetic equals dense arithmetic entry for entry (exact-arithmetic identity, E5)."""
from __future__ import annotations

import ast

from .. import rules
from ..model import Model, norm
from ..report import Ob, OK, VIOLATED, ERROR, INFO
from ..e5 import obligations as e5ob

META = {
    "explanation": "Contraction-structure type checking (E5): each arithmetic entry point is abstractly interpreted over symbolic "
                   "operands (any order d via position classes first/interior/last plus the d = 1 and empty-loop forks, any mode "
                   "and rank sizes as atoms) on every structural path (operand kinds, shape-equality guards, broadcasting "
                   "alignments); the core produced for each position class is compared, by canonical form of its contraction "
                   "network / block partition, with the chain specification written from the mathematical definition (sum strands "
                   "with block-diagonal bonds and exactly one scalar factor per strand; product strands with one consistent merge "
                   "order; concatenated strands for the Kronecker product). Lemmas 1-3 of DESIGN.md lift 'every class matches' to "
                   "the dense identity for every d. Plus name resolution, definite assignment and the dtype rule for constants.",
    "assumptions": ["exact arithmetic; floating-point rounding of the products is outside the claim",
                    "scalar operands are treated as real when conjugated", "torch.einsum / reshape / pad semantics as modelled in ttsa/e5/net.py"],
    "floors": {"E5-CHAIN": 300, "UNRES": 100, "DEFASSIGN": 30, "DTYPE": 4},
}
ANCHORS = ["_tt_base.TT.__add__", "_tt_base.TT.__sub__", "_tt_base.TT.__rsub__", "_tt_base.TT.__mul__", "_tt_base.TT.__truediv__",
           "_tt_base.TT.__neg__", "_tt_base.TT.__pow__", "_tt_base.TT.__rpow__", "_tt_base.TT.full", "_extras.kron",
           "_extras.ones", "_extras.zeros", "_extras.eye", "_extras.rank1TT", "_extras.meshgrid"]


def rule_dtype(model: Model, funcs):
    """DTYPE: constants created inside arithmetic branches take their dtype from an operand core."""
    obs = []
    from ..inline import inlined
    for fs in funcs:
        f = inlined(model, model.func(fs))      # constants created in an extracted private helper are read in place
        for n in ast.walk(f.node):
            if isinstance(n, ast.Call) and model.resolve(f.module, n.func) in ("torch.ones", "torch.zeros", "torch.eye", "torchtt._extras.ones",
                                                                              "torchtt._extras.zeros", "torchtt._extras.eye"):
                kw = {k.arg: k.value for k in n.keywords}
                k = f"{fs}:DTYPE:{norm(n)[:70]}"
                def derived(e, depth=0):
                    """True: the dtype expression reads an operand's dtype; False: it is a fixed torch dtype; None: not known"""
                    t = norm(e)
                    if ".dtype" in t or t == "dtype":
                        return True
                    if isinstance(e, ast.Name) and depth < 3:
                        defs = [a.value for a in ast.walk(f.node) if isinstance(a, ast.Assign) and len(a.targets) == 1 and isinstance(a.targets[0], ast.Name)
                                and a.targets[0].id == e.id]
                        if defs:
                            res = [derived(d, depth + 1) for d in defs]
                            return True if all(r is True for r in res) else (False if any(r is False for r in res) else None)
                        return None
                    r = model.resolve(f.module, e) if isinstance(e, (ast.Attribute, ast.Name)) else None
                    if r and r.startswith("torch.") and r.rsplit(".", 1)[-1] in ("float64", "float32", "float16", "double", "float", "complex128", "complex64", "int64", "int32"):
                        return False
                    return None
                dv = derived(kw["dtype"]) if "dtype" in kw else None
                if "dtype" in kw and dv is True:
                    obs.append(Ob("DTYPE", k, OK, model.where(f, n), norm(n)[:100], "dtype taken from an operand core"))
                elif "dtype" in kw and dv is None:
                    obs.append(Ob("DTYPE", k, INFO, model.where(f, n), norm(n)[:100], "dtype given by an expression this rule does not resolve (the dense counterpart is decided by E5)"))
                elif "dtype" in kw:
                    obs.append(Ob("DTYPE", k, VIOLATED, model.where(f, n), norm(n)[:100],
                                  f"constant created with the fixed dtype `{norm(kw['dtype'])}`: combined with the operand's cores it "
                                  "changes the result dtype (e.g. float32 operands promoted to float64)"))
                elif (model.resolve(f.module, n.func) or "").startswith("torchtt._extras."):
                    obs.append(Ob("DTYPE", k, VIOLATED, model.where(f, n), norm(n)[:100],
                                  "library factory called without dtype inside an arithmetic branch: it defaults to float64, so the result of "
                                  "the operation does not keep the operand's dtype (complex / float32 operands)"))
                else:
                    obs.append(Ob("DTYPE", k, INFO, model.where(f, n), norm(n)[:100],
                                  "constant created without dtype (torch default float32): exact after promotion for float32/64 and "
                                  "complex operands; the result dtype changes only for half-precision operands"))
    return obs


def check(model: Model, tier: str):
    obs = e5ob.for_property(model, "C03", tier)
    scope = [model.func(a) for a in ANCHORS]
    obs += rules.rule_unres(model, scope)
    obs += rules.rule_defassign(model, scope)
    from .c13 import rule_recip
    obs += rule_recip(model)      # division by a scalar: one correctly rounded division
    obs += rule_dtype(model, ["_tt_base.TT.__add__", "_tt_base.TT.__sub__", "_tt_base.TT.__mul__", "_tt_base.TT.__rtruediv__"])
    from ..dtypekind import rule_narrow
    obs += rule_narrow(model, [f for f in scope if f.name != "__repr__"])
    return obs, {"functions": ANCHORS}
