"""DEF-ATTR: every attribute an instance method reads was assigned by the constructor in the same configuration.

For a plain class (constructor parameters select which fields exist), the constructor's assignments `self.X = ...` are
collected with their path conditions; every read of `self.X` in another method carries its own path condition.  Conditions
are boolean formulas over atoms taken from the code (`prec == 'c'`, `band_diagonal >= 0`, `x is None`); `self.p` is the
parameter `p` when the constructor copies it unconditionally.  Atoms comparing one variable with different constants form a
finite value domain (the constants seen + 'anything else'), all other atoms are free booleans.  The obligation
    read condition  =>  assigned(X)
is decided by enumerating the (small) space of configurations; a falsifying configuration is reported with the read site.
Loops in the constructor are treated as possibly empty (an assignment inside a loop does not count)."""
from __future__ import annotations

import ast
import itertools

from .model import Model, Func, norm
from .report import Ob, OK, VIOLATED, ERROR, INFO

TRUE = ("true",)
FALSE = ("false",)


def f_and(*fs):
    fs = [f for f in fs if f != TRUE]
    if any(f == FALSE for f in fs):
        return FALSE
    if not fs:
        return TRUE
    return fs[0] if len(fs) == 1 else ("and", tuple(fs))


def f_or(*fs):
    fs = [f for f in fs if f != FALSE]
    if any(f == TRUE for f in fs):
        return TRUE
    if not fs:
        return FALSE
    return fs[0] if len(fs) == 1 else ("or", tuple(fs))


def f_not(f):
    if f == TRUE:
        return FALSE
    if f == FALSE:
        return TRUE
    if f[0] == "not":
        return f[1]
    return ("not", f)


class _Cond:
    """translate test expressions into formulas; atoms are (var, op, const) or ('bool', text)"""

    def __init__(self, alias):
        self.alias = alias          # attribute name -> constructor parameter name

    def name_of(self, e):
        if isinstance(e, ast.Name):
            return e.id
        if isinstance(e, ast.Attribute) and isinstance(e.value, ast.Name) and e.value.id == "self":
            return self.alias.get(e.attr, "self." + e.attr)
        return None

    def text(self, e):
        class R(ast.NodeTransformer):
            def visit_Attribute(s, n):
                nm = self.name_of(n)
                if nm is not None and not nm.startswith("self."):
                    return ast.copy_location(ast.Name(id=nm, ctx=ast.Load()), n)
                return s.generic_visit(n)
        import copy
        return norm(R().visit(copy.deepcopy(e)))

    def formula(self, e):
        if isinstance(e, ast.BoolOp):
            parts = [self.formula(v) for v in e.values]
            return f_and(*parts) if isinstance(e.op, ast.And) else f_or(*parts)
        if isinstance(e, ast.UnaryOp) and isinstance(e.op, ast.Not):
            return f_not(self.formula(e.operand))
        if isinstance(e, ast.Constant) and isinstance(e.value, bool):
            return TRUE if e.value else FALSE
        if isinstance(e, ast.Compare) and len(e.ops) == 1:
            l, r, op = e.left, e.comparators[0], e.ops[0]
            if isinstance(l, ast.Constant) and not isinstance(r, ast.Constant):
                l, r = r, l
            v = self.name_of(l)
            if v is not None and isinstance(r, ast.Constant) and isinstance(op, (ast.Eq, ast.NotEq, ast.Is, ast.IsNot)):
                at = ("val", v, repr(r.value))
                return at if isinstance(op, (ast.Eq, ast.Is)) else f_not(at)
            if v is not None and isinstance(op, (ast.In, ast.NotIn)) and isinstance(r, (ast.Tuple, ast.List, ast.Set)) \
                    and all(isinstance(x, ast.Constant) for x in r.elts):
                f = f_or(*[("val", v, repr(x.value)) for x in r.elts])
                return f if isinstance(op, ast.In) else f_not(f)
        return ("bool", self.text(e))


def _atoms(f, acc):
    if f[0] in ("val", "bool"):
        acc.add(f)
    elif f[0] == "not":
        _atoms(f[1], acc)
    elif f[0] in ("and", "or"):
        for g in f[1]:
            _atoms(g, acc)


def _eval(f, env):
    k = f[0]
    if k == "true":
        return True
    if k == "false":
        return False
    if k == "val":
        return env[("var", f[1])] == f[2]
    if k == "bool":
        return env[f]
    if k == "not":
        return not _eval(f[1], env)
    if k == "and":
        return all(_eval(g, env) for g in f[1])
    return any(_eval(g, env) for g in f[1])


def counterexample(premise, conclusion):
    atoms = set()
    _atoms(premise, atoms)
    _atoms(conclusion, atoms)
    doms = {}
    bools = []
    for a in sorted(atoms):
        if a[0] == "val":
            doms.setdefault(("var", a[1]), set()).add(a[2])
        else:
            bools.append(a)
    keys = list(doms) + bools
    spaces = [sorted(doms[k]) + ["<any other value>"] for k in doms] + [[True, False]] * len(bools)
    n = 1
    for s in spaces:
        n *= len(s)
    if n > 200000:
        return "too-many"
    for combo in itertools.product(*spaces):
        env = dict(zip(keys, combo))
        if _eval(premise, env) and not _eval(conclusion, env):
            return env
    return None


def _show_env(env):
    out = []
    for k, v in env.items():
        if k[0] == "var":
            out.append(f"{k[1]} = {v}")
        else:
            out.append(f"({k[1]}) is {v}")
    return ", ".join(out)


class _Walker:
    """collects (kind, attr, node, path-condition) for stores / loads of self.<attr> under if/elif/else nesting"""

    def __init__(self, cond: _Cond):
        self.cond = cond
        self.events = []

    def block(self, stmts, pc, in_loop=False):
        for s in stmts:
            pc = self.stmt(s, pc, in_loop)
            if pc == FALSE:
                break
        return pc

    def expr(self, e, pc, in_loop):
        if e is None:
            return
        if isinstance(e, ast.BoolOp):
            acc = pc
            for v in e.values:
                self.expr(v, acc, in_loop)
                fv = self.cond.formula(v)
                acc = f_and(acc, fv if isinstance(e.op, ast.And) else f_not(fv))
            return
        if isinstance(e, ast.IfExp):
            self.expr(e.test, pc, in_loop)
            t = self.cond.formula(e.test)
            self.expr(e.body, f_and(pc, t), in_loop)
            self.expr(e.orelse, f_and(pc, f_not(t)), in_loop)
            return
        if isinstance(e, ast.Attribute) and isinstance(e.value, ast.Name) and e.value.id == "self" and isinstance(e.ctx, ast.Load):
            self.events.append(("load", e.attr, e, pc, in_loop))
            return
        if isinstance(e, (ast.Lambda, ast.ListComp, ast.GeneratorExp, ast.SetComp, ast.DictComp)):
            for c in ast.walk(e):
                if c is not e and isinstance(c, ast.Attribute) and isinstance(c.value, ast.Name) and c.value.id == "self" and isinstance(c.ctx, ast.Load):
                    self.events.append(("load", c.attr, c, pc, True))
            return
        for c in ast.iter_child_nodes(e):
            if isinstance(c, ast.expr):
                self.expr(c, pc, in_loop)

    def stmt(self, s, pc, in_loop):
        if isinstance(s, ast.If):
            self.expr(s.test, pc, in_loop)
            t = self.cond.formula(s.test)
            a = self.block(s.body, f_and(pc, t), in_loop)
            b = self.block(s.orelse, f_and(pc, f_not(t)), in_loop)
            return f_or(a, b)
        if isinstance(s, (ast.For, ast.While)):
            if isinstance(s, ast.For):
                self.expr(s.iter, pc, in_loop)
            else:
                self.expr(s.test, pc, in_loop)
            self.block(s.body, pc, True)
            self.block(s.orelse, pc, in_loop)
            return pc
        if isinstance(s, (ast.Return, ast.Raise)):
            self.expr(getattr(s, "value", None) or getattr(s, "exc", None), pc, in_loop)
            return FALSE
        if isinstance(s, ast.Try):
            # reads inside try bodies may be protected by the handler: not judged; stores there are not counted
            return pc
        if isinstance(s, ast.With):
            for it in s.items:
                self.expr(it.context_expr, pc, in_loop)
            return self.block(s.body, pc, in_loop)
        if isinstance(s, (ast.Assign, ast.AugAssign, ast.AnnAssign)):
            self.expr(s.value, pc, in_loop)
            targets = s.targets if isinstance(s, ast.Assign) else [s.target]
            for t in targets:
                for n in ast.walk(t):
                    if isinstance(n, ast.Attribute) and isinstance(n.value, ast.Name) and n.value.id == "self" and isinstance(n.ctx, ast.Store):
                        if isinstance(s, ast.AugAssign):
                            self.events.append(("load", n.attr, n, pc, in_loop))
                        self.events.append(("store", n.attr, n, pc, in_loop))
                    elif isinstance(n, ast.expr) and not isinstance(n, (ast.Name, ast.Attribute, ast.Tuple, ast.List, ast.Starred)):
                        self.expr(n, pc, in_loop)
            return pc
        if isinstance(s, ast.Expr):
            self.expr(s.value, pc, in_loop)
            return pc
        if isinstance(s, (ast.FunctionDef, ast.ClassDef, ast.Pass, ast.Import, ast.ImportFrom, ast.Global, ast.Nonlocal, ast.Break, ast.Continue)):
            return pc
        for c in ast.iter_child_nodes(s):
            if isinstance(c, ast.expr):
                self.expr(c, pc, in_loop)
        return pc


def rule_defattr(model: Model, cls_q: str) -> list[Ob]:
    obs = []
    cnode = model.classes.get(cls_q)
    if cnode is None:
        return [Ob("DEF-ATTR", f"{cls_q}:DEF-ATTR:anchor", ERROR, "", cls_q, f"class {cls_q} vanished")]
    short = cls_q.split(".", 1)[1]
    init = model.functions.get(cls_q + ".__init__")
    methods = [f for q, f in model.functions.items() if q.startswith(cls_q + ".") and q.count(".") == cls_q.count(".") + 1]
    if init is None:
        return [Ob("DEF-ATTR", f"{short}:DEF-ATTR:no-init", INFO, "", cls_q, "class has no constructor of its own")]
    params = set(init.params()[1:])
    # unconditional copies self.p = p at the top level of the constructor
    alias = {}
    for s in init.node.body:
        if isinstance(s, ast.Assign) and len(s.targets) == 1 and isinstance(s.value, ast.Name) and s.value.id in params:
            t = s.targets[0]
            if isinstance(t, ast.Attribute) and isinstance(t.value, ast.Name) and t.value.id == "self":
                alias[t.attr] = s.value.id
    # attributes re-assigned outside the constructor are not constructor-determined
    mutable = set()
    for f in methods:
        if f is init:
            continue
        for n in ast.walk(f.node):
            if isinstance(n, ast.Attribute) and isinstance(n.value, ast.Name) and n.value.id == "self" and isinstance(n.ctx, ast.Store):
                mutable.add(n.attr)
    alias = {a: p for a, p in alias.items() if a not in mutable}
    cond = _Cond(alias)
    w = _Walker(cond)
    completes = w.block(init.node.body, TRUE)      # configurations in which the constructor returns normally
    assigned = {}
    for kind, attr, node, pc, in_loop in w.events:
        if kind == "store" and not in_loop:
            assigned[attr] = f_or(assigned.get(attr, FALSE), pc)
    stored_anywhere = {a for k, a, *_ in w.events if k == "store"} | mutable
    class_level = {t.id for s in cnode.body if isinstance(s, ast.Assign) for t in s.targets if isinstance(t, ast.Name)}
    method_names = {f.name for f in methods}
    # a private method is entered only where the class itself calls it: its reads carry the condition of those call sites
    walkers = {}
    for f in methods:
        if f is not init and f.params() and f.params()[0] == "self":
            mw = _Walker(cond)
            mw.block(f.node.body, TRUE)
            walkers[f.name] = (f, mw)
    used_elsewhere = set()
    for mod in model.modules.values():
        for n in ast.walk(mod.tree):
            if isinstance(n, ast.Attribute) and n.attr in walkers and not (isinstance(n.value, ast.Name) and n.value.id == "self"):
                used_elsewhere.add(n.attr)
    init_uses = {attr for kind, attr, *_ in w.events if kind != "store"}

    def entry(name, seen=()):
        if not (name.startswith("_") and not name.startswith("__")) or name in used_elsewhere or name in init_uses or name in seen:
            return TRUE
        sites = []
        for cname, (cf, cw) in walkers.items():
            for kind, attr, node, pc, in_loop in cw.events:
                if kind != "store" and attr == name:
                    sites.append(f_and(pc, entry(cname, seen + (name,))))
        return f_or(*sites) if sites else TRUE
    for f in methods:
        if f is init:
            continue
        if not f.params() or f.params()[0] != "self":
            continue
        f, mw = walkers[f.name]
        enter = entry(f.name)
        local_store = {}
        for kind, attr, node, pc, in_loop in mw.events:
            if kind == "store":
                local_store.setdefault(attr, []).append(node.lineno)
                continue
            if attr in method_names or attr in class_level or attr.startswith("__"):
                continue
            if attr not in stored_anywhere:
                continue      # inherited / externally provided: the name-resolution rule's business
            if attr in mutable and attr not in assigned:
                continue
            if attr in local_store and min(local_store[attr]) <= node.lineno:
                continue
            k = f"{f.short}:DEF-ATTR:self.{attr}@{norm(node)}:{_ordinal(f, node)}"
            cex = counterexample(f_and(pc, enter, completes), assigned.get(attr, FALSE))
            if cex is None:
                obs.append(Ob("DEF-ATTR", k, OK, model.where(f, node), f"self.{attr}", "assigned by the constructor in every configuration that reaches this read",
                              nontrivial=assigned.get(attr) != TRUE))
            elif cex == "too-many":
                obs.append(Ob("DEF-ATTR", k, ERROR, model.where(f, node), f"self.{attr}", "configuration space too large to enumerate"))
            else:
                obs.append(Ob("DEF-ATTR", k, VIOLATED, model.where(f, node), f"self.{attr}",
                              f"{f.short} reads self.{attr}, but {short}.__init__ does not assign it in the configuration [{_show_env(cex)}] "
                              f"that reaches this read: AttributeError at run time"))
    return obs


def _ordinal(f: Func, node):
    same = [n for n in ast.walk(f.node) if isinstance(n, ast.Attribute) and norm(n) == norm(node) and isinstance(n.ctx, ast.Load)]
    same.sort(key=lambda n: (n.lineno, n.col_offset))
    for i, n in enumerate(same):
        if n is node:
            return i
    return 0
