"""E5 - contraction-structure ("strand-chain") type checker.

Abstract interpretation of the repository's core-building code over *types* (symbolic sizes, contraction
networks with merged and block-partitioned axes), compared by canonical form against chain specifications
written from the mathematical definitions.  No tensor value is ever computed, no path condition is handed
to a solver; unknown constructs end in `Unmodelled` (exit 2), never in a verdict.
"""
