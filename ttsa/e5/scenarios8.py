"""E5 scenario catalogue, part 8 (C05): the class invariant of TT, decided by *evaluating* the real constructor and the two in-place
writers on plain symbolic objects instead of matching the shape of their source.

An instance is a plain object whose fields are whatever `TT.__init__` stored.  For trains of order 1..3 with pairwise independent
symbolic sizes (tensor and operator cores) the scenarios run

    ctor        TT(cores)                       - every returning path must leave an object that satisfies INV, and the facts of the path
                                                  must entail that the given cores chain (equal neighbouring bonds, boundary ranks 1):
                                                  a list that does not chain has to be rejected
    ctor-mixed  TT(cores of mixed / wrong axis counts) - no path may return
    set_core    x.set_core(k, new core)         - on every returning path INV holds again (new core of independent sizes: a path that
                                                  returns has to have tested both bonds and the axis count)
    reduce_dims x.reduce_dims()                 - on trains with singleton modes at fixed positions: INV holds on every returning path

INV(x): cores are all 3-axis (is_ttm False) or all 4-axis (is_ttm True); R = [c.shape[0] for c] + [last.shape[-1]] entry by entry;
R[0] = R[-1] = 1; N (and M) are the column (row) modes of the cores; shape is N resp. the list of pairs (M, N); neighbouring cores agree
on their bond.  Sizes are compared under the facts of the path; anything not provable has a counterexample (the sizes are independent)."""
from __future__ import annotations

from . import net
from .net import TypeViolation, Unmodelled
from .scenarios import scn
from .sym import P, ONE
from .values import *

TTQ = "torchtt._tt_base.TT"


def _sz(n):
    return P.atom(n)


def _cores(it, d, ttm, tag="c", modes=None, chain=True):
    """d cores with independent sizes; chain=True: neighbouring bonds share an atom and the boundary ranks are 1"""
    sp = it.sp
    out = []
    for j in range(d):
        for a in (f"{tag}l{j}", f"{tag}r{j}", f"{tag}n{j}", f"{tag}m{j}", f"r{j}"):
            it.facts.lb[a] = 1
        if chain:
            left = ONE if j == 0 else _sz(f"r{j}")
            right = ONE if j == d - 1 else _sz(f"r{j + 1}")
        else:
            left, right = _sz(f"{tag}l{j}"), _sz(f"{tag}r{j}")
        n = modes[j] if modes else _sz(f"{tag}n{j}")
        md = [_sz(f"{tag}m{j}") if not (modes and modes[j] == ONE) else ONE, n] if ttm else [n]
        out.append(VTensor(net.atom_tensor(sp, f"{tag}{j}", [left] + md + [right]), "dtype:x"))
    return out


def _new_obj(it, model, cores):
    obj = VObj(TTQ, {})
    it.call_function(model.functions[TTQ + ".__init__"], [VList(list(cores))], {}, recv=obj)
    return obj


def _attr(obj, name):
    for k in (name, "_TT" + name):
        if k in obj.attrs:
            return obj.attrs[k]
    return None


def invariant(out, obj):
    """[(subkey, ok, detail)] for INV on the object under the facts of the path"""
    eq = lambda a, b: out.facts.norm(a) == out.facts.norm(b)
    cores = _attr(obj, "cores")
    R, N, M, ttm, shape = _attr(obj, "__R"), _attr(obj, "__N"), _attr(obj, "__M"), _attr(obj, "__is_ttm"), _attr(obj, "shape")
    res = []
    missing = [nm for nm, v in (("cores", cores), ("R", R), ("N", N), ("is_ttm", ttm), ("shape", shape)) if v is None]
    if missing:
        return [("fields", False, f"the object has no field(s) {missing} on this path (AttributeError on first use)")]
    if not (isinstance(cores, VList) and all(isinstance(c, VTensor) for c in cores.items)):
        return [("fields", False, "the core list is not a list of tensors")]
    if not cores.items:
        return [("fields", True, "empty train")]
    shp = [c.block().shape() for c in cores.items]
    nd = {len(s) for s in shp}
    flag = ttm.v if isinstance(ttm, VBool) else None
    ok = len(nd) == 1 and nd <= {3, 4} and flag is not None and flag == (nd == {4})
    res.append(("kind", ok, "all cores have 3 (4) axes and is_ttm says so" if ok else
                f"the cores have {sorted(nd)} axes while is_ttm is {flag}: the object does not describe one kind of train"))
    if not ok:
        return res

    def ints(v):
        return [x.p for x in v.items] if isinstance(v, (VList, VTuple)) and all(isinstance(x, VInt) for x in v.items) else None
    r, n = ints(R), ints(N)
    d = len(shp)
    want_r = [s[0] for s in shp] + [shp[-1][-1]]
    okr = r is not None and len(r) == d + 1 and all(eq(a, b) for a, b in zip(r, want_r))
    res.append(("R", okr, "R lists the bonds of the cores" if okr else f"R = {r} does not list the bonds of the cores {want_r}"))
    okb = eq(shp[0][0], ONE) and eq(shp[-1][-1], ONE) and all(eq(shp[j][-1], shp[j + 1][0]) for j in range(d - 1))
    res.append(("chain", okb, "neighbouring cores agree on their bond, boundary ranks are 1" if okb else
                "neighbouring cores do not provably agree on their bond / the boundary ranks are not provably 1: an object that does not chain exists"))
    want_n = [s[-2] for s in shp]
    okn = n is not None and len(n) == d and all(eq(a, b) for a, b in zip(n, want_n))
    res.append(("N", okn, "N lists the (column) modes" if okn else f"N = {n} is not the list of (column) modes {want_n} of the cores"))
    if flag:
        mm = ints(M) if M is not None else None
        want_m = [s[1] for s in shp]
        okm = mm is not None and len(mm) == d and all(eq(a, b) for a, b in zip(mm, want_m))
        res.append(("M", okm, "M lists the row modes" if okm else f"M = {mm} is not the list of row modes {want_m} of the cores"))
        oks = isinstance(shape, VList) and len(shape.items) == d and all(
            isinstance(x, VTuple) and len(x.items) == 2 and all(isinstance(y, VInt) for y in x.items) and eq(x.items[0].p, want_m[j]) and eq(x.items[1].p, want_n[j])
            for j, x in enumerate(shape.items))
    else:
        sh = ints(shape)
        oks = sh is not None and len(sh) == d and all(eq(a, b) for a, b in zip(sh, want_n))
    res.append(("shape", oks, "shape describes the modes" if oks else "the attribute `shape` does not describe the modes of the cores (stale or wrong)"))
    return res


def _pack(obj):
    return VTuple((VNone(), obj))


def _chk(out):
    v = out.value
    if not (isinstance(v, VTuple) and len(v.items) == 2 and isinstance(v.items[1], VObj)):
        return [("result", False, "the call could not be evaluated")]
    return invariant(out, v.items[1])


# --------------------------------------------------------------------------- constructor

def _drv_ctor(d, ttm, chain):
    def drv(it, model):
        return _pack(_new_obj(it, model, _cores(it, d, ttm, chain=chain)))
    return drv


for _d in (1, 2, 3):
    for _ttm in (False, True):
        scn(name=f"TT.__init__:cores,d{_d},{'ttm' if _ttm else 'tt'}", func="_tt_base.TT.__init__", props=("C05",), args=None,
            driver=_drv_ctor(_d, _ttm, True), check=_chk)
        # independent bonds: a returning path must have established that the list chains
        scn(name=f"TT.__init__:unchained,d{_d},{'ttm' if _ttm else 'tt'}", func="_tt_base.TT.__init__", props=("C05",), args=None,
            driver=_drv_ctor(_d, _ttm, False), check=_chk, min_returns=1)


def _drv_ctor_mixed(kinds):
    def drv(it, model):
        sp = it.sp
        cs = []
        for j, nax in enumerate(kinds):
            left = ONE if j == 0 else _sz(f"r{j}")
            right = ONE if j == len(kinds) - 1 else _sz(f"r{j + 1}")
            for a in (f"r{j}", f"r{j + 1}", f"a{j}", f"b{j}", f"c{j}"):
                it.facts.lb[a] = 1
            mid = [_sz(f"a{j}"), _sz(f"b{j}"), _sz(f"c{j}")][:nax - 2]
            cs.append(VTensor(net.atom_tensor(sp, f"k{j}", [left] + mid + [right]), "dtype:x"))
        return _pack(_new_obj(it, model, cs))
    return drv


for _kinds in ((3, 4), (4, 3), (3, 3, 4), (4, 4, 3), (3, 5), (2,), (5,), (3, 2), (4, 2, 4)):
    scn(name=f"TT.__init__:axis-counts{list(_kinds)}", func="_tt_base.TT.__init__", props=("C05",), args=None,
        driver=_drv_ctor_mixed(_kinds), check=lambda out: [("result", False, "a core list that mixes axis counts / holds a core that is neither 3- nor 4-axis "
                                                                       "is accepted: the object's N/M/shape cannot describe its cores")],
        must_raise=True, min_returns=0)


# --------------------------------------------------------------------------- set_core

def _drv_set_core(d, ttm, k):
    def drv(it, model):
        obj = _new_obj(it, model, _cores(it, d, ttm))
        new = _cores(it, 1, ttm, tag="new", chain=False)[0]
        it.call_function(model.functions[TTQ + ".set_core"], [VInt(P.const(k)), new], {}, recv=obj)
        return _pack(obj)
    return drv


# (negative positions: the pinned code rejects them; a version that accepts them python-style has to test the bonds of the core it really replaces)
for _d, _k in ((1, 0), (2, 0), (2, 1), (3, 1), (3, -1), (3, -2), (2, -2)):
    for _ttm in (False, True):
        scn(name=f"TT.set_core:d{_d},k{_k},{'ttm' if _ttm else 'tt'}", func="_tt_base.TT.set_core", props=("C05",), args=None,
            driver=_drv_set_core(_d, _ttm, _k), check=_chk, min_returns=1 if _k >= 0 else 0)


def _drv_set_core_wrong_kind(ttm):
    def drv(it, model):
        obj = _new_obj(it, model, _cores(it, 2, ttm))
        new = _cores(it, 1, not ttm, tag="new", chain=False)[0]
        it.call_function(model.functions[TTQ + ".set_core"], [VInt(P.const(0)), new], {}, recv=obj)
        return _pack(obj)
    return drv


for _ttm in (False, True):
    scn(name=f"TT.set_core:wrong-axis-count,{'ttm' if _ttm else 'tt'}", func="_tt_base.TT.set_core", props=("C05",), args=None,
        driver=_drv_set_core_wrong_kind(_ttm), check=_chk, min_returns=0)


# --------------------------------------------------------------------------- reduce_dims

def _drv_reduce(pattern, ttm):
    def drv(it, model):
        modes = [ONE if c == "1" else _sz(f"n{j}") for j, c in enumerate(pattern)]
        obj = _new_obj(it, model, _cores(it, len(pattern), ttm, modes=modes))
        it.call_function(model.functions[TTQ + ".reduce_dims"], [], {}, recv=obj)
        return _pack(obj)
    return drv


for _pat in ("n1n", "1nn", "nn1", "n11", "1n", "n1", "nnn"):
    for _ttm in (False, True):
        scn(name=f"TT.reduce_dims:{_pat},{'ttm' if _ttm else 'tt'}", func="_tt_base.TT.reduce_dims", props=("C05",), args=None,
            driver=_drv_reduce(_pat, _ttm), check=_chk, min_returns=1)


# --------------------------------------------------------------------------- to_qtt on trains with concrete power-of-two modes (C10)
# The whole method is evaluated (the constructor and to_tt included, SVD by its shape laws): the result has to be a train whose every mode
# is `mode_size`, with as many modes as the input has bits, cores chaining, and built from the input's cores.

def _drv_to_qtt(sizes, ms):
    def drv(it, model):
        modes = [P.const(n) for n in sizes]
        obj = _new_obj(it, model, _cores(it, len(sizes), False, modes=modes))
        res = it.call_function(model.functions[TTQ + ".to_qtt"], [], {"mode_size": VInt(P.const(ms))}, recv=obj)
        return VTuple((res, VObj("_state", {"sizes": VList([VInt(m) for m in modes]), "ms": VInt(P.const(ms))})))
    return drv


def _chk_to_qtt(out):
    import math
    v = out.value
    if not (isinstance(v, VTuple) and len(v.items) == 2 and isinstance(v.items[1], VObj)):
        return [("result", False, "the call could not be evaluated")]
    res, st = v.items[0], v.items[1].attrs
    sizes = [int(x.p.const_value()) for x in st["sizes"].items]
    ms = int(st["ms"].p.const_value())
    cores = None
    if isinstance(res, VTT):
        cores = res.cores if isinstance(getattr(res, "cores", None), VList) else None
    elif isinstance(res, VObj):
        cores = _attr(res, "cores")
    if not (isinstance(cores, VList) and all(isinstance(c, VTensor) for c in cores.items)):
        return [("result", False, f"to_qtt does not return a train with a concrete core list ({type(res).__name__})")]
    bits = 0
    for n in sizes:
        k = 0
        while ms ** (k + 1) <= n:
            k += 1
        bits += max(k, 1) if n != 1 else 1
    shp = [c.block().shape() for c in cores.items]
    eq = lambda a, b: out.facts.norm(a) == out.facts.norm(b)
    out_res = []
    okm = all(len(s) == 3 and eq(s[1], P.const(ms)) for s in shp)
    out_res.append(("modes", okm, f"every mode of the result is {ms}" if okm else
                    f"the result has modes {[repr(out.facts.norm(s[1])) if len(s) == 3 else '?' for s in shp]} for input modes {sizes}: not every mode is {ms}"))
    okn = len(shp) == bits
    out_res.append(("count", okn, f"{bits} modes for input modes {sizes}" if okn else f"the result has {len(shp)} modes where input modes {sizes} have {bits} digits in base {ms}"))
    okc = bool(shp) and eq(shp[0][0], ONE) and eq(shp[-1][-1], ONE) and all(eq(shp[j][-1], shp[j + 1][0]) for j in range(len(shp) - 1))
    out_res.append(("chain", okc, "the cores chain, boundary ranks 1" if okc else "neighbouring cores of the result do not provably agree on their bond"))
    txt = " ".join(c.dense().canon() for c in cores.items)
    oku = all(f"c{j}" in txt for j in range(len(sizes)))
    out_res.append(("cores-used", oku, "every input core enters the result" if oku else "an input core does not enter the result: the value cannot be the reshaped input"))
    return out_res


from .stepfn import factor_hooks as _factor_hooks

for _sizes, _ms in (((4,), 2), ((8,), 2), ((2, 4), 2), ((4, 8, 2), 2), ((16, 2), 2), ((2, 2), 2), ((9, 3), 3)):
    scn(name=f"to_qtt:N={list(_sizes)},mode_size={_ms}", func="_tt_base.TT.to_qtt", props=("C10",), args=None,
        driver=_drv_to_qtt(_sizes, _ms), check=_chk_to_qtt, hooks=_factor_hooks(), min_returns=1)


# --------------------------------------------------------------------------- reshape on trains with concrete modes (C10)
# The real merge / split loop is walked for fixed factorisations: every path that returns must produce exactly the requested modes, cores
# that chain, and use every input core (a dropped core loses its factor - a sign / phase when it only carried a singleton mode).

def _drv_reshape(sizes, target, ttm=False):
    def drv(it, model):
        modes = [P.const(n) for n in sizes]
        obj = _new_obj(it, model, _cores(it, len(sizes), ttm, modes=modes) if not ttm else
                       [VTensor(net.atom_tensor(it.sp, f"c{j}", [ONE if j == 0 else _sz(f"r{j}"), P.const(n), P.const(n), ONE if j == len(sizes) - 1 else _sz(f"r{j + 1}")]), "dtype:x")
                        for j, n in enumerate(sizes)])
        for j in range(len(sizes) + 1):
            it.facts.lb[f"r{j}"] = 1
        shp = VList([VTuple((VInt(P.const(a)), VInt(P.const(a)))) if ttm else VInt(P.const(a)) for a in target])
        it.sp.allow_regroup = True       # torchtt.reshape implements the dense reshape: re-grouping across modes is its purpose
        res = it.call_function(model.func("_extras.reshape"), [obj, shp], {})
        return VTuple((res, VObj("_state", {"n": VInt(P.const(len(sizes))), "target": VList([VInt(P.const(a)) for a in target]), "ttm": VBool(ttm)})))
    return drv


def _chk_reshape(out):
    v = out.value
    if not (isinstance(v, VTuple) and len(v.items) == 2 and isinstance(v.items[1], VObj)):
        return [("result", False, "the call could not be evaluated")]
    res, st = v.items[0], v.items[1].attrs
    target = [int(x.p.const_value()) for x in st["target"].items]
    ttm = st["ttm"].v
    n = int(st["n"].p.const_value())
    cores = getattr(res, "cores", None) if isinstance(res, VTT) else (_attr(res, "cores") if isinstance(res, VObj) else None)
    if not (isinstance(cores, VList) and all(isinstance(c, VTensor) for c in cores.items)):
        return [("result", False, f"reshape does not return a train with a concrete core list ({type(res).__name__})")]
    shp = [c.block().shape() for c in cores.items]
    eq = lambda a, b: out.facts.norm(a) == out.facts.norm(b)
    nax = 4 if ttm else 3
    got = [[repr(out.facts.norm(x)) for x in s[1:-1]] for s in shp]
    okm = len(shp) == len(target) and all(len(s) == nax and all(eq(x, P.const(t)) for x in s[1:-1]) for s, t in zip(shp, target))
    res_l = [("modes", okm, f"the result has the requested modes {target}" if okm else f"the result has modes {got} where {target} were requested")]
    okc = bool(shp) and eq(shp[0][0], ONE) and eq(shp[-1][-1], ONE) and all(eq(shp[j][-1], shp[j + 1][0]) for j in range(len(shp) - 1))
    res_l.append(("chain", okc, "the cores chain, boundary ranks 1" if okc else "neighbouring cores of the result do not provably agree on their bond"))
    txt = " ".join(c.dense().canon() for c in cores.items)
    missing = [j for j in range(n) if f"c{j}" not in txt]
    res_l.append(("cores-used", not missing, "every input core enters the result" if not missing else
                  f"input core(s) {missing} do not enter the result: their factor (for a singleton mode: a sign or phase) is lost"))
    return res_l


for _src, _tgt in (((4, 3), (2, 6)), ((2, 6), (4, 3)), ((6,), (2, 3)), ((2, 3), (6,)), ((4, 3, 1), (12,)), ((6,), (2, 3, 1, 1)), ((2, 3), (1, 2, 3)),
                   ((12,), (2, 1, 3, 2)), ((2, 1, 3), (6,)), ((2, 2, 2), (4, 2)), ((1, 6), (3, 2)), ((6, 1, 1), (2, 3)),
                   ((6, 2), (4, 3)), ((3, 4), (2, 6)), ((2, 3, 4), (4, 6)), ((8,), (2, 2, 2)), ((3, 1, 2), (1, 6, 1))):
    scn(name=f"reshape:{list(_src)}->{list(_tgt)}", func="_extras.reshape", props=("C10",), args=None,
        driver=_drv_reshape(_src, _tgt), check=_chk_reshape, hooks=_factor_hooks(), min_returns=1)
for _src, _tgt in (((4, 3), (2, 6)), ((6,), (2, 3)), ((2, 3, 1), (6,)), ((6,), (3, 2, 1)), ((6, 2), (4, 3)), ((2, 6), (4, 3))):
    scn(name=f"reshape.ttm:{list(_src)}->{list(_tgt)}", func="_extras.reshape", props=("C10",), args=None,
        driver=_drv_reshape(_src, _tgt, True), check=_chk_reshape, hooks=_factor_hooks(), min_returns=1)


# --------------------------------------------------------------------------- qtt_to_tens: QTT cores folded back into the original modes (C10)

def _drv_qtt_back(sizes, target):
    def drv(it, model):
        modes = [P.const(n) for n in sizes]
        obj = _new_obj(it, model, _cores(it, len(sizes), False, modes=modes))
        res = it.call_function(model.functions[TTQ + ".qtt_to_tens"], [VList([VInt(P.const(a)) for a in target])], {}, recv=obj)
        return VTuple((res, VObj("_state", {"n": VInt(P.const(len(sizes))), "target": VList([VInt(P.const(a)) for a in target]), "ttm": VBool(False)})))
    return drv


for _src, _tgt in (((2, 2, 2, 2, 2), (4, 8)), ((2, 2), (4,)), ((2, 2, 2), (2, 4)), ((2, 2), (2, 2)), ((3, 3, 3), (9, 3)), ((2, 2, 2, 2), (16,))):
    scn(name=f"qtt_to_tens:{list(_src)}->{list(_tgt)}", func="_tt_base.TT.qtt_to_tens", props=("C10",), args=None,
        driver=_drv_qtt_back(_src, _tgt), check=_chk_reshape, min_returns=1)
for _src, _tgt in (((2, 2, 2), (4, 4)), ((2, 2, 2), (4,)), ((2, 2), (8,))):
    scn(name=f"qtt_to_tens:{list(_src)}->{list(_tgt)} (no such folding)", func="_tt_base.TT.qtt_to_tens", props=("C10", "C18"), args=None,
        driver=_drv_qtt_back(_src, _tgt), check=_chk_reshape, must_raise=True, any_exception=True, min_returns=0)


# --------------------------------------------------------------------------- to_qtt of square operators (goes through reshape)

def _drv_to_qtt_ttm(rows, cols, ms):
    def drv(it, model):
        cs = [VTensor(net.atom_tensor(it.sp, f"c{j}", [ONE if j == 0 else _sz(f"r{j}"), P.const(m), P.const(n), ONE if j == len(rows) - 1 else _sz(f"r{j + 1}")]), "dtype:x")
              for j, (m, n) in enumerate(zip(rows, cols))]
        for j in range(len(rows) + 1):
            it.facts.lb[f"r{j}"] = 1
        obj = _new_obj(it, model, cs)
        it.sp.allow_regroup = True
        res = it.call_function(model.functions[TTQ + ".to_qtt"], [], {"mode_size": VInt(P.const(ms))}, recv=obj)
        bits = []
        for n in cols:
            k = 0
            while ms ** (k + 1) <= n:
                k += 1
            bits += [ms] * k
        return VTuple((res, VObj("_state", {"n": VInt(P.const(len(rows))), "target": VList([VInt(P.const(a)) for a in bits]), "ttm": VBool(True)})))
    return drv


for _rows, _cols in (((4,), (4,)), ((4, 2), (4, 2)), ((2, 8), (2, 8))):
    scn(name=f"to_qtt.ttm:{list(_rows)}x{list(_cols)}", func="_tt_base.TT.to_qtt", props=("C10",), args=None,
        driver=_drv_to_qtt_ttm(_rows, _cols, 2), check=_chk_reshape, hooks=_factor_hooks(), min_returns=1)
for _rows, _cols in (((4,), (2,)), ((6,), (6,)), ((4, 2), (4, 4))):
    scn(name=f"to_qtt.ttm:{list(_rows)}x{list(_cols)} (not a square power of the mode size)", func="_tt_base.TT.to_qtt", props=("C10", "C18"), args=None,
        driver=_drv_to_qtt_ttm(_rows, _cols, 2), check=_chk_reshape, hooks=_factor_hooks(), must_raise=True, any_exception=True, min_returns=0)
