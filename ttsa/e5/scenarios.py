"""E5 scenario catalogue: entry points, operand kinds, chain specifications (DESIGN.md Appendix B).

Every specification below is written from the mathematical definition of the operation (which operand cores are
contracted over which mode, which bonds are merged / block-summed in which order, which scalar multiplies which
strand), never from the code under analysis.  Lemmas 1-3 of DESIGN.md Appendix A turn "every position class matches"
into "the dense value equals the specified network for every order d".
"""
from __future__ import annotations

from dataclasses import dataclass, field

from . import net
from .net import Dense, Block, Coef, COEF1, Unmodelled, TypeViolation, Term, Atom
from .spec import SpecIt, expr, diag_block, compare, iter_positions, as_block, Pos
from .sym import P, ONE, ZERO
from .torchmodel import make_tt, core_atom, rank_atom, mode_atom
from .values import *

TT = "_tt_base.TT."
LIB_EXC = ("ShapeMismatch", "IncompatibleTypes", "InvalidArguments", "NotImplementedError", "RankMismatch")


@dataclass
class Scn:
    name: str
    func: str
    args: object                 # fn(it) -> (recv, args, kwargs)
    check: object                # fn(outcome) -> list[(subkey, ok, detail)]
    props: tuple
    hooks: dict = field(default_factory=dict)
    presets: dict = field(default_factory=dict)
    min_returns: int = 1
    must_raise: bool = False
    notes: str = ""
    compat: object = None        # fn(sit, out) -> list[(name, ok, detail)]: on a returning path the facts must entail compatibility
    waive: tuple = ()            # (substring of an identification context, reason): size identifications that need no guard
    driver: object = None        # fn(it, model) -> value: a composition of repository calls evaluated in one space (instead of func/args)
    strict_sizes: bool = False   # operands carry independent generic sizes: any further identification is a violation
    tier: str = "quick"          # "thorough": evaluated by the thorough command only (deeper concrete orders)
    any_exception: bool = False  # must_raise scenarios: any exception satisfies the property (out-of-range positions: IndexError is fine)
    valid_operands: bool = False # the operands are assumed compatible (facts installed by `args`): a library exception on any path rejects a valid input


SCENARIOS: list[Scn] = []


def scn(**kw):
    s = Scn(**kw)
    SCENARIOS.append(s)
    return s


# --------------------------------------------------------------------------- generic chain checks

def _sit(out, facts):
    return SpecIt(out.space, facts if facts is not None else out.facts)


def _dec_tag(dec):
    return "".join(("T" if v else "F") for _, v in dec)


def _sub(p: Pos):
    return f"seg{p.seg}.{p.label}" + ("." + _dec_tag(p.decisions) if p.decisions else "")


def chain_check(core_spec, result_d=None):
    """Product-strand / single-strand chains (Lemma 1).  core_spec(sit, pos: Pos) -> {bond-order id: expected value}.
    Every position class must match, and one common bond order must be admissible at all positions."""
    def check(out):
        res = []
        common = None
        if not isinstance(out.value, VTT):
            return [("result", False, f"a {type(out.value).__name__} is returned where a TT object is specified")]
        for p in iter_positions(out.value, out.facts):
            if p.raised:
                res.append((_sub(p) + ".raises", True, f"position class raises {p.raised}"))
                continue
            sit = _sit(out, p.facts)
            alts = core_spec(sit, p)
            matched, why = set(), ""
            for oid, exp in alts.items():
                ok, detail, _ = compare(out.space, p.item, exp)
                if ok:
                    matched.add(oid)
                else:
                    why = detail
            if not matched:
                res.append((_sub(p), False, f"core of position class `{p.label}` (position {p.pos!r}) does not match the chain "
                                            f"specification: {why}"))
            else:
                res.append((_sub(p), True, f"matches (bond order {sorted(matched)})"))
                common = matched if common is None else (common & matched)
        if common is not None and not common and all(r[1] for r in res):
            res.append(("bond-order", False, "each core matches some merge order of the bonds, but no single order is used on both "
                                            "sides of every bond (Lemma 1: the right order at position i must be the left order at i+1)"))
        out.space.facts = out.facts
        return res
    return check


def strand_check(strand_spec, targets, result_d):
    """Sum-strand chains (Lemma 2).  strand_spec(sit, pos) -> list of (strand id, Dense core with unit coefficient).
    targets: {strand id: Coef} - the product of the scalar coefficients along each strand; result_d(sit) -> order of the result."""
    def check(out):
        res = []
        coefs = {}
        if not isinstance(out.value, VTT):
            return [("result", False, f"a {type(out.value).__name__} is returned where a TT object is specified")]
        for p in iter_positions(out.value, out.facts):
            if p.raised:
                res.append((_sub(p) + ".raises", True, f"position class raises {p.raised}"))
                continue
            sit = _sit(out, p.facts)
            strands = strand_spec(sit, p)
            nm = len(as_block(p.item).parts) - 2
            is_first = sit.facts.compare(p.pos, "==", 0)
            is_last = sit.facts.compare(p.pos, "==", result_d(sit) - 1)
            if is_first is None or is_last is None:
                res.append((_sub(p), False, f"cannot decide whether position {p.pos!r} is a boundary of the train"))
                continue
            exp = diag_block(sit, [d for _, d in strands], nm, share_left=is_first, share_right=is_last)
            ok, detail, cf = compare(out.space, p.item, exp, up_to_coef=True)
            if not ok:
                res.append((_sub(p), False, f"core of position class `{p.label}` (position {p.pos!r}) is not the block-diagonal "
                                            f"sum-strand core: {detail}"))
                continue
            res.append((_sub(p), True, "block structure matches"))
            for (key, s), (ca, ce) in cf.items():
                sid = None
                for st, d in strands:
                    if any(m in s for m in _markers(st)):
                        sid = st
                if sid is None:
                    sid = "?"
                coefs.setdefault(sid, []).append(((p.seg, p.label), ca))
        for sid in sorted(set(coefs) | set(targets)):
            lst = coefs.get(sid, [])
            groups = {}
            for g, c in lst:
                groups.setdefault(g, []).append(c)
            prod = COEF1
            bad = None
            for g, cs in groups.items():
                if any(c != cs[0] for c in cs):
                    bad = f"alternative cores at {g} carry different factors {[c.show() for c in cs]}"
                if g[1] == "interior":
                    if cs[0] != COEF1:
                        bad = f"the interior cores of strand `{sid}` carry the factor {cs[0].show()}, which is applied a " \
                              "symbolic number of times"
                else:
                    prod = prod * cs[0]
            tgt = targets.get(sid, COEF1)
            if bad is None and lst and prod != tgt:
                bad = f"the scalar factors along strand `{sid}` multiply to {prod.show()}; the operation specifies {tgt.show()}"
            if lst:
                res.append((f"coef.{sid}", bad is None, bad or f"factors along strand `{sid}` multiply to {tgt.show()}"))
        out.space.facts = out.facts
        return res
    return check


def _markers(st):
    return {"x": ["x@"], "y": ["y@", "1("], "A": ["A@"], "B": ["B@", "1("], "s": ["1("], "t0": ["t0@"], "t1": ["t1@"], "t2": ["t2@"]}.get(st, [st + "@"])


def raises_check(out):
    return []


def no_value_check(out):
    return []


def seq_entailed(facts, sa: str, sb: str, da, db):
    """do the facts of the path entail that the mode sequences sa and sb are equal (same length, same entries)?"""
    if not facts.eq(da, db):
        return False, f"the orders {facts.norm(P.of(da))!r} and {facts.norm(P.of(db))!r} are not known to be equal"
    if facts.seq_rep(sa) == facts.seq_rep(sb):
        return True, ""
    d = facts.norm(P.of(da))
    for x, y in ((sa, sb), (sb, sa)):
        for rep, lo, hi in facts.partial.get(x, []) + facts.partial.get(facts.seq_rep(x), []):
            if facts.seq_rep(rep) == facts.seq_rep(y) and facts.eq(lo, 0) and facts.eq(hi, d):
                return True, ""
    c = d.const_value()
    if c is not None:
        ok = all(facts.eq(P.atom(f"{facts.seq_rep(sa)}[{k}]"), P.atom(f"{facts.seq_rep(sb)}[{k}]")) for k in range(int(c)))
        if ok:
            return True, ""
    return False, f"no guard on this path establishes {sa} == {sb} at every position"


def compat_seqs(*pairs):
    """pairs: (seqA, seqB, operandA, operandB)"""
    def fn(sit, out):
        res = []
        for sa, sb, oa, ob in pairs:
            ok, why = seq_entailed(out.facts, sa, sb, P.atom(f"d_{oa}"), P.atom(f"d_{ob}"))
            res.append((f"compat.{sa}={sb}", ok, f"returning implies {sa} == {sb}" if ok else
                        f"a value is returned although {why}: incompatible operands (order mismatch, or a mismatch at a position the guard "
                        "does not look at) are accepted"))
        return res
    return fn


def dx(sit):
    return sit.facts.norm(P.atom("d_x"))


def S():
    return Coef.sym("s")


# --------------------------------------------------------------------------- C04: __matmul__, t

def _matmul_spec(kind):
    def spec(sit, p: Pos):
        k = p.pos
        A = make_tt(sit, "A", True)
        if kind == "ttm@tt":
            x = make_tt(sit, "x", False)
            a, b = sit.core(A, k), sit.core(x, k)
            return {"(A,x)": expr(sit, [(a, "amnb"), (b, "cnd")], ["ac", "m", "bd"]),
                    "(x,A)": expr(sit, [(a, "amnb"), (b, "cnd")], ["ca", "m", "db"])}
        if kind == "ttm@ttm":
            B = make_tt(sit, "B", True)
            a, b = sit.core(A, k), sit.core(B, k)
            return {"(A,B)": expr(sit, [(a, "amkb"), (b, "cknd")], ["ac", "m", "n", "bd"]),
                    "(B,A)": expr(sit, [(a, "amkb"), (b, "cknd")], ["ca", "m", "n", "db"])}
        x = make_tt(sit, "x", False)
        a, b = sit.core(A, k), sit.core(x, k)
        # y_j = sum_i x_i A_ij : x's mode is contracted with A's ROW mode, A's column mode stays open
        return {"(A,x)": expr(sit, [(a, "aijb"), (b, "cid")], ["ac", "j", "bd"]),
                "(x,A)": expr(sit, [(a, "aijb"), (b, "cid")], ["ca", "j", "db"])}
    return spec


scn(name="matmul:ttm@tt", func=TT + "__matmul__", props=("C04", "C18"), compat=compat_seqs(("N_A", "N_x", "A", "x")),
    args=lambda it: (make_tt(it, "A", True), [make_tt(it, "x", False)], {}), check=chain_check(_matmul_spec("ttm@tt")))
scn(name="matmul:ttm@ttm", func=TT + "__matmul__", props=("C04", "C18"), compat=compat_seqs(("N_A", "M_B", "A", "B")),
    args=lambda it: (make_tt(it, "A", True), [make_tt(it, "B", True)], {}), check=chain_check(_matmul_spec("ttm@ttm")))
scn(name="matmul:tt@ttm", func=TT + "__matmul__", props=("C04", "C18"), compat=compat_seqs(("N_x", "M_A", "x", "A")),
    args=lambda it: (make_tt(it, "x", False), [make_tt(it, "A", True)], {}), check=chain_check(_matmul_spec("tt@ttm")))
scn(name="matmul:tt@tt", func=TT + "__matmul__", props=("C18",), must_raise=True, min_returns=0,
    args=lambda it: (make_tt(it, "x", False), [make_tt(it, "y", False)], {}), check=raises_check)


def _t_spec(sit, p):
    A = make_tt(sit, "A", True)
    return {"-": expr(sit, [(sit.core(A, p.pos), "amnb")], ["a", "n", "m", "b"])}


scn(name="t:ttm", func=TT + "t", props=("C04",), args=lambda it: (make_tt(it, "A", True), [], {}), check=chain_check(_t_spec))
scn(name="t:tt", func=TT + "t", props=("C18",), must_raise=True, min_returns=0,
    args=lambda it: (make_tt(it, "x", False), [], {}), check=raises_check)


# --------------------------------------------------------------------------- elementwise product  x * y

def _y_index(sit, pos):
    """torch-style trailing alignment: mode j of y meets mode j + (d_x - d_y) of x.  Returns j, or None when y has no mode there."""
    j = sit.facts.norm(pos - (P.atom("d_x") - P.atom("d_y")))
    c = sit.facts.compare(j, ">=", 0)
    if c is None:
        raise Unmodelled(f"cannot decide whether y has a mode at position {pos!r}")
    return j if c else None


def _mul_spec(ttm):
    def spec(sit, p: Pos):
        x, y = make_tt(sit, "x", ttm), make_tt(sit, "y", ttm)
        a = sit.core(x, p.pos)
        if ttm:
            b = sit.core(y, p.pos)
            return {"(x,y)": expr(sit, [(a, "aijb"), (b, "cijd")], ["ac", "i", "j", "bd"]),
                    "(y,x)": expr(sit, [(a, "aijb"), (b, "cijd")], ["ca", "i", "j", "db"])}
        j = _y_index(sit, p.pos)
        if j is None:
            return {"(x,y)": a, "(y,x)": sit.core(x, p.pos)}
        b = sit.core(y, j)
        ny, nx = mode_atom(sit, "N", "y", j), mode_atom(sit, "N", "x", p.pos)
        if sit.facts.eq(ny, ONE) and not sit.facts.eq(nx, ONE):
            # size-1 mode of y is broadcast: its (unit) mode wire stays dangling, x's mode stays open
            return {"(x,y)": expr(sit, [(a, "aib"), (b, "cud")], ["ac", "i", "bd"]),
                    "(y,x)": expr(sit, [(a, "aib"), (b, "cud")], ["ca", "i", "db"])}
        return {"(x,y)": expr(sit, [(a, "aib"), (b, "cid")], ["ac", "i", "bd"]),
                "(y,x)": expr(sit, [(a, "aib"), (b, "cid")], ["ca", "i", "db"])}
    return spec


scn(name="mul:tt*tt", func=TT + "__mul__", props=("C03", "C18"),
    args=lambda it: (make_tt(it, "x", False), [make_tt(it, "y", False)], {}), check=chain_check(_mul_spec(False)))
scn(name="mul:ttm*ttm", func=TT + "__mul__", props=("C04", "C18"), compat=compat_seqs(("M_x", "M_y", "x", "y"), ("N_x", "N_y", "x", "y")),
    args=lambda it: (make_tt(it, "x", True), [make_tt(it, "y", True)], {}), check=chain_check(_mul_spec(True)))
scn(name="mul:tt*ttm", func=TT + "__mul__", props=("C18",), must_raise=True, min_returns=0,
    args=lambda it: (make_tt(it, "x", False), [make_tt(it, "y", True)], {}), check=raises_check)


def _scaled_spec(name, ttm, total: Coef):
    """single strand with total scalar factor `total` (x*s, x/s, -x, +x)."""
    def strands(sit, p):
        x = make_tt(sit, name, ttm)
        return [(name, sit.core(x, p.pos))]
    return strand_check(strands, {name: total}, lambda sit: sit.facts.norm(P.atom(f"d_{name}")))


for _kind in ("int", "float", "complex", "tensor0"):
    for _ttm in (False, True):
        scn(name=f"mul:{'ttm' if _ttm else 'tt'}*scalar[{_kind}]", func=TT + "__mul__", props=("C04" if _ttm else "C03",),
            args=(lambda k, m: (lambda it: (make_tt(it, "x", m), [VScalar(S(), k)], {})))(_kind, _ttm),
            presets={"scalar == 0": False}, check=_scaled_spec("x", _ttm, S()))
scn(name="rmul:scalar*tt", func=TT + "__rmul__", props=("C03",),
    args=lambda it: (make_tt(it, "x", False), [VScalar(S(), "float")], {}), presets={"scalar == 0": False}, check=_scaled_spec("x", False, S()))
for _ttm in (False, True):
    scn(name=f"truediv:{'ttm' if _ttm else 'tt'}/scalar", func=TT + "__truediv__", props=("C04" if _ttm else "C03", "C13"),
        args=(lambda m: (lambda it: (make_tt(it, "x", m), [VScalar(S(), "float")], {})))(_ttm), check=_scaled_spec("x", _ttm, S().inv()))
    scn(name=f"neg:{'ttm' if _ttm else 'tt'}", func=TT + "__neg__", props=("C04" if _ttm else "C03",),
        args=(lambda m: (lambda it: (make_tt(it, "x", m), [], {})))(_ttm), check=_scaled_spec("x", _ttm, Coef(-1)))
    scn(name=f"pos:{'ttm' if _ttm else 'tt'}", func=TT + "__pos__", props=("C04" if _ttm else "C03",),
        args=(lambda m: (lambda it: (make_tt(it, "x", m), [], {})))(_ttm), check=_scaled_spec("x", _ttm, COEF1))


def _zero_check(out):
    res = []
    for p in iter_positions(out.value, out.facts):
        b = as_block(p.item)
        nz = [k for k, d in b.blocks.items() if d.canon() != "0"]
        sit = _sit(out, p.facts)
        x = make_tt(sit, "x", out.value.is_ttm)
        exp_shape = [ONE] + ([mode_atom(sit, "M", "x", p.pos)] if out.value.is_ttm else []) + [mode_atom(sit, "N", "x", p.pos), ONE]
        ok = not nz and [sit.facts.norm(s) for s in b.shape()] == [sit.facts.norm(s) for s in exp_shape]
        res.append((_sub(p), ok, "zero core of the operand's mode shape" if ok else
                    f"x * 0 must consist of zero cores of shape {exp_shape}; found shape {b.shape()} with non-zero blocks {nz}"))
        dt = getattr(p.item, "dtype", "?")
        okd = dt.startswith("dtype:x")
        res.append((_sub(p) + ".dtype", okd, "zero core created with the operand's dtype" if okd else
                    f"the zero cores of x * 0 are created with dtype `{dt}` instead of the operand's dtype: the result dtype differs from dense 0 * X "
                    "for complex / float32 operands"))
    return res


for _ttm in (False, True):
    scn(name=f"mul:{'ttm' if _ttm else 'tt'}*0", func=TT + "__mul__", props=("C04" if _ttm else "C03",),
        args=(lambda m: (lambda it: (make_tt(it, "x", m), [VScalar(S(), "float")], {})))(_ttm),
        presets={"scalar == 0": True}, check=_zero_check)


# --------------------------------------------------------------------------- x + y, x - y  (sum strands)

def _tiled_y(sit, j, nx):
    """y's core at j with its size-1 mode broadcast to size nx: 1_{nx} on the mode, y's unit mode wire dangling."""
    y = make_tt(sit, "y", False)
    b = sit.core(y, j)
    ones = net.ones_tensor(sit.sp, [nx])
    return expr(sit, [(b, "cud"), (ones, "n")], ["c", "n", "d"])


def _addsub_tt_spec(sit, p: Pos):
    x, y = make_tt(sit, "x", False), make_tt(sit, "y", False)
    a = sit.core(x, p.pos)
    j = _y_index(sit, p.pos)
    nx = mode_atom(sit, "N", "x", p.pos)
    if j is None:
        # y has no mode here: it is constant along this mode -> ones core, bond 1 (the strand continues into y)
        return [("x", a), ("y", net.ones_tensor(sit.sp, [ONE, nx, ONE]))]
    ny = mode_atom(sit, "N", "y", j)
    if sit.facts.eq(ny, ONE) and not sit.facts.eq(nx, ONE):
        return [("x", a), ("y", _tiled_y(sit, j, nx))]
    return [("x", a), ("y", sit.core(y, j))]


def _addsub_ttm_spec(sit, p: Pos):
    x, y = make_tt(sit, "x", True), make_tt(sit, "y", True)
    return [("x", sit.core(x, p.pos)), ("y", sit.core(y, p.pos))]


def _scalar_strand_spec(ttm):
    def spec(sit, p: Pos):
        x = make_tt(sit, "x", ttm)
        shape = [ONE] + ([mode_atom(sit, "M", "x", p.pos)] if ttm else []) + [mode_atom(sit, "N", "x", p.pos), ONE]
        return [("x", sit.core(x, p.pos)), ("s", net.ones_tensor(sit.sp, shape))]
    return spec


for _op, _sgn in (("add", 1), ("sub", -1)):
    scn(name=f"{_op}:tt,tt", func=TT + f"__{_op}__", props=("C03", "C18"),
        args=lambda it: (make_tt(it, "x", False), [make_tt(it, "y", False)], {}),
        check=strand_check(_addsub_tt_spec, {"x": COEF1, "y": Coef(_sgn)}, dx))
    scn(name=f"{_op}:ttm,ttm", func=TT + f"__{_op}__", props=("C04", "C18"), compat=compat_seqs(("M_x", "M_y", "x", "y"), ("N_x", "N_y", "x", "y")),
        args=lambda it: (make_tt(it, "x", True), [make_tt(it, "y", True)], {}),
        check=strand_check(_addsub_ttm_spec, {"x": COEF1, "y": Coef(_sgn)}, dx))
    scn(name=f"{_op}:tt,ttm", func=TT + f"__{_op}__", props=("C18",), must_raise=True, min_returns=0,
        args=lambda it: (make_tt(it, "x", False), [make_tt(it, "y", True)], {}), check=raises_check)
    for _kind in ("float", "numpy", "tensor0", "tensor1"):
        for _ttm in (False, True):
            scn(name=f"{_op}:{'ttm' if _ttm else 'tt'},scalar[{_kind}]", func=TT + f"__{_op}__", props=("C04" if _ttm else "C03",),
                args=(lambda k, m: (lambda it: (make_tt(it, "x", m), [VScalar(S(), k)], {})))(_kind, _ttm),
                check=strand_check(_scalar_strand_spec(_ttm), {"x": COEF1, "s": S() * Coef(_sgn)}, dx))
scn(name="radd:scalar+tt", func=TT + "__radd__", props=("C03",),
    args=lambda it: (make_tt(it, "x", False), [VScalar(S(), "float")], {}),
    check=strand_check(_scalar_strand_spec(False), {"x": COEF1, "s": S()}, dx))
scn(name="rsub:scalar-tt", func=TT + "__rsub__", props=("C03",),
    args=lambda it: (make_tt(it, "x", False), [VScalar(S(), "float")], {}),
    check=strand_check(_scalar_strand_spec(False), {"x": Coef(-1), "s": S()}, dx))
scn(name="add:tt,badtype", func=TT + "__add__", props=("C18",), must_raise=True, min_returns=0,
    args=lambda it: (make_tt(it, "x", False), [VList([VInt(ONE)])], {}), check=raises_check)
scn(name="sub:tt,badtype", func=TT + "__sub__", props=("C18",), must_raise=True, min_returns=0,
    args=lambda it: (make_tt(it, "x", False), [VList([VInt(ONE)])], {}), check=raises_check)


# --------------------------------------------------------------------------- Kronecker product  x ** y, kron

def _kron_check(ttm):
    def spec(sit, p: Pos):
        x, y = make_tt(sit, "x", ttm), make_tt(sit, "y", ttm)
        d_x = sit.facts.norm(P.atom("d_x"))
        c = sit.facts.compare(p.pos, "<", d_x)
        if c is None:
            raise Unmodelled(f"cannot decide on which side of the seam position {p.pos!r} lies")
        if c:
            return {"-": sit.core(x, p.pos)}
        return {"-": sit.core(y, sit.facts.norm(p.pos - d_x))}
    return chain_check(spec)


for _ttm in (False, True):
    scn(name=f"pow:{'ttm' if _ttm else 'tt'}", func=TT + "__pow__", props=("C04" if _ttm else "C03",),
        args=(lambda m: (lambda it: (make_tt(it, "x", m), [make_tt(it, "y", m)], {})))(_ttm), check=_kron_check(_ttm))
    scn(name=f"kron:{'ttm' if _ttm else 'tt'}", func="_extras.kron", props=("C04" if _ttm else "C03",),
        args=(lambda m: (lambda it: (None, [make_tt(it, "x", m), make_tt(it, "y", m)], {})))(_ttm), check=_kron_check(_ttm))
scn(name="pow:None", func=TT + "__pow__", props=("C03",),
    args=lambda it: (make_tt(it, "x", False), [VNone()], {}), check=_scaled_spec("x", False, COEF1))
scn(name="rpow:None**tt", func=TT + "__rpow__", props=("C03",),
    args=lambda it: (make_tt(it, "x", False), [VNone()], {}), check=_scaled_spec("x", False, COEF1))
scn(name="pow:tt**ttm", func=TT + "__pow__", props=("C18",), must_raise=True, min_returns=0,
    args=lambda it: (make_tt(it, "x", False), [make_tt(it, "y", True)], {}), check=raises_check)
