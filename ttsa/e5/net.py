"""Contraction networks with merged and block-partitioned axes (the abstract tensor values of E5)."""
from __future__ import annotations

import itertools
from dataclasses import dataclass, field
from fractions import Fraction

from .sym import P, ONE, ZERO, Facts


class Unmodelled(Exception):
    """A construct or shape manipulation outside the modelled fragment (-> analysis error, never a verdict)."""


class TypeViolation(Exception):
    """A definite structural contradiction (e.g. axis count mismatch that torch would reject at run time)."""


# --------------------------------------------------------------------------- scalar coefficients

@dataclass(frozen=True)
class Coef:
    c: Fraction = Fraction(1)
    syms: tuple = ()        # sorted tuple of (symbol, power)

    def __mul__(self, o):
        if not isinstance(o, Coef):
            o = Coef(Fraction(o))
        d = dict(self.syms)
        for s, p in o.syms:
            d[s] = d.get(s, 0) + p
        return Coef(self.c * o.c, tuple(sorted((s, p) for s, p in d.items() if p != 0)))

    def inv(self):
        return Coef(1 / self.c, tuple((s, -p) for s, p in self.syms))

    def neg(self):
        return Coef(-self.c, self.syms)

    @staticmethod
    def sym(name):
        return Coef(Fraction(1), ((name, 1),))

    def show(self):
        parts = []
        if self.c != 1 or not self.syms:
            parts.append(str(self.c))
        for s, p in self.syms:
            parts.append(s if p == 1 else f"{s}^{p}")
        return "*".join(parts)


COEF1 = Coef()


# --------------------------------------------------------------------------- wires / atoms / terms

class Space:
    """Wire registry of one analysed path: sizes and a union-find for identified wires."""

    def __init__(self, facts: Facts):
        self.facts = facts
        self.size: dict[int, P] = {}
        self.parent: dict[int, int] = {}
        self.tag: dict[int, str] = {}
        self.n = 0
        self.obligations: list = []     # size identifications: dict(a=, b=, ok=, where=)
        self.where = ""                 # current statement (set by the interpreter)
        self.notes: list = []

    def new(self, size, tag="") -> int:
        self.n += 1
        w = self.n
        self.size[w] = P.of(size)
        self.parent[w] = w
        self.tag[w] = tag
        return w

    def find(self, w):
        while self.parent[w] != w:
            self.parent[w] = self.parent[self.parent[w]]
            w = self.parent[w]
        return w

    def sz(self, w) -> P:
        return self.facts.norm(self.size[self.find(w)])

    def unify(self, a, b, ctx=""):
        """Identify two wires (an einsum letter shared by two operands, an elementwise op).  Records the size
        obligation: discharged iff the sizes are equal under the facts established by guards on this path."""
        a, b = self.find(a), self.find(b)
        if a == b:
            return
        sa, sb = self.sz(a), self.sz(b)
        ok = (sa == sb)
        self.obligations.append({"a": repr(sa), "b": repr(sb), "ok": ok, "where": self.where, "ctx": ctx,
                                 "tags": (self.tag.get(a, ""), self.tag.get(b, ""))})
        # keep the lower id as representative (deterministic)
        lo, hi = (a, b) if a < b else (b, a)
        self.parent[hi] = lo
        if not self.tag.get(lo):
            self.tag[lo] = self.tag.get(hi, "")

    def is_unit(self, w) -> bool:
        return self.sz(w) == ONE

    def wire_size_raw(self, w) -> P:
        """the size the wire was created with (before the facts of the path are applied)"""
        return self.size[self.find(w)]


@dataclass
class Atom:
    name: str
    conj: bool
    axes: tuple      # tuple of axes, each a tuple of wires (merged, row-major)

    def wires(self):
        return [w for ax in self.axes for w in ax]


REAL_ATOMS = ("δ", "1", "e[", "sel[", "0")


@dataclass
class Term:
    coef: Coef
    atoms: list
    out: list        # list of axes; axis = tuple of wires (merged row-major); () = unit axis


class Dense:
    """Formal sum of contraction networks with a common list of output axes (by size)."""

    def __init__(self, space: Space, terms: list[Term]):
        self.space = space
        self.terms = terms

    # -- basic queries
    def ndim(self):
        if not self.terms:
            raise Unmodelled("rank of an empty sum")
        return len(self.terms[0].out)

    def axis_size(self, k) -> P:
        t = self.terms[0]
        s = ONE
        for w in t.out[k]:
            s = s * self.space.sz(w)
        return self.space.facts.norm(s)

    def shape(self):
        return [self.axis_size(k) for k in range(self.ndim())]

    def fresh(self) -> "Dense":
        """Copy with fresh wires (a tensor value used twice must not share wires between its uses)."""
        sp = self.space
        out_terms = []
        for t in self.terms:
            m = {}

            def f(w):
                r = sp.find(w)
                if r not in m:
                    m[r] = sp.new(sp.size[r], sp.tag.get(r, ""))
                    if r in getattr(sp, "tested", ()) or w in getattr(sp, "tested", ()):
                        sp.tested.add(m[r])
                return m[r]
            atoms = [Atom(a.name, a.conj, tuple(tuple(f(w) for w in ax) for ax in a.axes)) for a in t.atoms]
            out = [tuple(f(w) for w in ax) for ax in t.out]
            out_terms.append(Term(t.coef, atoms, out))
        return Dense(sp, out_terms)

    def scale(self, c: Coef) -> "Dense":
        return Dense(self.space, [Term(t.coef * c, t.atoms, t.out) for t in self.terms])

    def conj(self) -> "Dense":
        ts = []
        for t in self.terms:
            atoms = [Atom(a.name, (not a.conj) if not a.name.startswith(REAL_ATOMS) else a.conj, a.axes) for a in t.atoms]
            ts.append(Term(t.coef, atoms, t.out))     # scalar coefficients are treated as real (stated assumption)
        return Dense(self.space, ts)

    def add(self, o: "Dense", _swapped=False) -> "Dense":
        """Elementwise sum: output axes are identified position-wise (sizes -> obligations).  A *literal* unit axis of one
        summand facing a sized axis of the other is broadcast (torch semantics for constants built by the code)."""
        if not self.terms:
            return o
        if not o.terms:
            return self
        sp = self.space
        a, b = self, o.fresh()
        if a.ndim() != b.ndim():
            raise TypeViolation(f"elementwise sum of tensors with {a.ndim()} and {b.ndim()} axes")
        ref = a.terms[0].out

        def sized(ax):
            return [w for w in ax if not sp.is_unit(w)]
        need_swap = any(not sized(ra) and sized(oa) for ra, oa in zip(ref, b.terms[0].out))
        if need_swap:
            if _swapped or any(sized(ra) and not sized(oa) for ra, oa in zip(ref, b.terms[0].out)):
                raise Unmodelled("elementwise sum with unit axes on both sides")
            return o.add(self, _swapped=True)
        new_terms = list(a.terms)
        for t in b.terms:
            out = _align_axes(sp, ref, t.out, "elementwise +")
            atoms = list(t.atoms)
            fixed = []
            for ax in out:
                if isinstance(ax, tuple) and len(ax) == 2 and ax[0] == "BCAST":
                    w = sp.new(sp.sz(ax[1][0]), "bcast")
                    sp.unify(w, ax[1][0], "broadcast of a literal unit axis")
                    atoms.append(Atom("1", False, ((w,),)))
                    fixed.append(ax[1])
                else:
                    fixed.append(ax)
            new_terms.append(Term(t.coef, atoms, fixed))
        return Dense(sp, new_terms)

    def permute(self, perm) -> "Dense":
        n = self.ndim()
        if sorted(perm) != list(range(n)):
            raise TypeViolation(f"permute{tuple(perm)} on a tensor with {n} axes")
        return Dense(self.space, [Term(t.coef, t.atoms, [t.out[p] for p in perm]) for t in self.terms])

    # -- canonical form
    def canon(self) -> str:
        sp = self.space
        acc = {}
        for t in self.terms:
            cf, key = canon_term_full(sp, t)
            c = acc.get(key)
            acc[key] = cf if c is None else _coef_add(c, cf)
        parts = []
        for key in sorted(acc):
            c = acc[key]
            if c is not None and c.c == 0:
                continue
            parts.append(f"({c.show() if c is not None else '?'}) {key}")
        return " + ".join(parts) if parts else "0"

    def show(self):
        return self.canon()


def _raise_unmodelled():
    raise Unmodelled("elementwise sum with unit axes on both sides")


def _coef_add(a: Coef, b: Coef):
    if a.syms == b.syms:
        return Coef(a.c + b.c, a.syms)
    return Coef(Fraction(1), tuple(sorted(set(a.syms) | set(b.syms) | {("<sum:%s+%s>" % (a.show(), b.show()), 1)})))


def _align_axes(sp: Space, ref, out, ctx):
    res = []
    for ra, oa in zip(ref, out):
        ra_ = tuple(w for w in ra if not sp.is_unit(w))
        oa_ = tuple(w for w in oa if not sp.is_unit(w))
        if len(ra_) == len(oa_):
            for x, y in zip(ra_, oa_):
                sp.unify(x, y, ctx)
            res.append(ra)
        elif not ra_ and len(oa_) == 1:
            raise Unmodelled(f"{ctx}: broadcast of a unit axis of the first summand")
        elif not oa_ and len(ra_) == 1:
            res.append(("BCAST", ra))
        else:
            raise Unmodelled(f"{ctx}: axes with different merge structure ({len(ra_)} vs {len(oa_)} wires)")
    return res


def _size_coef(p: P):
    """a monomial size as a scalar coefficient (None if not a monomial)"""
    if not p.is_monomial():
        return None
    (k, v), = p.t.items()
    return Coef(Fraction(v), tuple(sorted((a, pw) for a, pw in k)))


def _simplify_term(sp: Space, t: Term):
    """Resolve wire identities, drop unit wires, eliminate δ atoms with an internal wire, drop ones on unit wires,
    evaluate closed all-ones contractions (sum over a wire of 1*1 = its size).  Returns (atoms, out, scalar factor)."""
    factor = COEF1
    def nw(w):
        return sp.find(w)
    atoms = [Atom(a.name, a.conj, tuple(tuple(nw(w) for w in ax if not sp.is_unit(w)) for ax in a.axes)) for a in t.atoms]
    out = [tuple(nw(w) for w in ax if not sp.is_unit(w)) for ax in t.out]
    changed = True
    while changed:
        changed = False
        for i, a in enumerate(atoms):
            if a.name == "δ":
                ws = [w for ax in a.axes for w in ax]
                if len(ws) == 0:
                    atoms.pop(i)
                    changed = True
                    break
                if len(ws) == 1:
                    # δ on (unit, w): w has size 1 as well in exact terms; treat as unit vector of ones
                    atoms[i] = Atom("1", False, ((ws[0],),))
                    changed = True
                    break
                x, y = ws[0], ws[1]
                if x == y:
                    # trace of identity: a constant = size; keep as atom 'tr' on no wires
                    atoms[i] = Atom(f"tr[{sp.sz(x)!r}]", False, ())
                    changed = True
                    break
                out_w = {w for ax in out for w in ax}
                others = {w for j, b in enumerate(atoms) if j != i for ax in b.axes for w in ax}
                rep = None
                if x not in out_w:
                    rep = (x, y)
                elif y not in out_w:
                    rep = (y, x)
                if rep is None and (x in others or y in others):
                    # both wires open: f(x) δ(x,y) = f(y) δ(x,y); other atoms use the wire that comes first in the output
                    order = [w for ax in out for w in ax]
                    keep, drop = (x, y) if order.index(x) < order.index(y) else (y, x)
                    if drop in others:
                        for j, b in enumerate(atoms):
                            if j != i:
                                atoms[j] = Atom(b.name, b.conj, tuple(tuple(keep if w == drop else w for w in ax) for ax in b.axes))
                        changed = True
                        break
                if rep is not None:
                    old, new = rep
                    atoms.pop(i)
                    atoms = [Atom(b.name, b.conj, tuple(tuple(new if w == old else w for w in ax) for ax in b.axes)) for b in atoms]
                    out = [tuple(new if w == old else w for w in ax) for ax in out]
                    changed = True
                    break
            elif a.name == "1":
                ws = [w for ax in a.axes for w in ax]
                if not ws:
                    atoms.pop(i)
                    changed = True
                    break
                w = ws[0]
                out_w = {x for ax in out for x in ax}
                users = [j for j, b in enumerate(atoms) if w in [x for ax in b.axes for x in ax]]
                if w not in out_w and all(atoms[j].name == "1" for j in users):
                    sc = _size_coef(sp.sz(w))
                    if sc is not None:
                        # sum over the wire of a product of ones = size of the wire
                        atoms = [b for j, b in enumerate(atoms) if j not in users]
                        factor = factor * sc
                        changed = True
                        break
    return atoms, out, factor


def canon_term_full(sp: Space, t: Term):
    """(coefficient incl. evaluated closed sub-networks, canonical text)"""
    atoms, out, factor = _simplify_term(sp, t)
    return t.coef * factor, _canon_atoms(sp, atoms, out)


def _canon_term(sp: Space, t: Term) -> str:
    atoms, out, _ = _simplify_term(sp, t)
    return _canon_atoms(sp, atoms, out)


def _canon_atoms(sp: Space, atoms, out) -> str:
    # group atoms by signature; try permutations within groups of identical signature
    sig = lambda a: (a.name, a.conj, tuple(len(ax) for ax in a.axes))
    atoms_sorted = sorted(atoms, key=sig)
    groups = []
    for k, g in itertools.groupby(atoms_sorted, key=sig):
        groups.append(list(g))
    best = None
    count = 0
    for choice in itertools.product(*[itertools.permutations(g) for g in groups]):
        count += 1
        if count > 720:
            break
        order = [a for g in choice for a in g]
        lab = {}

        def L(w):
            if w not in lab:
                lab[w] = len(lab)
            return lab[w]
        s_out = "[" + ",".join("(" + "*".join(f"w{L(w)}:{sp.sz(w)!r}" for w in ax) + ")" for ax in out) + "]"
        s_atoms = []
        for a in order:
            parts = ["*".join(f"w{L(w)}" for w in ax) for ax in a.axes]
            if a.name == "δ":
                parts = sorted(parts)      # the identity is symmetric
            s_atoms.append(("~" if a.conj else "") + a.name + "(" + ",".join(parts) + ")")
        # wires that occur in one atom only and not in out are summed: visible through the labels
        s = s_out + " " + " ".join(s_atoms)
        if best is None or s < best:
            best = s
    return best or "[]"


# --------------------------------------------------------------------------- constructors

def atom_tensor(sp: Space, name: str, sizes, conj=False, tags=None, merged=None) -> Dense:
    """A named tensor with one wire per axis (or, for axes listed in `merged`, a tuple of wires)."""
    axes = []
    for k, s in enumerate(sizes):
        if merged and k in merged:
            axes.append(tuple(sp.new(x, (tags[k] if tags else "")) for x in merged[k]))
        else:
            axes.append((sp.new(s, tags[k] if tags else ""),))
    a = Atom(name, conj, tuple(axes))
    return Dense(sp, [Term(COEF1, [a], [tuple(ax) for ax in axes])])


def _fn_atom(sp: Space, fn: str, d: Dense) -> Dense:
    """An opaque function of a whole tensor (batched inverse, elementwise reciprocal): a fresh atom named by the canonical
    form of its argument, with the same axis structure (merged axes stay merged, so a later reshape can un-merge them)."""
    if not d.terms:
        raise Unmodelled(f"{fn} of the zero tensor")
    sizes, merged, tags = [], {}, []
    for k, ax in enumerate(d.terms[0].out):
        ws = [w for w in ax if not sp.is_unit(w)]
        tot = ONE
        for w in ws:
            tot = tot * sp.sz(w)
        sizes.append(tot)
        tags.append("|".join(sp.tag.get(w, "") for w in ws))
        if len(ws) > 1:
            merged[k] = [sp.sz(w) for w in ws]
    return atom_tensor(sp, f"{fn}[{d.canon()}]", sizes, tags=tags, merged=merged)


def inv_atom(sp: Space, d: Dense) -> Dense:
    return _fn_atom(sp, "inv", d)


def recip_atom(sp: Space, d: Dense) -> Dense:
    return _fn_atom(sp, "recip", d)


def ones_tensor(sp: Space, sizes) -> Dense:
    atoms, out = [], []
    for s in sizes:
        s = sp.facts.norm(P.of(s))
        if s == ONE:
            out.append(())
        else:
            w = sp.new(s, "ones")
            atoms.append(Atom("1", False, ((w,),)))
            out.append((w,))
    return Dense(sp, [Term(COEF1, atoms, out)])


def eye_tensor(sp: Space, n) -> Dense:
    n = sp.facts.norm(P.of(n))
    if n == ONE:
        return Dense(sp, [Term(COEF1, [], [(), ()])])
    a, b = sp.new(n, "eye"), sp.new(n, "eye")
    return Dense(sp, [Term(COEF1, [Atom("δ", False, ((a,), (b,)))], [(a,), (b,)])])


def scalar_tensor(sp: Space, coef: Coef = COEF1) -> Dense:
    return Dense(sp, [Term(coef, [], [])])


# --------------------------------------------------------------------------- einsum / tensordot

def einsum(sp: Space, spec: str, ops: list[Dense]) -> Dense:
    spec = spec.replace(" ", "")
    if "->" not in spec:
        raise Unmodelled("einsum without explicit output")
    lhs, rhs = spec.split("->")
    ins = lhs.split(",")
    if len(ins) != len(ops):
        raise TypeViolation(f"einsum '{spec}' has {len(ins)} subscripts for {len(ops)} operands")
    ops = [o.fresh() for o in ops]
    # expand ellipsis into pseudo letters
    ell = None
    sub_lists = []
    for s, o in zip(ins, ops):
        n = o.ndim()
        if "..." in s:
            pre, post = s.split("...")
            k = n - len(pre) - len(post)
            if k < 0:
                raise TypeViolation(f"einsum '{spec}': operand has {n} axes, subscript '{s}' needs at least {len(pre) + len(post)}")
            if ell is None:
                ell = [f"…{j}" for j in range(k)]
            elif len(ell) != k:
                raise Unmodelled("ellipsis of different lengths")
            sub_lists.append(list(pre) + ell + list(post))
        else:
            if len(s) != n:
                raise TypeViolation(f"einsum '{spec}': subscript '{s}' has {len(s)} letters for an operand with {n} axes")
            sub_lists.append(list(s))
    if "..." in rhs:
        pre, post = rhs.split("...")
        out_letters = list(pre) + (ell or []) + list(post)
    else:
        out_letters = list(rhs)
    terms = []
    for combo in itertools.product(*[o.terms for o in ops]):
        bind = {}
        coef = COEF1
        atoms = []
        for letters, t in zip(sub_lists, combo):
            coef = coef * t.coef
            atoms += t.atoms
            for l, ax in zip(letters, t.out):
                if l not in bind:
                    bind[l] = ax
                else:
                    bind[l] = _unify_axes(sp, bind[l], ax, f"einsum '{spec}' letter '{l}'")
        for l in out_letters:
            if l not in bind:
                raise TypeViolation(f"einsum '{spec}': output letter '{l}' does not occur in the inputs")
        if len(set(out_letters)) != len(out_letters):
            raise Unmodelled("repeated output letter")
        terms.append(Term(coef, atoms, [bind[l] for l in out_letters]))
    return Dense(sp, terms)


def mul_elementwise(sp: Space, a: "Dense", b: "Dense") -> "Dense":
    """Elementwise product of two tensors with the same number of axes.  A *literal* unit axis (inserted by `None` indexing / unsqueeze,
    written () in the network) broadcasts against the other operand's axis by construction; two real axes are identified (obligation)."""
    if a.ndim() != b.ndim():
        raise Unmodelled("elementwise product of tensors with different numbers of axes")
    a, b = a.fresh(), b.fresh()
    terms = []
    for ta in a.terms:
        for tb in b.terms:
            out = []
            for k, (x, y) in enumerate(zip(ta.out, tb.out)):
                if len(x) == 0:
                    out.append(y)
                elif len(y) == 0:
                    out.append(x)
                else:
                    out.append(_unify_axes(sp, x, y, f"elementwise * (axis {k})"))
            terms.append(Term(ta.coef * tb.coef, ta.atoms + tb.atoms, out))
    return Dense(sp, terms)


def _unify_axes(sp: Space, a, b, ctx):
    a_ = tuple(w for w in a if not sp.is_unit(w))
    b_ = tuple(w for w in b if not sp.is_unit(w))
    if len(a_) == len(b_):
        for x, y in zip(a_, b_):
            sp.unify(x, y, ctx)
        return a
    # a unit axis is broadcast.  When the axis is 1 because a guard on this path established it (its wire carries a symbolic size that the facts
    # of the path reduce to 1), the code has tested for exactly this case and the broadcast is deliberate; a literal unit axis says nothing
    if not a_ and len(b_) == 1:
        tested = any(sp.wire_size_raw(w) != ONE or w in getattr(sp, "tested", ()) for w in a)
        sp.obligations.append({"a": "1", "b": repr(sp.sz(b_[0])), "ok": tested, "where": sp.where, "ctx": ctx + " (unit axis broadcast)", "tags": ("", sp.tag.get(b_[0], ""))})
        return b
    if not b_ and len(a_) == 1:
        tested = any(sp.wire_size_raw(w) != ONE or w in getattr(sp, "tested", ()) for w in b)
        sp.obligations.append({"a": repr(sp.sz(a_[0])), "b": "1", "ok": tested, "where": sp.where, "ctx": ctx + " (unit axis broadcast)", "tags": (sp.tag.get(a_[0], ""), "")})
        return a
    raise Unmodelled(f"{ctx}: contraction of differently merged axes ({len(a_)} vs {len(b_)} wires)")


def tensordot(sp: Space, a: Dense, b: Dense, dims_a, dims_b) -> Dense:
    na, nb = a.ndim(), b.ndim()
    dims_a = [d % na for d in dims_a]
    dims_b = [d % nb for d in dims_b]
    if len(dims_a) != len(dims_b):
        raise TypeViolation("tensordot with axis lists of different length")
    letters = [chr(ord("a") + i) for i in range(26)] + [chr(ord("A") + i) for i in range(26)]
    la = [letters.pop(0) for _ in range(na)]
    lb = [letters.pop(0) for _ in range(nb)]
    for x, y in zip(dims_a, dims_b):
        lb[y] = la[x]
    out = [l for i, l in enumerate(la) if i not in dims_a] + [l for j, l in enumerate(lb) if j not in dims_b]
    n0 = len(sp.obligations)
    res = einsum(sp, "".join(la) + "," + "".join(lb) + "->" + "".join(out), [a, b])
    for ob in sp.obligations[n0:]:
        ob["ctx"] = "tensordot (no broadcasting: torch rejects unequal sizes): " + ob["ctx"]
        ob["strict"] = True
    return res


# --------------------------------------------------------------------------- reshape

def reshape(sp: Space, t: Dense, target) -> Dense:
    """target: list of P or -1.  Groups / un-groups wires; wires are never split (-> Unmodelled)."""
    tgt = [x if x == -1 else sp.facts.norm(P.of(x)) for x in target]
    new_terms = []
    for term in t.terms:
        flat = [w for ax in term.out for w in ax if not sp.is_unit(w)]
        atoms = list(term.atoms)
        for _ in range(16):
            try:
                grouped = _group(sp, flat, tgt)
                break
            except _Split as sx:
                # one wire of size a*b becomes two wires (a major, b minor) joined to it by the index bijection i = i_a * b + i_b
                wa, wb = sp.new(sx.a, "split"), sp.new(sx.b, "split")
                atoms.append(Atom("unfold", False, ((sx.w,), (wa,), (wb,))))
                k = flat.index(sx.w)
                flat[k:k + 1] = [wa, wb]
            except _Fold as fx:
                # (only where the caller declared a dense re-grouping legitimate) consecutive wires become one wire of the product size
                tot = ONE
                for w in fx.ws:
                    tot = tot * sp.sz(w)
                wn = sp.new(sp.facts.norm(tot), "fold")
                atoms.append(Atom("fold", False, ((wn,),) + tuple((w,) for w in fx.ws)))
                k = flat.index(fx.ws[0])
                flat[k:k + len(fx.ws)] = [wn]
        else:
            raise Unmodelled("reshape splits axes repeatedly")
        new_terms.append(Term(term.coef, atoms, grouped))
    return Dense(sp, new_terms)


class _Split(Exception):
    def __init__(self, w, a, b):
        self.w, self.a, self.b = w, a, b


class _Fold(Exception):
    def __init__(self, ws):
        self.ws = ws


def _group(sp: Space, flat, tgt):
    n = len(tgt)
    res = [None] * n
    pos = 0
    i = 0
    sizes_txt = [repr(sp.sz(w)) for w in flat]

    def total(ws):
        t = ONE
        for w in ws:
            t = t * sp.sz(w)
        return sp.facts.norm(t)

    def fail(size, where):
        """grouping failed at target `size`: a split of one axis (not modelled) or a scrambling regroup (definite)"""
        tt = [x for x in tgt if x != -1]
        tprod = ONE
        for x in tt:
            tprod = tprod * x
        tprod = sp.facts.norm(tprod)
        if -1 not in tgt and tprod != total(flat):
            raise TypeViolation(f"reshape to {[repr(x) for x in tgt]}: element count {tprod!r} differs from that of the axes "
                                f"{sizes_txt} ({total(flat)!r}); torch raises for generic sizes and silently regroups when they happen to agree")
        # is the target a proper factor of the next axis?  then it is a split of that axis
        for w in flat:
            q = sp.sz(w).div(size) if size != ONE else None
            if q is not None and q != ONE and sp.sz(w) != size:
                raise Unmodelled(f"reshape to {[repr(x) for x in tgt]} splits the axis of size {sp.sz(w)!r} (not modelled)")
        raise TypeViolation(f"reshape to {[repr(x) for x in tgt]} regroups the axes {sizes_txt}: target size {size!r} {where} is not a "
                            "product of consecutive axes, so the elements are re-interpreted across different modes/bonds")

    def take(start, size, forward=True):
        prod = ONE
        k = start
        got = []
        if size == ONE:
            return [], start
        while True:
            if forward:
                if k >= len(flat):
                    return None, start
                w = flat[k]
                k += 1
            else:
                if k < 0:
                    return None, start
                w = flat[k]
                k -= 1
            got.append(w)
            before = prod
            prod = sp.facts.norm(prod * sp.sz(w))
            if prod == size:
                return (got if forward else got[::-1]), k
            if size.div(prod) is None:
                # the wire overshoots the target: when the missing factor divides it, the wire is split there
                q = size.div(before)
                if q is not None and q != ONE:
                    rest = sp.sz(w).div(q)
                    if rest is not None and rest != ONE and sp.facts.norm(q * rest) == sp.facts.norm(sp.sz(w)):
                        raise _Split(w, q, rest) if forward else _Split(w, rest, q)
                if getattr(sp, "allow_regroup", False):
                    # a dense reshape that re-groups across axes is what the caller implements (torchtt.reshape): the shortest run of
                    # consecutive wires whose product the target divides is folded into one wire (and split on the next attempt)
                    run, tot, kk = list(got), prod, k
                    while tot.div(size) is None:
                        if (forward and kk >= len(flat)) or (not forward and kk < 0):
                            return None, start
                        run.append(flat[kk])
                        tot = sp.facts.norm(tot * sp.sz(flat[kk]))
                        kk += 1 if forward else -1
                    raise _Fold(run if forward else run[::-1])
                return None, start
    while i < n and tgt[i] != -1:
        got, pos2 = take(pos, tgt[i])
        if got is None:
            fail(tgt[i], f"(axis {i})")
        res[i] = tuple(got)
        pos = pos2
        i += 1
    if i < n:
        j = n - 1
        end = len(flat) - 1
        while j > i:
            if tgt[j] == -1:
                raise Unmodelled("reshape with two -1")
            got, end2 = take(end, tgt[j], forward=False)
            if got is None:
                fail(tgt[j], f"(axis {j}, from the end)")
            res[j] = tuple(got)
            end = end2
            j -= 1
        if end + 1 < pos:
            raise TypeViolation(f"reshape to {[repr(x) for x in tgt]}: targets overlap on the axes {sizes_txt}")
        res[i] = tuple(flat[pos:end + 1])
    else:
        if pos != len(flat):
            raise TypeViolation(f"reshape to {[repr(x) for x in tgt]}: element count differs from that of the axes {sizes_txt}")
    return res


# --------------------------------------------------------------------------- indexing helpers

def index_axis_int(sp: Space, t: Dense, k: int, idx_repr: str) -> Dense:
    """Select one index on axis k (removes the axis)."""
    ts = []
    for term in t.terms:
        ax = tuple(w for w in term.out[k] if not sp.is_unit(w))
        out = term.out[:k] + term.out[k + 1:]
        atoms = list(term.atoms)
        if len(ax) == 0:
            pass
        elif len(ax) == 1:
            atoms.append(Atom(f"e[{idx_repr}]", False, ((ax[0],),)))
        else:
            raise Unmodelled("integer index on a merged axis")
        ts.append(Term(term.coef, atoms, out))
    return Dense(sp, ts)


def select_axis(sp: Space, t: Dense, k: int, sel_name: str, new_size: P) -> Dense:
    """Apply a selection (slice / index tensor) on axis k: the axis is replaced by a new wire."""
    ts = []
    for term in t.terms:
        ax = tuple(w for w in term.out[k] if not sp.is_unit(w))
        if len(ax) > 1:
            raise Unmodelled("slice on a merged axis")
        nw = sp.new(new_size, "sel")
        atoms = list(term.atoms)
        if len(ax) == 1:
            atoms.append(Atom(f"sel[{sel_name}]", False, ((nw,), (ax[0],))))
        else:
            atoms.append(Atom(f"sel[{sel_name}]", False, ((nw,), ())))
        out = term.out[:k] + [(nw,)] + term.out[k + 1:]
        ts.append(Term(term.coef, atoms, out))
    return Dense(sp, ts)


def insert_axis(t: Dense, k: int) -> Dense:
    return Dense(t.space, [Term(term.coef, term.atoms, term.out[:k] + [()] + term.out[k:]) for term in t.terms])


def drop_axis(sp: Space, t: Dense, k: int, strict=True) -> Dense:
    ts = []
    for term in t.terms:
        ax = tuple(w for w in term.out[k] if not sp.is_unit(w))
        if ax:
            if strict:
                raise Unmodelled(f"squeeze of axis {k} whose size {[repr(sp.sz(w)) for w in ax]} is not known to be 1")
            ts.append(term)
            continue
        ts.append(Term(term.coef, term.atoms, term.out[:k] + term.out[k + 1:]))
    return Dense(sp, ts)


def sum_axes(sp: Space, t: Dense, axes, keepdim=False) -> Dense:
    n = t.ndim()
    axes = sorted({a % n for a in axes})
    ts = []
    for term in t.terms:
        out = []
        for k, ax in enumerate(term.out):
            if k in axes:
                if keepdim:
                    out.append(())
            else:
                out.append(ax)
        ts.append(Term(term.coef, term.atoms, out))     # wires left dangling are summed
    return Dense(sp, ts)


# --------------------------------------------------------------------------- block tensors

class Block:
    """Tensor with block-partitioned axes: parts[k] = list of segment sizes; blocks: index tuple -> Dense.
    Missing blocks are zero."""

    def __init__(self, space: Space, parts, blocks):
        self.space = space
        self.parts = parts
        self.blocks = blocks

    @staticmethod
    def of_dense(d: Dense) -> "Block":
        if not d.terms:
            raise Unmodelled("block view of an empty sum")
        return Block(d.space, [[s] for s in d.shape()], {tuple([0] * d.ndim()): d})

    def ndim(self):
        return len(self.parts)

    def is_dense(self):
        return all(len(p) == 1 for p in self.parts)

    def dense(self) -> Dense:
        if not self.is_dense():
            raise Unmodelled("dense view of a block-partitioned tensor")
        key = tuple([0] * self.ndim())
        if key not in self.blocks:
            return Dense(self.space, [])
        return self.blocks[key]

    def shape(self):
        out = []
        for p in self.parts:
            s = ZERO
            for x in p:
                s = s + x
            out.append(self.space.facts.norm(s))
        return out

    def scale(self, c: Coef):
        return Block(self.space, self.parts, {k: v.scale(c) for k, v in self.blocks.items()})

    def conj(self):
        return Block(self.space, self.parts, {k: v.conj() for k, v in self.blocks.items()})

    def pad(self, pads, value: Coef | None = None):
        """pads: list over axes (first axis first) of (lo, hi) polynomials."""
        sp = self.space
        parts, shift = [], []
        for p, (lo, hi) in zip(self.parts, pads):
            lo, hi = sp.facts.norm(P.of(lo)), sp.facts.norm(P.of(hi))
            for x in (lo, hi):
                if sp.facts.sign(x) in ("-", "?", "<=0") and x != ZERO:
                    raise Unmodelled(f"pad width {x!r} not known to be non-negative")
            np_ = ([lo] if lo != ZERO else []) + list(p) + ([hi] if hi != ZERO else [])
            parts.append(np_)
            shift.append(1 if lo != ZERO else 0)
        blocks = {tuple(i + s for i, s in zip(k, shift)): v for k, v in self.blocks.items()}
        out = Block(sp, parts, blocks)
        if value is not None:
            # constant fill: every block that lies in a padded segment on at least one axis
            orig = [set(range(s, s + len(p))) for s, p in zip(shift, self.parts)]
            for key in itertools.product(*[range(len(p)) for p in parts]):
                if all(i in o for i, o in zip(key, orig)):
                    continue
                out.blocks[key] = ones_tensor(sp, [parts[a][i] for a, i in enumerate(key)]).scale(value)
        return out

    def add(self, o: "Block") -> "Block":
        sp = self.space
        if self.ndim() != o.ndim():
            raise TypeViolation(f"elementwise sum of tensors with {self.ndim()} and {o.ndim()} axes")
        a_, o_ = self, o
        for k, (pa, pb) in enumerate(zip(self.parts, o.parts)):
            if len(pa) == 1 and len(pb) == 1 and not sp.facts.eq(pa[0], pb[0]):
                if P.of(pb[0]) == ONE:
                    o_ = o_._broadcast_axis(k, pa[0])
                elif P.of(pa[0]) == ONE:
                    a_ = a_._broadcast_axis(k, pb[0])
        if a_ is not self or o_ is not o:
            return a_.add(o_)
        for k, (pa, pb) in enumerate(zip(self.parts, o.parts)):
            if len(pa) != len(pb):
                ta, tb = ZERO, ZERO
                for x in pa:
                    ta = ta + x
                for x in pb:
                    tb = tb + x
                if not sp.facts.eq(ta, tb):
                    raise TypeViolation(f"elementwise + of tensors whose axis {k} has sizes {sp.facts.norm(ta)!r} and "
                                        f"{sp.facts.norm(tb)!r} (blocks {pa} vs {pb}): torch raises for generic sizes")
                # refine both partitions to their common refinement (zero segments split freely, constant blocks split into ones)
                ref = _common_refinement(sp, pa, pb)
                if ref is not None:
                    return self.refine_axis(k, ref).add(o.refine_axis(k, ref))
                raise Unmodelled(f"elementwise sum: axis {k} partitioned as {pa} vs {pb}")
            for x, y in zip(pa, pb):
                if not sp.facts.eq(x, y):
                    ok = False
                    sp.obligations.append({"a": repr(sp.facts.norm(x)), "b": repr(sp.facts.norm(y)), "ok": ok, "where": sp.where,
                                           "ctx": f"elementwise + : segment sizes of axis {k}", "tags": ("", "")})
        blocks = dict(self.blocks)
        for key, v in o.blocks.items():
            if key in blocks:
                blocks[key] = blocks[key].add(v)
            else:
                blocks[key] = v
        return Block(sp, [list(p) for p in self.parts], blocks)

    def refine_axis(self, k, new_parts):
        """re-partition axis k into the finer `new_parts` (cumulative boundaries of the old partition are boundaries of the new)"""
        sp = self.space
        old = self.parts[k]
        if len(old) == len(new_parts) and all(sp.facts.eq(x, y) for x, y in zip(old, new_parts)):
            return self
        runs, j = [], 0
        for seg in old:
            acc, run = ZERO, []
            while not sp.facts.eq(acc, seg):
                if j >= len(new_parts):
                    raise Unmodelled("partition refinement does not line up")
                acc = acc + new_parts[j]
                run.append(j)
                j += 1
                if len(run) > 8:
                    raise Unmodelled("partition refinement does not line up")
            runs.append(run)
        blocks = {}
        for key, d in self.blocks.items():
            run = runs[key[k]]
            if len(run) == 1:
                blocks[key[:k] + (run[0],) + key[k + 1:]] = d
                continue
            # occupied block must be constant (all ones) along the axis to be split
            one = Block(sp, [[x] for x in d.shape()], {tuple([0] * d.ndim()): d})._split_const_axis(k, [new_parts[r] for r in run])
            for kk, dd in one.blocks.items():
                blocks[key[:k] + (run[kk[k]],) + key[k + 1:]] = dd
        parts = [list(p) for p in self.parts]
        parts[k] = [P.of(x) for x in new_parts]
        return Block(sp, parts, blocks)

    def _split_const_axis(self, k, parts):
        """ones(T) along axis k = concat of ones(p) for p in parts (only for blocks that are all-ones along that axis)"""
        sp = self.space
        blocks = {}
        for key, d in self.blocks.items():
            for j, psz in enumerate(parts):
                ts = []
                for t in d.terms:
                    ax = [w for w in t.out[k] if not sp.is_unit(w)]
                    if len(ax) != 1:
                        raise Unmodelled("splitting a merged/unit axis")
                    w = sp.find(ax[0])
                    users = [a for a in t.atoms if w in [sp.find(x) for axx in a.axes for x in axx]]
                    if len(users) != 1 or users[0].name != "1":
                        raise Unmodelled("elementwise sum of differently partitioned axes (operand is not constant along the axis)")
                    nw = sp.new(psz, "split")
                    atoms = [a for a in t.atoms if a is not users[0]] + [Atom("1", False, ((nw,),))]
                    ts.append(Term(t.coef, atoms, t.out[:k] + [(nw,)] + t.out[k + 1:]))
                nk = key[:k] + (j,) + key[k + 1:]
                blocks[nk] = Dense(sp, ts)
        new_parts = [list(p) for p in self.parts]
        new_parts[k] = [P.of(x) for x in parts]
        return Block(sp, new_parts, blocks)

    def _broadcast_axis(self, k, size):
        """torch broadcasting of a *literal* unit axis (a constant built by the code, e.g. ones([1,1,1])) to `size`."""
        sp = self.space
        blocks = {}
        for key, d in self.blocks.items():
            ts = []
            for t in d.terms:
                w = sp.new(size, "bcast")
                ts.append(Term(t.coef, t.atoms + [Atom("1", False, ((w,),))], t.out[:k] + [(w,)] + t.out[k + 1:]))
            blocks[key] = Dense(sp, ts)
        parts = [list(p) for p in self.parts]
        parts[k] = [P.of(size)]
        return Block(sp, parts, blocks)

    def place(self, offsets, sizes, value: "Block"):
        """slice assignment self[o_k : o_k + s_k] = value (value dense)."""
        sp = self.space
        parts = [list(p) for p in self.parts]
        idx = []
        remap = []
        for k, (o, s) in enumerate(zip(offsets, sizes)):
            if o is None:          # full slice
                idx.append(None)
                remap.append(None)
                continue
            o, s = sp.facts.norm(P.of(o)), sp.facts.norm(P.of(s))
            occupied = {key[k] for key in self.blocks}
            new_parts, new_index_of_old, pos = _refine(sp, parts[k], o, s, occupied)
            remap.append(new_index_of_old)
            parts[k] = new_parts
            idx.append(pos)
        # re-key existing blocks
        blocks = {}
        for key, v in self.blocks.items():
            nk = tuple(key[k] if remap[k] is None else remap[k][key[k]] for k in range(len(key)))
            if any(x is None for x in nk):
                raise Unmodelled("slice assignment splits an occupied block")
            blocks[nk] = v
        vd = value.dense() if isinstance(value, Block) else value
        # full-slice axes: value axis must have the same partition (single segment)
        tkeys = []
        for k in range(len(parts)):
            if idx[k] is None:
                if len(parts[k]) != 1:
                    raise Unmodelled("full-slice assignment on a partitioned axis")
                tkeys.append(0)
                if not sp.facts.eq(parts[k][0], vd.axis_size(k)):
                    sp.obligations.append({"a": repr(sp.facts.norm(parts[k][0])), "b": repr(vd.axis_size(k)), "ok": False,
                                           "where": sp.where, "ctx": f"slice assignment: axis {k} of the value vs the target", "tags": ("", "")})
            else:
                tkeys.append(idx[k])
                if not sp.facts.eq(parts[k][idx[k]], vd.axis_size(k)):
                    sp.obligations.append({"a": repr(sp.facts.norm(parts[k][idx[k]])), "b": repr(vd.axis_size(k)), "ok": False,
                                           "where": sp.where, "ctx": f"slice assignment: axis {k} of the value vs the slice", "tags": ("", "")})
        blocks[tuple(tkeys)] = vd
        return Block(sp, parts, blocks)

    def zero_region(self, offsets, sizes):
        """self[o_k : o_k + s_k] = 0 : refine the partitions at the slice boundaries (constant blocks split) and drop the blocks inside"""
        sp = self.space
        cur = self
        target = []
        for k, (o, sz) in enumerate(zip(offsets, sizes)):
            if o is None:
                target.append(None)
                continue
            o, sz = sp.facts.norm(P.of(o)), sp.facts.norm(P.of(sz))
            total = ZERO
            for x in cur.parts[k]:
                total = total + x
            total = sp.facts.norm(total)
            want = [x for x in (o, sz, sp.facts.norm(total - o - sz)) if True]
            want = [x for x in want if x != ZERO]
            ref = _common_refinement(sp, cur.parts[k], want)
            if ref is None:
                raise Unmodelled(f"slice [{o!r}:{(o + sz)!r}) cannot be ordered against the partition {cur.parts[k]}")
            cur = cur.refine_axis(k, ref)
            # indices of the segments covered by [o, o+sz)
            acc, idxs = ZERO, set()
            for j, x in enumerate(cur.parts[k]):
                lo = sp.facts.norm(acc)
                acc = acc + x
                if sp.facts.compare(lo, ">=", o) is True and sp.facts.compare(sp.facts.norm(acc), "<=", sp.facts.norm(o + sz)) is True:
                    idxs.add(j)
            target.append(idxs)
        blocks = {key: d for key, d in cur.blocks.items()
                  if not all(t is None or key[k] in t for k, t in enumerate(target))}
        return Block(sp, cur.parts, blocks)

    def canon(self) -> str:
        sp = self.space
        ps = "|".join("[" + ",".join(repr(sp.facts.norm(x)) for x in p) + "]" for p in self.parts)
        bs = []
        for k in sorted(self.blocks):
            c = self.blocks[k].canon()
            if c != "0":
                bs.append(f"{k}: {c}")
        return ps + " {" + "; ".join(bs) + "}"


def _common_refinement(sp: Space, pa, pb):
    """common refinement of two partitions of the same total, or None when the boundaries cannot be ordered"""
    def bounds(p):
        out, acc = [], ZERO
        for x in p:
            acc = sp.facts.norm(acc + x)
            out.append(acc)
        return out
    ba, bb = bounds(pa), bounds(pb)
    merged = []
    i = j = 0
    while i < len(ba) or j < len(bb):
        if i < len(ba) and j < len(bb):
            sg = sp.facts.sign(ba[i] - bb[j])
            if sg == "0":
                merged.append(ba[i]); i += 1; j += 1
            elif sg in ("-", "<=0"):
                merged.append(ba[i]); i += 1        # possibly equal: the next segment may be empty
            elif sg in ("+", ">=0"):
                merged.append(bb[j]); j += 1
            else:
                return None
        elif i < len(ba):
            merged.append(ba[i]); i += 1
        else:
            merged.append(bb[j]); j += 1
    parts, prev = [], ZERO
    for b in merged:
        parts.append(sp.facts.norm(b - prev))
        prev = b
    return parts


def _refine(sp: Space, parts, o: P, s: P, occupied=frozenset()):
    """Refine a partition so that [o, o+s) is exactly one segment.  Returns (new parts, map old index -> new index
    (None when an old segment was split), index of the target segment)."""
    bounds = [ZERO]
    for p in parts:
        bounds.append(sp.facts.norm(bounds[-1] + p))
    end = sp.facts.norm(o + s)
    # locate o
    new_parts, mapping = [], {}
    target = None
    i = 0
    consumed = False
    for j, p in enumerate(parts):
        lo, hi = bounds[j], bounds[j + 1]
        if not consumed and sp.facts.compare(lo, "<=", o) is True and sp.facts.compare(end, "<=", hi) is True:
            # [o, end) inside segment j
            pre = sp.facts.norm(o - lo)
            post = sp.facts.norm(hi - end)
            if pre != ZERO:
                new_parts.append(pre)
            target = len(new_parts)
            new_parts.append(s)
            if post != ZERO:
                new_parts.append(post)
            mapping[j] = target if (pre == ZERO and post == ZERO) else None
            consumed = True
        else:
            mapping[j] = len(new_parts)
            new_parts.append(p)
    if target is None:
        total = bounds[-1]
        if sp.facts.compare(o, ">=", total) is True or sp.facts.compare(end, ">", total) is True:
            raise TypeViolation(f"slice assignment [{o!r}:{end!r}) lies outside the target axis of size {total!r}")
        for j in range(len(parts)):
            if sp.facts.eq(bounds[j], o) and j in occupied and not sp.facts.eq(bounds[j + 1], end):
                raise TypeViolation(f"slice assignment [{o!r}:{end!r}) starts where the already assigned block [{bounds[j]!r}:{bounds[j + 1]!r}) "
                                    "starts: the blocks of two operands overlap (the running offset was not advanced)")
        raise Unmodelled(f"slice [{o!r}:{end!r}) cannot be located inside the partition {parts}")
    return new_parts, mapping, target


def cat(sp: Space, items: list, dim: int) -> Block:
    bl = [x if isinstance(x, Block) else Block.of_dense(x) for x in items]
    n = bl[0].ndim()
    dim = dim % n
    parts = [list(p) for p in bl[0].parts]
    blocks = dict(bl[0].blocks)
    for b in bl[1:]:
        if b.ndim() != n:
            raise TypeViolation("cat of tensors with different numbers of axes")
        off = len(parts[dim])
        for k in range(n):
            if k == dim:
                continue
            if len(parts[k]) != len(b.parts[k]):
                raise Unmodelled("cat: differently partitioned axes")
            for x, y in zip(parts[k], b.parts[k]):
                if not sp.facts.eq(x, y):
                    sp.obligations.append({"a": repr(sp.facts.norm(x)), "b": repr(sp.facts.norm(y)), "ok": False, "where": sp.where,
                                           "ctx": f"cat along {dim}: sizes of axis {k}", "tags": ("", "")})
        parts[dim] = parts[dim] + list(b.parts[dim])
        for key, v in b.blocks.items():
            nk = tuple(key[k] + (off if k == dim else 0) for k in range(n))
            blocks[nk] = v
    return Block(sp, parts, blocks)
