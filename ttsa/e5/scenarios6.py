"""E5 scenario catalogue, part 6: the local operators of the C++ backend (C17) - the same specifications as the Python siblings
(scenarios5): local product, interface recursions (adjointness, layout-agnostic), operator object with both Jacobi
preconditioners, and the dense local matrix with its flattening orders."""
from __future__ import annotations

import re

from ..cpp import CppUnit, CppUnmodelled, statements, simple_statement, parse_expr
from . import net
from .cppeval import CppEval, CppObj
from .net import Dense, Term, COEF1, TypeViolation, Unmodelled
from .scenarios import scn
from .scenarios5 import operands, _rhs_operands, a_loc, precond, _vec, _cmp, _pack, _unpack, infer_layout, _perm
from .spec import SpecIt, expr
from .sym import P, ONE
from .values import *

H = "amen_solve.h"


def _unit(model):
    u = getattr(model, "_cpp_unit", None)
    if u is None:
        u = CppUnit(model.repo)
        model._cpp_unit = u
    return u


def _ev(it, model):
    u = _unit(model)
    consts = {}
    from ..cpp import defines
    for src in u.files.values():
        for k, v in defines(src).items():
            if re.fullmatch(r"-?\d+", v):
                consts[k] = int(v)
    return CppEval(it.sp, u, consts), u


def _wrap(fn):
    """C++ reader failures are 'leaves the modelled fragment', not verdicts"""
    def drv(it, model):
        try:
            return fn(it, model)
        except CppUnmodelled as e:
            raise Unmodelled(f"C++: {e}")
    return drv


def _T(d):
    return VTensor(d) if isinstance(d, Dense) else d


def _layouts(it, model):
    memo = it.__dict__.setdefault("_cpp_layouts", {})
    if "v" in memo:
        return memo["v"]
    ev, u = _ev(it, model)
    ops = operands(it, False)
    f_fwd = u.func(H, "compute_phi_fwd_A")
    piA = infer_layout(it, 3, lambda pm: _T(ev.run(f_fwd, [_perm(ops["PhiL"], pm).dense(), ops["y"].dense(), ops["A"].dense(), ops["x"].dense()])),
                       "cpp compute_phi_fwd_A")
    rops = _rhs_operands(it)
    f_fr = u.func(H, "compute_phi_fwd_rhs")
    pib = infer_layout(it, 2, lambda pm: _T(ev.run(f_fr, [_perm(rops["PhibL"], pm).dense(), rops["b"].dense(), rops["x"].dense()])), "cpp compute_phi_fwd_rhs")
    memo["v"] = (piA, pib)
    return memo["v"]


# --------------------------------------------------------------------------- helper functions

def _drv_helpers(it, model):
    ev, u = _ev(it, model)
    piA, pib = _layouts(it, model)
    ops = operands(it, False)
    PL, PR = _perm(ops["PhiL"], piA).dense(), _perm(ops["PhiR"], piA).dense()
    loc = ev.run(u.func(H, "local_product"), [PR, PL, ops["A"].dense(), ops["x"].dense()])
    fwd = ev.run(u.func(H, "compute_phi_fwd_A"), [PL, ops["y"].dense(), ops["A"].dense(), ops["x"].dense()])
    bck = ev.run(u.func(H, "compute_phi_bck_A"), [PR, ops["y"].dense(), ops["A"].dense(), ops["x"].dense()])
    rops = _rhs_operands(it)
    fr = ev.run(u.func(H, "compute_phi_fwd_rhs"), [_perm(rops["PhibL"], pib).dense(), rops["b"].dense(), rops["x"].dense()])
    br = ev.run(u.func(H, "compute_phi_bck_rhs"), [_perm(rops["PhibR"], pib).dense(), rops["b"].dense(), rops["x"].dense()])
    ops["piA"], ops["pib"], ops["rops"] = piA, pib, rops
    return _pack(VTuple(tuple(_T(x) for x in (loc, fwd, bck, fr, br))), ops)


def _chk_helpers(out):
    got, ops = _unpack(out)
    sit = SpecIt(out.space, out.facts)
    loc, fwd, bck, fr, br = got.items
    piA, pib, rops = list(ops["piA"]), list(ops["pib"]), ops["rops"]
    res = []
    r = _cmp(out, loc, a_loc(sit, ops, ops["x"].dense()), "C++ local_product")
    res.append(("local_product", r[0][1], r[0][2]))
    exp_f = expr(sit, [(ops["PhiL"].dense(), "lsr"), (ops["y"].dense(), "lmL"), (ops["A"].dense(), "smnS"), (ops["x"].dense(), "rnR")], ["L", "S", "R"])
    exp_b = expr(sit, [(ops["PhiR"].dense(), "LSR"), (ops["y"].dense(), "lmL"), (ops["A"].dense(), "smnS"), (ops["x"].dense(), "rnR")], ["l", "s", "r"])
    for nm, g, e in (("compute_phi_fwd_A", fwd, exp_f.permute(piA)), ("compute_phi_bck_A", bck, exp_b.permute(piA))):
        r = _cmp(out, g, e, f"C++ {nm} (interface of <y, A x>, kept in axis order {piA})")
        res.append((nm, r[0][1], r[0][2]))
    exp_fr = expr(sit, [(rops["PhibL"].dense(), "br"), (rops["b"].dense(), "bnB"), (rops["x"].dense(), "rnR")], ["B", "R"])
    exp_br = expr(sit, [(rops["PhibR"].dense(), "BR"), (rops["b"].dense(), "bnB"), (rops["x"].dense(), "rnR")], ["b", "r"])
    for nm, g, e in (("compute_phi_fwd_rhs", fr, exp_fr.permute(pib)), ("compute_phi_bck_rhs", br, exp_br.permute(pib))):
        r = _cmp(out, g, e, f"C++ {nm} (interface <x, b>, kept in axis order {pib})")
        res.append((nm, r[0][1], r[0][2]))
    return res


scn(name="cpp.helpers", func="solvers.amen_solve", props=("C17",), args=None, driver=_wrap(_drv_helpers), check=_chk_helpers, strict_sizes=True)


# --------------------------------------------------------------------------- AMENsolveMV: setter / apply_prec / matvec

PREC_CODE = {None: "NO_PREC", "c": "C_PREC", "r": "R_PREC"}


def _drv_op(prec, use_prec, method):
    def drv(it, model):
        ev, u = _ev(it, model)
        piA, _ = _layouts(it, model)
        ops = operands(it, False, square=True)      # the C++ operator object flattens its result with the shape of its argument: square local problems only
        code = ev.consts.get(PREC_CODE[prec])
        if code is None:
            raise Unmodelled(f"C++: constant {PREC_CODE[prec]} is not defined")
        this = CppObj("matvecs.h", "AMENsolveMV")
        shape = [x.p for x in ops["shape"].items]
        ev.run(u.func("matvecs.h", "setter", "AMENsolveMV"),
               [_perm(ops["PhiL"], piA).dense(), _perm(ops["PhiR"], piA).dense(), ops["A"].dense(), shape, code, None], this)
        if method == "matvec":
            val = ev.run(u.func("matvecs.h", "matvec", "AMENsolveMV"), [ops["xvec"].dense(), use_prec], this)
        else:
            val = ev.run(u.func("matvecs.h", "apply_prec", "AMENsolveMV"), [ops["x"].dense()], this)
        return _pack(_T(val), ops)
    return drv


def _chk_op(prec, use_prec, method):
    def check(out):
        got, ops = _unpack(out)
        sit = SpecIt(out.space, out.facts)
        x = ops["x"].dense()
        if method == "apply_prec":
            return _cmp(out, got, precond(sit, ops, prec, x, False), f"C++ apply_prec (prec code of '{prec}')")
        px = precond(sit, ops, prec if use_prec else None, x, False)
        return _cmp(out, got, _vec(sit, a_loc(sit, ops, px)), f"C++ matvec(prec={prec!r}, use_prec={use_prec})")
    return check


for _prec in (None, "c", "r"):
    for _up in (True, False):
        scn(name=f"cpp.AMENsolveMV.matvec:prec={_prec},use={_up}", func="solvers.amen_solve", props=("C17",), args=None,
            driver=_wrap(_drv_op(_prec, _up, "matvec")), check=_chk_op(_prec, _up, "matvec"), strict_sizes=True)
    if _prec:
        scn(name=f"cpp.AMENsolveMV.apply_prec:prec={_prec}", func="solvers.amen_solve", props=("C17",), args=None,
            driver=_wrap(_drv_op(_prec, True, "apply_prec")), check=_chk_op(_prec, True, "apply_prec"), strict_sizes=True)


# --------------------------------------------------------------------------- dense local matrix and right-hand side inside amen_solve

def _find_stmts(body, names):
    """assignments to the given names anywhere in the body (in textual order)"""
    out = []
    for m in re.finditer(r"(?:auto|at::Tensor)?\s*\b(" + "|".join(names) + r")\s*=\s*(?!=)([^;]*);", body):
        out.append((m.group(1), m.group(2).strip(), m.start()))
    return out


def _drv_dense(it, model):
    ev, u = _ev(it, model)
    piA, pib = _layouts(it, model)
    f = u.func(H, "amen_solve")
    ops = operands(it, False, square=True)
    rops = _rhs_operands(it)
    sizes = {"rx": lambda i: {"k": ops["x"].dense().axis_size(0), "k+1": ops["x"].dense().axis_size(2)}[i],
             "N": lambda i: ops["x"].dense().axis_size(1)}
    env = {
        "Phis": lambda i: {"k": _perm(ops["PhiL"], piA).dense(), "k+1": _perm(ops["PhiR"], piA).dense()}[i],
        "A_cores": lambda i: ops["A"].dense(),
        "rx": sizes["rx"], "N": sizes["N"],
        "k": "k",
    }
    # symbolic index expressions k, k+1 are passed through as text
    stm = _find_stmts(f.body, ["Bp", "B"])
    if len(stm) < 3:
        raise Unmodelled("C++: the dense local matrix (Bp, B) was not found in amen_solve")
    loc = {}
    for name, text, _ in stm[:3]:
        e = parse_expr(text)
        loc[name] = _eval_indexed(ev, e, env, loc)
    B = loc["B"]
    y = net.einsum(it.sp, "ij,jk->ik", [B, ops["xvec"].dense()])
    return _pack(_T(y), ops)


def _eval_indexed(ev, e, env, loc):
    """evaluate with X[k], X[k+1] subscripts resolved through the role functions"""
    def rewrite(x):
        if x[0] == "index" and x[1][0] == "id" and callable(env.get(x[1][1])):
            idx = x[2]
            key = "k" if idx == ("id", "k") else ("k+1" if idx == ("binop", "+", ("id", "k"), ("num", "1")) else None)
            if key is None:
                raise CppUnmodelled("index other than k / k+1")
            return ("lit", env[x[1][1]](key))
        if x[0] in ("call",):
            return ("call", x[1], [rewrite(a) for a in x[2]])
        if x[0] == "method":
            return ("method", rewrite(x[1]), x[2], [rewrite(a) for a in x[3]])
        if x[0] == "list":
            return ("list", [rewrite(a) for a in x[1]])
        if x[0] == "binop":
            return ("binop", x[1], rewrite(x[2]), rewrite(x[3]))
        if x[0] == "neg":
            return ("neg", rewrite(x[1]))
        return x
    e2 = rewrite(e)
    old = ev.ev

    def ev2(x, envx, this):
        if x[0] == "lit":
            return x[1]
        return old(x, envx, this)
    ev.ev = ev2
    try:
        return ev.ev(e2, dict(loc), None)
    finally:
        ev.ev = old


def _chk_dense(out):
    got, ops = _unpack(out)
    sit = SpecIt(out.space, out.facts)
    return _cmp(out, got, _vec(sit, a_loc(sit, ops, ops["x"].dense())), "C++ dense local matrix applied to the flattened core (B @ x.reshape(-1, 1))")


scn(name="cpp.dense_local_matrix", func="solvers.amen_solve", props=("C17",), args=None, driver=_wrap(_drv_dense), check=_chk_dense, strict_sizes=True)


# --------------------------------------------------------------------------- which preconditioner code reaches the compiled solver

def _drv_prec_code(pv):
    def drv(it, model):
        from .scenarios4 import _solve_valid
        from .torchmodel import function
        cap = []

        def hook(it2, args, kwargs, fr, node):
            cap.append(args[-1] if args else None)
            return VOpaque("cpp-result")
        it.hooks[("function", "torchttcpp.amen_solve")] = hook
        _, args, kwargs = _solve_valid(it)
        kwargs = dict(kwargs)
        kwargs["preconditioner"] = VNone() if pv is None else VStr(pv)
        function(it, model.func("solvers.amen_solve").qual, args, kwargs, None, None)
        if len(cap) != 1:
            raise Unmodelled(f"the compiled solver was called {len(cap)} times on the path with the backend enabled")
        u = _unit(model)
        from ..cpp import defines
        consts = {}
        for src in u.files.values():
            consts.update(defines(src))
        return VTuple((cap[0], VStr(consts.get({None: "NO_PREC", "c": "C_PREC", "r": "R_PREC"}[pv], "?"))))
    return drv


def _chk_prec_code(pv):
    def check(out):
        v = out.value
        if not (isinstance(v, VTuple) and len(v.items) == 2):
            return [("result", False, "the dispatch could not be evaluated")]
        code, want = v.items
        got = repr(out.facts.norm(code.p)) if isinstance(code, VInt) else type(code).__name__
        ok = isinstance(code, VInt) and got == want.s
        return [("code", ok, f"preconditioner {pv!r} reaches the compiled solver as {got}" if ok else
                 f"for preconditioner {pv!r} the Python wrapper hands the code {got} to the compiled solver, which selects that preconditioner with the code {want.s} "
                 "(cpp/define.h): the compiled solver runs with another preconditioner than requested")]
    return check


for _pv in (None, "c", "r"):
    scn(name=f"amen_solve.cpp-dispatch:prec={_pv}", func="solvers.amen_solve", props=("C17",), args=None, driver=_wrap(_drv_prec_code(_pv)),
        check=_chk_prec_code(_pv), presets={"global _flag_use_cpp": True})
