"""Symbolic non-negative integers: polynomials with rational coefficients over named atoms.

Atoms denote sizes (>= 1 unless declared otherwise).  Facts are substitutions atom -> polynomial installed by
guards taken on the analysed path (e.g. N_other[i] -> N_self[i]).  Sign decisions use lower bounds only
(substitute atom = lb + t, t >= 0, and look at coefficient signs); anything undecided is reported as unknown.
"""
from __future__ import annotations

from fractions import Fraction


class P:
    __slots__ = ("t",)

    def __init__(self, terms=None):
        # terms: dict[monomial tuple((atom, power), ...)] -> Fraction
        self.t = {k: v for k, v in (terms or {}).items() if v != 0}

    # -- constructors
    @staticmethod
    def const(c):
        return P({(): Fraction(c)}) if c != 0 else P()

    @staticmethod
    def atom(name):
        return P({((name, 1),): Fraction(1)})

    @staticmethod
    def of(x):
        if isinstance(x, P):
            return x
        if isinstance(x, bool):
            raise TypeError("bool is not a size")
        if isinstance(x, (int, Fraction)):
            return P.const(x)
        raise TypeError(f"cannot make a polynomial of {type(x).__name__}")

    # -- arithmetic
    def __add__(self, o):
        o = P.of(o)
        t = dict(self.t)
        for k, v in o.t.items():
            t[k] = t.get(k, 0) + v
        return P(t)

    __radd__ = __add__

    def __neg__(self):
        return P({k: -v for k, v in self.t.items()})

    def __sub__(self, o):
        return self + (-P.of(o))

    def __rsub__(self, o):
        return P.of(o) - self

    def __mul__(self, o):
        o = P.of(o)
        t = {}
        for k1, v1 in self.t.items():
            for k2, v2 in o.t.items():
                d = dict(k1)
                for a, p in k2:
                    d[a] = d.get(a, 0) + p
                k = tuple(sorted((a, p) for a, p in d.items() if p != 0))
                t[k] = t.get(k, 0) + v1 * v2
        return P(t)

    __rmul__ = __mul__

    def __eq__(self, o):
        try:
            o = P.of(o)
        except TypeError:
            return NotImplemented
        return self.t == o.t

    def __hash__(self):
        return hash(tuple(sorted(self.t.items())))

    def is_const(self):
        return all(k == () for k in self.t)

    def const_value(self):
        if not self.is_const():
            return None
        v = self.t.get((), Fraction(0))
        return int(v) if v.denominator == 1 else v

    def atoms(self):
        return {a for k in self.t for a, _ in k}

    def is_monomial(self):
        return len(self.t) == 1

    def subs(self, m: dict):
        """m: atom name -> P"""
        if not m or not (self.atoms() & set(m)):
            return self
        out = P()
        for k, v in self.t.items():
            term = P.const(v)
            for a, p in k:
                base = m.get(a)
                f = base if base is not None else P.atom(a)
                if p < 0:
                    if base is not None and not base.is_monomial():
                        raise ValueError("negative power of a substituted sum")
                    f = f.inv() if base is not None else P({((a, -1),): Fraction(1)})
                    p = -p
                for _ in range(p):
                    term = term * f
            out = out + term
        return out

    def inv(self):
        if not self.is_monomial():
            raise ValueError("inverse of a non-monomial")
        (k, v), = self.t.items()
        return P({tuple((a, -p) for a, p in k): 1 / v})

    def div(self, o):
        """exact division by a monomial (or an equal polynomial); None if not exact"""
        o = P.of(o)
        if self == o:
            return P.const(1)
        if not o.is_monomial():
            # try: self = o * const
            if not self.t or not o.t:
                return None
            k0 = next(iter(o.t))
            if k0 in self.t:
                c = self.t[k0] / o.t[k0]
                if (o * c) == self:
                    return P.const(c)
            return None
        q = self * o.inv()
        for k in q.t:
            if any(p < 0 for _, p in k):
                return None
        if any(v.denominator != 1 for v in q.t.values()):
            return None
        return q

    def __repr__(self):
        if not self.t:
            return "0"
        parts = []
        for k, v in sorted(self.t.items(), key=lambda kv: (len(kv[0]), kv[0])):
            mono = "*".join(a if p == 1 else f"{a}^{p}" for a, p in k)
            if not mono:
                parts.append(str(v))
            elif v == 1:
                parts.append(mono)
            elif v == -1:
                parts.append("-" + mono)
            else:
                parts.append(f"{v}*{mono}")
        return "+".join(parts).replace("+-", "-")


import re as _re
_SEQ_ATOM = _re.compile(r"^([NM]_\w+)\[(.*)\]$")
ONE = P.const(1)
ZERO = P()


class Facts:
    """Substitutions installed by guards on the current path + lower bounds of atoms."""

    def __init__(self):
        self.sub: dict[str, P] = {}
        self.seq: dict[str, str] = {}      # sequence name -> representative sequence name
        self.lb: dict[str, int] = {}       # atom -> lower bound (default 1)
        self.rel: list = []                # class relations: list of (atom, P) meaning atom := P + fresh>=0 for sign tests
        self.log: list = []
        self.atom_index: dict = {}         # size atom -> (sequence name, index polynomial)   (shared registry)
        self.partial: dict = {}            # sequence -> list of (representative sequence, lo, hi): equal on lo <= index < hi
        self._busy = False

    def copy(self):
        f = Facts()
        f.sub, f.seq, f.lb, f.rel, f.log = dict(self.sub), dict(self.seq), dict(self.lb), list(self.rel), list(self.log)
        f.atom_index = self.atom_index
        f.partial = {k: list(v) for k, v in self.partial.items()}
        return f

    def add_partial(self, seq: str, rep: str, lo, hi, why=""):
        if seq == rep:
            return
        self.partial.setdefault(seq, []).append((rep, P.of(lo), P.of(hi)))
        self.log.append(f"{seq}[k] := {rep}[k] for {P.of(lo)!r} <= k < {P.of(hi)!r} ({why})")

    def _apply_partial(self, p: "P") -> "P":
        if not self.partial or self._busy:
            return p
        m = {}
        self._busy = True
        try:
            for a in p.atoms():
                info = self.atom_index.get(a)
                if not info:
                    continue
                seq, idx = info
                for rep, lo, hi in self.partial.get(self.seq_rep(seq), []) + (self.partial.get(seq, []) if self.seq_rep(seq) != seq else []):
                    if self.compare(idx, ">=", lo) is True and self.compare(idx, "<", hi) is True:
                        na = f"{rep}[{self.norm(idx)!r}]"
                        self.atom_index.setdefault(na, (rep, idx))
                        m[a] = P.atom(na)
                        break
        finally:
            self._busy = False
        return p.subs(m) if m else p

    def seq_rep(self, s):
        seen = set()
        while s in self.seq and s not in seen:
            seen.add(s)
            s = self.seq[s]
        return s

    def norm(self, p: P) -> P:
        p = P.of(p)
        if self.seq:
            m = {}
            for a in p.atoms():
                mm = _SEQ_ATOM.match(a)
                if mm:
                    rep = self.seq_rep(mm.group(1))
                    if rep != mm.group(1):
                        m[a] = P.atom(f"{rep}[{mm.group(2)}]")
            if m:
                p = p.subs(m)
        for _ in range(8):
            q = p.subs(self.sub)
            if q == p:
                break
            p = q
        return self._apply_partial(p)

    def eq(self, a, b) -> bool:
        return self.norm(a) == self.norm(b)

    def assume_eq(self, a, b, why=""):
        """install a == b (as substitution of an atom) - returns False if impossible to orient"""
        a, b = self.norm(a), self.norm(b)
        if a == b:
            return True
        for x, y in ((b, a), (a, b)):
            if x.is_monomial():
                (k, v), = x.t.items()
                if v == 1 and len(k) == 1 and k[0][1] == 1 and k[0][0] not in y.atoms():
                    self.set_sub(k[0][0], y, why)
                    return True
        return False

    def set_sub(self, atom: str, value: "P", why=""):
        self.sub[atom] = value
        self.log.append(f"{atom} := {value} ({why})")
        # fixing the order of an operand fixes its closing rank: R_x[d] = 1
        if atom.startswith("d_"):
            c = value.const_value()
            if c is not None:
                self.sub[f"R_{atom[2:]}[{int(c)}]"] = ONE

    def lower(self, atom):
        if atom.startswith("~"):
            return self.lb.get(atom, 0)
        return self.lb.get(atom, 1)

    def sign(self, p) -> str:
        """'+', '-', '0' or '?' for a polynomial under the lower bounds (and class relations)."""
        p = self.norm(p)
        if not p.t:
            return "0"
        tries = [p]
        if self.rel:
            for order in (list(reversed(self.rel)), list(self.rel)):
                q = p
                for atom, expr in order:
                    q = self.norm(q.subs({atom: self.norm(expr)}))
                tries.append(q)
            for atom, expr in self.rel:
                tries.append(self.norm(p.subs({atom: self.norm(expr)})))
        weak = None
        for q in tries:
            if not q.t:
                return "0"
            m = {}
            for a in q.atoms():
                lb = self.lower(a)
                m[a] = P.atom("~" + a) + lb if lb else P.atom("~" + a)
            try:
                r = q.subs(m)
            except ValueError:
                continue
            if not r.t:
                return "0"
            vals = list(r.t.values())
            c0 = r.t.get((), Fraction(0))
            if all(v >= 0 for v in vals) and c0 > 0:
                return "+"
            if all(v <= 0 for v in vals) and c0 < 0:
                return "-"
            if all(v >= 0 for v in vals) and weak is None:
                weak = ">=0"
            if all(v <= 0 for v in vals) and weak is None:
                weak = "<=0"
        return weak or "?"

    def compare(self, a, op: str, b):
        """True / False / None(unknown) for a op b."""
        s = self.sign(P.of(a) - P.of(b))
        table = {
            "==": {"0": True, "+": False, "-": False},
            "!=": {"0": False, "+": True, "-": True},
            "<": {"-": True, "0": False, "+": False, ">=0": False},
            "<=": {"-": True, "0": True, "+": False, "<=0": True},
            ">": {"+": True, "0": False, "-": False, "<=0": False},
            ">=": {"+": True, "0": True, "-": False, ">=0": True},
        }
        return table[op].get(s)
