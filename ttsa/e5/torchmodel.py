"""Transfer functions of the E5 interpreter: attributes, subscripts, calls (builtins, numpy, torch, repository)."""
from __future__ import annotations

import ast

from ..model import norm
from . import net
from .net import Dense, Block, Coef, COEF1, Unmodelled, TypeViolation, Term, Atom
from .sym import P, ONE, ZERO
from .values import *
from .interp import Raised, Frame, _as_coef, _negate, _NegBool, _int_fact_installers

EXC_NAMES = {"ShapeMismatch", "RankMismatch", "IncompatibleTypes", "InvalidArguments", "NotImplementedError", "Exception",
             "ValueError", "TypeError"}


# --------------------------------------------------------------------------- operands

def rank_atom(it, name: str, idx: P, d: P) -> P:
    idx = it.facts.norm(idx)
    d = it.facts.norm(d)
    if idx == ZERO or idx == d:
        return ONE
    return P.atom(f"R_{name}[{idx!r}]")


def mode_atom(it, which: str, name: str, idx: P) -> P:
    rep = it.facts.seq_rep(f"{which}_{name}")
    idx = it.facts.norm(idx)
    a = f"{rep}[{idx!r}]"
    it.facts.atom_index.setdefault(a, (rep, idx))
    return it.facts.norm(P.atom(a))


def core_atom(it, tt: VTT, k: P) -> VTensor:
    sp = it.sp
    k = it.facts.norm(k)
    d = it.facts.norm(tt.d)
    c = it.facts.compare(k, "<", d)
    c0 = it.facts.compare(k, ">=", 0)
    if c is False or c0 is False:
        raise Raised("IndexError", "core index out of range")
    rl, rr = rank_atom(it, tt.name, k, d), rank_atom(it, tt.name, k + 1, d)
    nm = f"{tt.name}@{k!r}"
    if tt.is_ttm:
        sizes = [rl, mode_atom(it, "M", tt.name, k), mode_atom(it, "N", tt.name, k), rr]
        tags = ["bond", "row", "col", "bond"]
    else:
        sizes = [rl, mode_atom(it, "N", tt.name, k), rr]
        tags = ["bond", "mode", "bond"]
    tags = [f"{t}:{tt.name}" for t in tags]
    dn = net.atom_tensor(sp, nm, sizes, tags=tags)
    # a mode whose symbolic size is 1 on this path because a guard established it (`if other.N[k] == 1:`): remembered on the wire, so that a
    # deliberate broadcast of exactly that axis is recognised as tested
    for ax, which in ((1, "M"), (2, "N")) if tt.is_ttm else ((1, "N"),):
        rep = it.facts.seq_rep(f"{which}_{tt.name}")
        raw = P.atom(f"{rep}[{it.facts.norm(k)!r}]")
        if it.facts.norm(raw) == ONE and raw != ONE:
            if not hasattr(sp, "tested"):
                sp.tested = set()
            for w in dn.terms[0].out[ax]:
                sp.tested.add(w)
    return VTensor(dn, "dtype:" + tt.name)


def make_tt(it, name: str, is_ttm: bool, d=None) -> VTT:
    d = P.atom(f"d_{name}") if d is None else P.const(d)
    tt = VTT(name, is_ttm, d, None, True)
    tt.cores = VSeq(f"cores_{name}", d, lambda k, tt=tt: core_atom(it, tt, k))
    return tt


def tt_seq(it, tt: VTT, which: str) -> VSeq:
    if not tt.operand:
        return result_seq(it, tt, which)
    if which == "R":
        return VSeq(f"R_{tt.name}", tt.d + 1, lambda k: VInt(rank_atom(it, tt.name, k, tt.d)))
    return VSeq(f"{which}_{tt.name}", tt.d, lambda k: VInt(mode_atom(it, which, tt.name, k)))


def result_cores_list(it, tt: VTT):
    c = tt.cores
    if isinstance(c, VList):
        return c.items
    return None


def result_seq(it, tt: VTT, which: str):
    items = result_cores_list(it, tt)
    if items is None:
        raise Unmodelled(f"{which} of a TT built in a symbolic loop")
    out = []
    for c in items:
        shp = c.block().shape()
        if which == "N":
            out.append(VInt(shp[-2]))
        elif which == "M":
            out.append(VInt(shp[1]))
    if which == "R":
        out = [VInt(items[0].block().shape()[0])] + [VInt(c.block().shape()[-1]) for c in items] if items else [VInt(ONE), VInt(ONE)]
    return VList(out)


# --------------------------------------------------------------------------- attributes

def attribute(it, base, name, fr, node):
    if isinstance(base, VTT):
        nm = name.lstrip("_") if name.startswith("__") and not name.endswith("__") else name
        if not base.operand and name in base.extra:
            return base.extra[name]
        if not base.operand and nm in base.extra:
            return base.extra[nm]
        if nm == "cores":
            return base.cores
        if nm in ("N", "R"):
            return tt_seq(it, base, nm)
        if nm == "M":
            if not base.is_ttm:
                if name.startswith("__"):
                    return VList([])
                raise Raised("IncompatibleTypes", "M of a TT tensor")
            return tt_seq(it, base, "M")
        if nm == "is_ttm":
            return VBool(bool(base.is_ttm))
        if nm == "shape":
            return VOpaque("tt.shape")
        if nm in base.extra:
            return base.extra[nm]
        if name in base.extra:
            return base.extra[name]
        return VBound(base, name)
    if isinstance(base, VTensor):
        if name == "shape":
            if base.counts is not None:
                tot = ZERO
                for c in base.counts:
                    tot = tot + c
                sh = VSeq("shape", it.facts.norm(tot), lambda k: VOpaque("bundled-shape-entry"))
                sh.whole = False
                sh.tail = getattr(base, "tail", None)
                return sh
            return VTuple(tuple(VInt(s) for s in base.block().shape()))
        if name == "dtype":
            return VOpaque(base.dtype if base.dtype.startswith("dtype") else "dtype:" + base.dtype)
        if name == "device":
            return VOpaque("device")
        if name in ("T", "mT"):
            d = base.dense()
            n = d.ndim()
            if name == "mT" and n >= 2:
                return VTensor(d.permute(list(range(n - 2)) + [n - 1, n - 2]), base.dtype)     # the last two axes exchanged
            if n != 2:
                raise Unmodelled(".T of a non-matrix")
            return VTensor(d.permute([1, 0]), base.dtype)
        if name == "grad":
            return VOpaque("grad:" + base.dense().canon())
        if name in ("requires_grad", "grad_fn"):
            d_ = base.dense()
            who = "+".join(sorted({a.name for t in d_.terms for a in t.atoms}))[:60]
            if name == "requires_grad":
                return VBool(None, "autograd tracking: requires_grad of " + who)
            return VOpaque("grad_fn?" + who)      # compared with None: an unknown of the same family ("autograd tracking")
        if name == "is_cuda":
            return VBool(False)
        return VBound(base, name)
    if isinstance(base, VFunc):
        return VFunc(it.model.canon(base.dotted + "." + name))
    if isinstance(base, (VList, VSeq, VSymList, VTuple, VStr)):
        return VBound(base, name)
    if isinstance(base, VScalar):
        if name == "shape":
            return VTuple(()) if base.kind != "tensor1" else VTuple((VInt(ONE),))
        return VBound(base, name)
    if isinstance(base, VSlice):
        return {"start": base.lo, "stop": base.hi, "step": base.step}.get(name) or VNone()
    if isinstance(base, VOpaque) and base.tag.startswith("userslice:") and name in ("start", "stop", "step"):
        return VOpaque(f"slicefield:{base.tag.split(':', 1)[1]}:{name}")      # a field of the caller's slice: None or an integer, not known which
    if isinstance(base, VOpaque):
        return VBound(base, name)
    if isinstance(base, VObj):
        if name in base.attrs:
            return base.attrs[name]
        g = it.model.functions.get(f"{base.cls}.{name}")
        if g is not None:
            if g.is_property:
                return it.call_function(g, [], {}, recv=base)      # a property of a plain class: its getter runs
            return VBound(base, name)
        raise TypeViolation(f"attribute `{name}` is read on an instance of {base.cls.rsplit('.', 1)[-1]} on a path on which "
                            f"its constructor did not assign it (AttributeError at run time)")
    raise Unmodelled(f"attribute {name} of {type(base).__name__}")


# --------------------------------------------------------------------------- subscripts

def subscript(it, base, idx, fr, node):
    if getattr(it, "lenient", False) and isinstance(base, VOpaque):
        return VOpaque("untyped-element")
    if isinstance(base, VConstDict):
        if isinstance(idx, VBool) and idx.v is None:
            idx = VBool(it.truth(idx))
        ok, key = it.literal_key(idx)
        if not ok:
            raise Unmodelled("table lookup with a key that is not a literal")
        hit = next((v for k, v in base.items if type(k) is type(key) and k == key), None)
        if hit is None:
            raise Raised("KeyError", repr(key))
        return hit
    if isinstance(base, VSeq):
        if isinstance(idx, VInt):
            p = it.facts.norm(idx.p)
            c = p.const_value()
            if c is not None and c < 0:
                p = base.length + c
            return base.get(it.facts.norm(base.lo + p))
        if isinstance(idx, VSlice):
            if idx.step is not None:
                raise Unmodelled("stepped slice of a symbolic sequence")
            tail = getattr(base, "tail", None)
            if tail is not None and idx.hi is None and isinstance(idx.lo, VInt) and it.facts.eq(-idx.lo.p, tail[0]):
                return tail[1]
            lo = idx.lo.p if isinstance(idx.lo, VInt) else ZERO
            hi = idx.hi.p if isinstance(idx.hi, VInt) else base.length
            lc = it.facts.norm(P.of(lo)).const_value()
            if lc is not None and lc < 0:
                lo = base.length + lo
            hc = it.facts.norm(P.of(hi)).const_value()
            if hc is not None and hc < 0:
                hi = base.length + hi
            s = VSeq(base.name + f"[{lo!r}:{hi!r}]", it.facts.norm(hi - lo), base.get, it.facts.norm(base.lo + lo))
            s.whole = False
            s.base = getattr(base, "base", base.name)
            return s
        raise Unmodelled("index into a symbolic sequence")
    if isinstance(base, (VList, VTuple)):
        n = len(base.items)
        if isinstance(idx, VInt):
            return base.items[it.concrete_index(idx, n)]
        if isinstance(idx, VBool) and n >= 2:
            return base.items[1 if it.truth(idx) else 0]          # TABLE[flag]: False -> 0, True -> 1
        if isinstance(idx, VSlice):
            def cv(x, dflt):
                if x is None:
                    return dflt
                if isinstance(x, VInt):
                    c = it.facts.norm(x.p).const_value()
                    if c is not None:
                        return int(c)
                raise Unmodelled("symbolic slice of a concrete list")
            items = base.items[slice(cv(idx.lo, None), cv(idx.hi, None), cv(idx.step, None))]
            return VList(list(items)) if isinstance(base, VList) else VTuple(tuple(items))
        raise Unmodelled("list index")
    if isinstance(base, VSymList):
        return symlist_index(it, base, idx)
    if isinstance(base, VTensor):
        return tensor_index(it, base, idx, node)
    if isinstance(base, VTT):
        return it.call_method(base, "__getitem__", [idx], {}, fr, node)
    raise Unmodelled(f"subscript of {type(base).__name__}")


def symlist_index(it, base: VSymList, idx):
    if not isinstance(idx, VInt):
        raise Unmodelled("slice of a list built in a symbolic loop")
    for o_idx, v in reversed(getattr(base, "overrides", [])):
        if it.facts.eq(o_idx, idx.p):
            return v
    p = it.facts.norm(idx.p)
    c = p.const_value()
    segs = base.segments
    if c is not None and c >= 0:
        # walk from the front through concrete segments
        off = 0
        for s in segs:
            if s.kind == "concrete":
                n = len(s.entries)
                if c - off < n:
                    return s.entries[int(c - off)]
                off += n
            else:
                if c - off == 0:
                    e = [x for x in s.entries if x.label == "first"]
                    if e and len(e[0].items) == 1:
                        return e[0].items[0]
                raise Unmodelled("constant index into the symbolic part of a list")
    if c is not None and c < 0:
        s = segs[-1]
        if s.kind == "concrete":
            return s.entries[int(c)]
        if c == -1:
            e = [x for x in s.entries if x.label == "last"]
            if e and len(e[0].items) == 1:
                return e[0].items[0]
        raise Unmodelled("negative index into the symbolic part of a list")
    # symbolic index: generic element (only for single-segment lists with a regenerating thunk)
    if len(segs) == 1 and segs[0].kind == "loop" and getattr(segs[0], "regen", None) is not None:
        return segs[0].regen(p)
    raise Unmodelled("symbolic index into a list built in a symbolic loop")


def tensor_index(it, base: VTensor, idx, node):
    sp = it.sp
    d = base.dense()
    items = list(idx.items) if isinstance(idx, VTuple) else [idx]
    # expand Ellipsis
    n_explicit = sum(1 for x in items if not isinstance(x, VNone) and not (isinstance(x, VOpaque) and x.tag == "Ellipsis"))
    out_items = []
    for x in items:
        if isinstance(x, VOpaque) and x.tag == "Ellipsis":
            out_items += [VSlice(None, None, None)] * (d.ndim() - n_explicit)
        else:
            out_items.append(x)
    items = out_items
    n_explicit = sum(1 for x in items if not isinstance(x, VNone))
    if n_explicit > d.ndim():
        raise TypeViolation(f"too many indices ({n_explicit}) for a tensor with {d.ndim()} axes")
    items += [VSlice(None, None, None)] * (d.ndim() - n_explicit)
    cur = d
    ax = 0
    cnts = list(base.counts) if base.counts is not None else None   # bundle sizes follow the axes
    for x in items:
        if cnts is not None and not isinstance(x, VNone) and not (isinstance(x, VSlice) and x.lo is None and x.hi is None and x.step is None) \
                and not it.facts.eq(cnts[ax], ONE):
            raise Unmodelled("index into a bundle of axes")
        if isinstance(x, VNone):
            cur = net.insert_axis(cur, ax)
            if cnts is not None:
                cnts.insert(ax, ONE)
            ax += 1
        elif isinstance(x, VSlice):
            if x.lo is None and x.hi is None and x.step is None:
                ax += 1
            elif isinstance(x.lo, VOpaque) and x.lo.tag.startswith("userint:") and isinstance(x.hi, VOpaque) and x.step is None \
                    and x.hi.tag == "userint+:" + x.lo.tag.split(":", 1)[1] + ":1":
                # X[i:i+1] for a caller's integer i: one entry, kept as an axis of size 1 - except for i == -1, where the slice -1:0 is empty
                nm = x.lo.tag.split(":", 1)[1]
                if it.truth(VBool(None, f"{nm} == -1")):
                    cur = net.select_axis(sp, cur, ax, f"{nm}:{nm}+1 (empty)", ZERO)
                else:
                    cur = net.insert_axis(net.index_axis_int(sp, cur, ax, nm), ax)
                    if cnts is not None:
                        cnts[ax] = None
                ax += 1
            elif x.name:
                cur = net.select_axis(sp, cur, ax, x.name, P.atom(f"|{x.name}|"))
                ax += 1
            else:
                lo = x.lo.p if isinstance(x.lo, VInt) else None
                hi = x.hi.p if isinstance(x.hi, VInt) else None
                size = cur.axis_size(ax)
                if x.step is not None:
                    raise Unmodelled("stepped tensor slice")
                lo_ = ZERO if lo is None else lo
                hi_ = size if hi is None else hi
                if it.facts.norm(lo_) == ZERO and it.facts.eq(hi_, size):
                    ax += 1
                else:
                    nm = f"{lo_!r}:{hi_!r}"
                    cur = net.select_axis(sp, cur, ax, nm, it.facts.norm(hi_ - lo_))
                    ax += 1
        elif isinstance(x, VInt):
            p = it.facts.norm(x.p)
            size = cur.axis_size(ax)
            if size == ONE and p.const_value() in (0, -1):
                cur = net.drop_axis(sp, cur, ax)
            else:
                cur = net.index_axis_int(sp, cur, ax, repr(p))
            if cnts is not None:
                cnts.pop(ax)
        elif isinstance(x, VTensor):
            # integer index tensor (gather): new axis shares the index tensor's (single) axis
            idt = x.dense()
            if idt.ndim() != 1 or len(idt.terms) != 1:
                raise Unmodelled("advanced indexing with a non-vector index")
            cur = net.select_axis(sp, cur, ax, gather_name(sp, idt), idt.axis_size(0))
            # identify the new axis with the index vector's axis (batch wire)
            for term in cur.terms:
                sp.unify(term.out[ax][0], idt.terms[0].out[0][0], "gather index")
            ax += 1
        elif isinstance(x, VOpaque) and x.tag.startswith("userslice:"):
            nm = x.tag.split(":", 1)[1]
            if not userslice_is_full(it.facts, nm):       # slice(None, None, None) keeps the axis as it is
                cur = net.select_axis(sp, cur, ax, nm, P.atom(f"|{nm}|"))
            ax += 1
        elif isinstance(x, VOpaque) and x.tag.startswith("userint:"):
            cur = net.index_axis_int(sp, cur, ax, x.tag.split(":", 1)[1])
            if cnts is not None:
                cnts.pop(ax)
        else:
            raise Unmodelled(f"tensor index of type {type(x).__name__}")
    return VTensor(cur, base.dtype, cnts)


def slicefield_atom(nm, field):
    """0/1 unknown: the field of the caller's slice `nm` is None (1) or not (0)"""
    return P.atom(f"isnone[{nm}.{field}]")


def userslice_is_full(facts, nm) -> bool:
    """the path has established that start, stop and step of the caller's slice are all None"""
    return all(facts.eq(slicefield_atom(nm, f), ONE) for f in ("start", "stop", "step"))


def gather_name(sp, idx: Dense) -> str:
    """name of the selection matrix defined by an integer index vector (its canonical network text)"""
    return "gather:" + net._canon_term(sp, idx.terms[0]).replace(" ", "")


def _slice_bounds(it, x: VSlice, total: P):
    """(offset, size) of a python slice on an axis of size `total`; negative symbolic bounds follow Python semantics
    (a bound that may be -0 is 0, i.e. the whole axis: decided by a structural fork)"""
    def resolve(b, default):
        if b is None:
            return default
        if not isinstance(b, VInt):
            raise Unmodelled("non-integer slice bound")
        p = it.facts.norm(b.p)
        neg = it.facts.compare(p, "<", 0)
        if neg is None:
            from .interp import _int_fact_installers
            neg = it.truth(VBool(None, f"{p!r} < 0", *_int_fact_installers("<", p, ZERO)))
            p = it.facts.norm(b.p)
        return it.facts.norm(total + p) if neg else p
    if x.step is not None:
        raise Unmodelled("stepped slice")
    lo = resolve(x.lo, ZERO)
    hi = resolve(x.hi, total)
    return lo, it.facts.norm(hi - lo)


def setitem(it, base: VTensor, sl_node, v, fr):
    """tensor[slices] = value  (slice assignment into a zeros/block tensor; assignment of 0 clears a region)"""
    idx = it.ev(sl_node, fr)
    items = list(idx.items) if isinstance(idx, VTuple) else [idx]
    blk = base.block()
    if len(items) != blk.ndim():
        raise Unmodelled("partial slice assignment")
    shape = blk.shape()
    offsets, sizes, int_axes = [], [], []
    for ax, x in enumerate(items):
        if isinstance(x, VSlice) and x.lo is None and x.hi is None:
            offsets.append(None)
            sizes.append(None)
        elif isinstance(x, VSlice):
            o, sz = _slice_bounds(it, x, shape[ax])
            offsets.append(o)
            sizes.append(sz)
        elif isinstance(x, VInt):
            # an integer position of the target: the value has no axis there (re-inserted as a unit axis below)
            p_ = it.facts.norm(x.p)
            neg = it.facts.compare(p_, "<", 0)
            if neg is None:
                raise Unmodelled("slice assignment at a position of unknown sign")
            offsets.append(it.facts.norm(shape[ax] + p_) if neg else p_)
            sizes.append(ONE)
            int_axes.append(ax)
        else:
            raise Unmodelled("slice assignment with a non-slice index")
    if any(sz is not None and it.facts.norm(P.of(sz)) == ZERO for sz in sizes):
        return          # an empty region: nothing is stored
    if int_axes and isinstance(v, VTensor):
        d_ = v.dense()
        for ax in int_axes:
            d_ = net.insert_axis(d_, ax)
        v = VTensor(d_, v.dtype)
    if isinstance(v, VTensor) and not (v.val.blocks if isinstance(v.val, Block) else v.val.terms):
        v = VFloat(0.0)     # a tensor that is identically zero clears the region
    if isinstance(v, (VInt, VFloat)):
        z = v.p.const_value() if isinstance(v, VInt) else v.x
        if z == 0:
            base.val = blk.zero_region(offsets, sizes)
            return
        raise Unmodelled("slice assignment of a non-zero scalar")
    if isinstance(v, VTensor):
        val = v.val
    else:
        raise Unmodelled("slice assignment of a non-tensor")
    base.val = blk.place(offsets, sizes, val if isinstance(val, Block) else Block.of_dense(val))


# --------------------------------------------------------------------------- calls

def call(it, e: ast.Call, fr):
    fn = e.func
    # method calls
    if isinstance(fn, ast.Attribute):
        base = it.ev(fn.value, fr)
        if not isinstance(base, VFunc):
            args = [it.ev(a, fr) for a in e.args]
            kwargs = {k.arg: it.ev(k.value, fr) for k in e.keywords}
            return method(it, base, fn.attr, args, kwargs, fr, e)
        f = VFunc(it.model.canon(base.dotted + "." + fn.attr))
    else:
        f = it.ev(fn, fr)
    if isinstance(f, VBound):
        args = [it.ev(a, fr) for a in e.args]
        kwargs = {k.arg: it.ev(k.value, fr) for k in e.keywords}
        return method(it, f.recv, f.name, args, kwargs, fr, e)
    if isinstance(f, VPartial):
        args = [it.ev(a, fr) for a in e.args]
        kwargs = {k.arg: it.ev(k.value, fr) for k in e.keywords}
        if f.func is None:                      # operator.itemgetter(k)
            if len(args) != 1 or kwargs:
                raise Unmodelled("itemgetter call")
            return subscript(it, args[0], f.args[0], fr, e)
        return call_value(it, f.func, list(f.args) + args, {**f.kwargs, **kwargs}, fr, e)
    if isinstance(f, VRecordType):
        args = [it.ev(a, fr) for a in e.args]
        kwargs = {k.arg: it.ev(k.value, fr) for k in e.keywords}
        if len(args) + len(kwargs) != len(f.fields) or any(k not in f.fields for k in kwargs):
            raise Raised("TypeError", f"{f.name}() arguments")
        attrs = dict(zip(f.fields, args))
        attrs.update(kwargs)
        if set(attrs) != set(f.fields):
            raise Raised("TypeError", f"{f.name}() arguments")
        attrs["__fields__"] = f.fields
        return VObj("record:" + f.name, attrs)
    if isinstance(f, VClosure):
        args = [it.ev(a, fr) for a in e.args]
        kwargs = {k.arg: it.ev(k.value, fr) for k in e.keywords}
        return it.call_function(f.func, args, kwargs, closure_env=f.env)
    if not isinstance(f, VFunc):
        raise Unmodelled(f"call of {type(f).__name__}")
    args = []
    for a in e.args:
        if isinstance(a, ast.Starred):
            args += it.iter_concrete(it.ev(a.value, fr))
        else:
            args.append(it.ev(a, fr))
    kwargs = {k.arg: it.ev(k.value, fr) for k in e.keywords}
    return function(it, f.dotted, args, kwargs, fr, e)


def call_value(it, f, args, kwargs, fr, node):
    """call a function *value* (a closure, a repository function, a library function) with evaluated arguments"""
    if isinstance(f, VPartial):
        if f.func is None:
            return subscript(it, args[0], f.args[0], fr, node)
        return call_value(it, f.func, list(f.args) + list(args), {**f.kwargs, **kwargs}, fr, node)
    if isinstance(f, VClosure):
        return it.call_function(f.func, args, kwargs, closure_env=f.env)
    if isinstance(f, VFunc):
        return function(it, f.dotted, args, kwargs, fr, node)
    if isinstance(f, VBound):
        return method(it, f.recv, f.name, args, kwargs, fr, node)
    raise Unmodelled(f"call of {type(f).__name__}")


def _as_intarr(it, v):
    if isinstance(v, VIntArr):
        return v
    if isinstance(v, VIndexSeq):
        out = []
        for n, a, b in v.parts:
            c = it.facts.norm(n).const_value()
            if c is None:
                return None
            out += [a * k + b for k in range(int(c))]
        return VIntArr((len(out),), out)
    return None


def method(it, base, name, args, kwargs, fr, node):
    if isinstance(base, VOpaque) and base.tag == "logger":
        return VNone()       # logging calls carry no value
    if isinstance(base, VConstDict):
        if name == "get" and 1 <= len(args) <= 2:
            ok, key = it.literal_key(args[0])
            if not ok:
                raise Unmodelled("table lookup with a key that is not a literal")
            hit = next((v for k, v in base.items if type(k) is type(key) and k == key), None)
            return hit if hit is not None else (args[1] if len(args) == 2 else VNone())
        if name == "keys":
            return VList([it.const(k) for k, _ in base.items])
        if name == "values":
            return VList([v for _, v in base.items])
        if name == "items":
            return VList([VTuple((it.const(k), v)) for k, v in base.items])
        raise Unmodelled(f"method {name} of a table")
    if isinstance(base, (VIntArr, VIndexSeq)) and name in ("reshape", "transpose", "flatten", "ravel", "tolist"):
        arr = _as_intarr(it, base)
        if arr is not None:
            if name == "reshape":
                shp = args[0] if len(args) == 1 and isinstance(args[0], (VList, VTuple)) else VList(list(args))
                dims = [it.facts.norm(x.p).const_value() if isinstance(x, VInt) else None for x in shp.items]
                if None in dims:
                    raise Unmodelled("reshape of an index array to symbolic sizes")
                try:
                    return arr.reshape([int(x) for x in dims])
                except ValueError:
                    raise Raised("ValueError", "cannot reshape array")
            if name == "transpose" and not args:
                return arr.transpose()
            if name in ("flatten", "ravel"):
                return arr.flatten()
            if name == "tolist" and len(arr.shape) == 1:
                return VList([VInt(P.const(x)) for x in arr.data])
    if isinstance(base, VList):
        if name == "append":
            if it.class_ctx and id(base) not in it.class_ctx[-1].local_lists:
                it.class_ctx[-1].appended.setdefault(id(base), []).append(args[0])
            else:
                base.items.append(args[0])
            return VNone()
        if name == "extend" and args and isinstance(args[0], (VList, VTuple)):
            if it.class_ctx and id(base) not in it.class_ctx[-1].local_lists:
                for x in args[0].items:
                    it.class_ctx[-1].appended.setdefault(id(base), []).append(x)
            else:
                base.items.extend(args[0].items)
            return VNone()
        if name == "copy":
            v = VList(list(base.items))
            if it.class_ctx:
                it.class_ctx[-1].local_lists.add(id(v))
            return v
        if name == "count":
            n = 0
            for x in base.items:
                if isinstance(x, VOpaque) and isinstance(args[0], VOpaque) and x.tag == args[0].tag:
                    n += 1
            return VInt(P.const(n))
        if name == "index" and isinstance(args[0], VInt):
            for i, x in enumerate(base.items):
                if isinstance(x, VInt) and it.facts.compare(x.p, "==", args[0].p) is True:
                    return VInt(P.const(i))
            raise Unmodelled("list.index with undecidable equality")
        raise Unmodelled(f"list.{name}")
    if isinstance(base, VTuple):
        if name == "count":
            n = sum(1 for x in base.items if isinstance(x, VOpaque) and isinstance(args[0], VOpaque) and x.tag == args[0].tag)
            return VInt(P.const(n))
        raise Unmodelled(f"tuple.{name}")
    if isinstance(base, VSeq):
        if name == "copy":
            if base.name.startswith("cores_"):
                return seq_to_list(it, base)
            return base
        raise Unmodelled(f"sequence.{name}")
    if isinstance(base, VSymList):
        if name == "copy":
            c = VSymList(list(base.segments))
            c.overrides = list(getattr(base, "overrides", []) or [])
            return c
        if name == "append":
            if it.class_ctx:
                it.class_ctx[-1].appended.setdefault(id(base), []).append(args[0])
            else:
                base.segments.append(Segment("concrete", ONE, [args[0]]))
            return VNone()
        raise Unmodelled(f"symlist.{name}")
    if isinstance(base, VTensor):
        return tensor_method(it, base, name, args, kwargs, node)
    if isinstance(base, VTT):
        return it.call_method(base, name, args, kwargs, fr, node)
    if isinstance(base, VScalar):
        if name == "numel":
            return VInt(ONE)
        if name in ("item", "cpu", "numpy", "to", "clone", "detach"):
            return base
        raise Unmodelled(f"scalar.{name}")
    if isinstance(base, VObj):
        if name in base.attrs:
            c = base.attrs[name]
            if isinstance(c, VContraction):
                ops = [a.dense() for a in args]
                return VTensor(net.einsum(it.sp, c.spec, ops), args[0].dtype if isinstance(args[0], VTensor) else "?")
            raise Unmodelled(f"call of attribute {name}")
        f = it.model.functions.get(f"{base.cls}.{name}")
        if f is None:
            raise TypeViolation(f"{base.cls.rsplit('.', 1)[-1]} has no method `{name}`")
        hook = it.hooks.get(("function", f"{base.cls}.{name}"))
        if hook is not None:
            return hook(it, [base] + list(args), kwargs, fr, node)
        return it.call_function(f, args, kwargs, recv=base)
    if isinstance(base, VOpaque):
        it.trace.append(("call", f"{base.tag}.{name}"))
        if name in ("count",) and base.tag.startswith("index"):
            return VInt(P.atom(f"count({base.tag})"))
        return VOpaque(f"{base.tag}.{name}()")
    raise Unmodelled(f"method {name} of {type(base).__name__}")


def seq_to_list(it, seq: VSeq):
    """A list holding the elements of a symbolic sequence (x.cores.copy(), list(x.cores))."""
    n = it.facts.norm(seq.length)
    mode = it.position_classes(n, f"copy of {seq.name}")
    if mode == "empty":
        return VList([])
    if mode == "concrete":
        n = it.facts.norm(seq.length).const_value()
        return VList([seq.get(it.facts.norm(seq.lo + i)) for i in range(int(n))])
    n = it.facts.norm(seq.length)
    iv = it.fresh_atom("j")
    entries = []
    for label, k in (("first", ZERO), ("interior", P.atom(iv)), ("last", n - 1)):
        f = it.facts.copy()
        if label == "interior":
            from .interp import _install_ge
            f.lb[iv] = 1
            _install_ge(f, n - 2 - P.atom(iv), 0)
        saved = it.facts
        it.facts = f
        it.sp.facts = f
        entries.append(ClassEntry(label, k, [seq.get(f.norm(seq.lo + k))], [], f))
        it.facts = saved
        it.sp.facts = saved
    seg = Segment("loop", n, entries, iv)
    seg.regen = lambda p, seq=seq: seq.get(it.facts.norm(seq.lo + p))
    return VSymList([seg])


def _int_list(it, v):
    if isinstance(v, (VList, VTuple)):
        out = []
        for x in v.items:
            if isinstance(x, VInt):
                c = it.facts.norm(x.p).const_value()
                if c is None:
                    raise Unmodelled("symbolic axis number")
                out.append(int(c))
            else:
                raise Unmodelled("non-integer axis list")
        return out
    if isinstance(v, VInt):
        c = it.facts.norm(v.p).const_value()
        if c is None:
            raise Unmodelled("symbolic axis number")
        return [int(c)]
    raise Unmodelled("axis list")


def _axis_list(it, t: VTensor, v):
    """axis numbers of a tensor; symbolic numbers are resolved through the bundle counts"""
    items = v.items if isinstance(v, (VList, VTuple)) else [v]
    out = []
    for x in items:
        if not isinstance(x, VInt):
            raise Unmodelled("non-integer axis")
        c = it.facts.norm(x.p).const_value()
        if t.counts is None:
            if c is None:
                raise Unmodelled("symbolic axis number on a tensor without bundle layout")
            out.append(int(c))
            continue
        n = len(t.counts)
        if c is not None and c < 0:
            # negative numbers count real axes from the end
            off = ZERO
            found = None
            for j in range(n - 1, -1, -1):
                off = off + t.counts[j]
                if it.facts.eq(off, -c) and it.facts.eq(t.counts[j], ONE):
                    found = j
                    break
            if found is None:
                raise Unmodelled(f"axis {c} does not address a single axis of the bundled layout")
            out.append(found)
            continue
        off = ZERO
        found = None
        for j in range(n):
            if it.facts.eq(off, x.p) and it.facts.eq(t.counts[j], ONE):
                found = j
                break
            off = off + t.counts[j]
        if found is None:
            raise TypeViolation(f"axis number {it.facts.norm(x.p)!r} does not address a single axis of the layout "
                                f"{[repr(it.facts.norm(cc)) for cc in t.counts]} (batch axes / remaining modes / produced modes / bond)")
        out.append(found)
    return out


def _size_list(it, v):
    if isinstance(v, VTensor):
        raise Unmodelled("tensor as shape")
    if isinstance(v, (VList, VTuple)):
        out = []
        for x in v.items:
            if isinstance(x, VInt):
                c = x.p.const_value()
                out.append(-1 if c == -1 else x.p)
            else:
                raise Unmodelled(f"shape entry of type {type(x).__name__}")
        return out
    if isinstance(v, VInt):
        c = v.p.const_value()
        return [-1 if c == -1 else v.p]
    raise Unmodelled("shape argument")


def tensor_method(it, base: VTensor, name, args, kwargs, node):
    sp = it.sp
    if name in ("clone", "contiguous", "cpu", "cuda", "detach", "to", "double", "float", "type", "numpy", "resolve_conj"):
        v = VTensor(base.val, base.dtype, base.counts)
        if name in ("clone", "detach", "double", "float", "type", "numpy") or getattr(base, "is_copy", False):
            v.is_copy = True      # same value, other storage / other autograd node: effects on it do not reach the original
        return v
    if name == "conj":
        return VTensor(base.val.conj(), base.dtype)
    if name in ("t",):
        d = base.dense()
        if d.ndim() != 2:
            raise TypeViolation(".t() of a tensor that is not a matrix")
        return VTensor(d.permute([1, 0]), base.dtype)
    if name == "permute":
        perm = _int_list(it, args[0] if len(args) == 1 and isinstance(args[0], (VList, VTuple)) else VList(list(args)))
        return VTensor(base.dense().permute(perm), base.dtype)
    if name in ("reshape", "view"):
        tgt = _size_list(it, args[0] if len(args) == 1 and isinstance(args[0], (VList, VTuple)) else VList(list(args)))
        return VTensor(net.reshape(sp, base.dense(), tgt), base.dtype)
    if name == "numel":
        n = ONE
        for s in base.block().shape():
            n = n * s
        return VInt(it.facts.norm(n))
    if name == "dim":
        if base.counts is not None:
            tot = ZERO
            for c in base.counts:
                tot = tot + c
            return VInt(it.facts.norm(tot))
        return VInt(P.const(base.block().ndim()))
    if name == "size":
        shp = base.block().shape()
        if args:
            return VInt(shp[_int_list(it, args[0])[0]])
        return VTuple(tuple(VInt(s) for s in shp))
    if name in ("new_ones", "new_zeros"):
        # a fresh constant tensor with this tensor's dtype (and device)
        shp = args[0] if len(args) == 1 and isinstance(args[0], (VList, VTuple)) else VList(list(args))
        sizes = _size_list(it, shp)
        dt = _dtype_of(kwargs, base.dtype) if "dtype" in kwargs else base.dtype
        if name == "new_ones":
            return VTensor(net.ones_tensor(sp, sizes), dt)
        return VTensor(Block(sp, [[it.facts.norm(P.of(s_))] for s_ in sizes], {}), dt)
    if name == "repeat":
        reps = args[0] if len(args) == 1 and isinstance(args[0], (VList, VTuple)) else VTuple(tuple(args))
        return function(it, "torch.tile", [base, reps], {}, None, node)
    if name in ("squeeze", "unsqueeze", "sum", "diagonal", "transpose", "swapaxes", "tile", "conj_physical", "flatten", "unflatten", "movedim", "matmul"):
        return function(it, "torch." + name, [base] + list(args), kwargs, None, node)
    if name == "requires_grad_":
        d_ = base.dense()
        who = "+".join(sorted({a.name for t in d_.terms for a in t.atoms}))[:60] + (" (a copy)" if getattr(base, "is_copy", False) else "")
        flag = args[0].v if args and isinstance(args[0], VBool) else (kwargs["requires_grad"].v if isinstance(kwargs.get("requires_grad"), VBool) else True)
        it.trace.append(("requires_grad_", who, flag))
        return base
    if name == "norm" and not args and not kwargs:
        return VScalar(Coef.sym("norm(" + base.dense().canon() + ")"))
    raise Unmodelled(f"tensor method {name}")


def _kind_of_scalar(v):
    return v.kind if isinstance(v, VScalar) else None


def isinstance_check(it, v, t) -> VBool:
    names = []
    ts = t.items if isinstance(t, VTuple) else [t]
    for x in ts:
        if isinstance(x, VFunc):
            names.append(x.dotted)
        else:
            raise Unmodelled("isinstance with a non-class")
    for nm in names:
        short = nm.rsplit(".", 1)[-1]
        if isinstance(v, VTT) and nm.endswith("_tt_base.TT"):
            return VBool(True)
        if isinstance(v, VTensor) and nm in ("torch.Tensor", "torch.tensor"):
            return VBool(True)
        if isinstance(v, VScalar):
            if v.kind in ("tensor0", "tensor1") and nm in ("torch.Tensor", "torch.tensor"):
                return VBool(True)
            if v.kind == short and nm.startswith("builtins."):
                return VBool(True)
            if v.kind == "numpy" and nm.startswith("numpy."):
                return VBool(True)
        if isinstance(v, VInt) and short == "int":
            return VBool(True)
        if isinstance(v, VFloat) and short == "float":
            return VBool(True)
        if isinstance(v, (VList, VSymList)) and short == "list":
            return VBool(True)
        if isinstance(v, VSeq) and short == "list":
            return VBool(True)
        if isinstance(v, VTuple) and short == "tuple":
            return VBool(True)
        if isinstance(v, VSlice) and short == "slice":
            return VBool(True)
        if isinstance(v, VStr) and short == "str":
            return VBool(True)
        if isinstance(v, VOpaque) and v.tag.startswith("userslice") and short == "slice":
            return VBool(True)
        if isinstance(v, VOpaque) and v.tag.startswith("userint") and short == "int":
            return VBool(True)
    return VBool(False)


PLAIN_CLASSES = {"torchtt.solvers._LinearOp", "torchtt._division.LinearOp"}


def function(it, dotted, args, kwargs, fr, node):
    sp = it.sp
    model = it.model
    # ---- repository
    if dotted in model.classes:
        short = dotted.rsplit(".", 1)[-1]
        if dotted == "torchtt._tt_base.TT":
            return construct_tt(it, args, kwargs, node)
        if short in EXC_NAMES or dotted.startswith("torchtt.errors"):
            return VOpaque("exception:" + short)
        if dotted in PLAIN_CLASSES:
            obj = VObj(dotted)
            init = model.functions.get(dotted + ".__init__")
            if init is not None:
                it.call_function(init, args, kwargs, recv=obj)
            return obj
        cnode = model.classes[dotted]
        is_dc = any((isinstance(d_, ast.Name) and d_.id == "dataclass") or (isinstance(d_, ast.Attribute) and d_.attr == "dataclass")
                    or (isinstance(d_, ast.Call) and ((isinstance(d_.func, ast.Name) and d_.func.id == "dataclass") or (isinstance(d_.func, ast.Attribute) and d_.func.attr == "dataclass")))
                    for d_ in cnode.decorator_list)
        is_nt = any((isinstance(b, ast.Name) and b.id == "NamedTuple") or (isinstance(b, ast.Attribute) and b.attr == "NamedTuple") for b in cnode.bases)
        if (is_dc or is_nt) and model.functions.get(dotted + ".__init__") is None and model.functions.get(dotted + ".__post_init__") is None:
            # a record: fields in declaration order, defaults that are literals
            fields, defaults = [], {}
            for st in cnode.body:
                if isinstance(st, ast.AnnAssign) and isinstance(st.target, ast.Name):
                    fields.append(st.target.id)
                    if st.value is not None:
                        if not isinstance(st.value, ast.Constant):
                            raise Unmodelled(f"record {dotted} with a computed default")
                        defaults[st.target.id] = it.const(st.value.value)
            if len(args) > len(fields) or any(k not in fields for k in kwargs):
                raise Raised("TypeError", f"{short}() arguments")
            attrs = dict(zip(fields, args))
            for k, v in kwargs.items():
                if k in attrs:
                    raise Raised("TypeError", f"{short}() got multiple values for {k}")
                attrs[k] = v
            for k in fields:
                if k not in attrs:
                    if k not in defaults:
                        raise Raised("TypeError", f"{short}() missing argument {k}")
                    attrs[k] = defaults[k]
            obj = VObj(("record:" if is_nt else "") + dotted, attrs)
            if is_nt:
                attrs["__fields__"] = tuple(fields)
            return obj
        raise Unmodelled(f"instantiation of {dotted}")
    if dotted in model.functions:
        hook = it.hooks.get(("function", dotted))
        if hook is not None:
            return hook(it, args, kwargs, fr, node)
        return it.call_function(model.functions[dotted], args, kwargs)
    top = dotted.split(".")[0]
    last = dotted.rsplit(".", 1)[-1]
    ext_hook = it.hooks.get(("function", dotted))
    if ext_hook is not None:
        return ext_hook(it, args, kwargs, fr, node)      # a scenario observes a call that leaves the package (the compiled backend)
    # ---- builtins
    if top == "builtins":
        return builtin(it, last, args, kwargs, fr, node)
    if top == "numpy":
        if last == "isscalar":
            v = args[0]
            if isinstance(v, VScalar):
                return VBool(v.kind in ("int", "float", "complex", "numpy", "python"))
            return VBool(isinstance(v, (VInt, VFloat, VStr)))
        if last == "arange" and len(args) == 1 and isinstance(args[0], VInt):
            return VIndexSeq([(args[0].p, 1, 0)])
        if last == "sqrt" and len(args) == 1 and isinstance(args[0], (VInt, VFloat, VScalar)):
            return _sqrt_scalar(args[0])
        if last == "norm" and len(args) == 1 and isinstance(args[0], VTensor) and not kwargs:
            return VScalar(Coef.sym("norm(" + args[0].dense().canon() + ")"))
        if last == "prod":
            try:
                items = it.iter_concrete(args[0])
            except Unmodelled:
                items = None
            if items is not None:
                out = ONE
                for x in items:
                    out = out * x.p
                return VInt(out)
            return VInt(P.atom(f"prod({args[0].name})"))
        raise Unmodelled(f"numpy.{last}")
    if top in ("torch", "opt_einsum"):
        return torch_function(it, dotted, last, args, kwargs, node)
    if top == "sys":
        return VOpaque(dotted)
    if dotted == "itertools.starmap" and len(args) == 2 and not kwargs:
        return VList([call_value(it, args[0], it.iter_concrete(x), {}, fr, node) for x in it.iter_concrete(args[1])])
    if dotted == "functools.partial" and args:
        return VPartial(args[0], tuple(args[1:]), dict(kwargs))
    if dotted == "operator.itemgetter" and len(args) == 1 and not kwargs:
        return VPartial(None, (args[0],), {})
    if dotted in ("itertools.chain", "itertools.chain.from_iterable") and not kwargs:
        parts = args if dotted == "itertools.chain" else (it.iter_concrete(args[0]) if len(args) == 1 else None)
        if parts is None:
            raise Unmodelled("itertools.chain.from_iterable arguments")
        if all(isinstance(p_, VSymList) for p_ in parts) and len(parts) == 1:
            return parts[0]
        out = []
        for p_ in parts:
            out += it.iter_concrete(p_)
        return VList(out)
    if dotted == "itertools.pairwise" and len(args) == 1 and not kwargs:
        src = args[0]
        if isinstance(src, VSeq) and it.facts.norm(src.length).const_value() is None:
            # neighbouring pairs of a sequence of symbolic length: position k holds (s[k], s[k+1])
            return VSeq(f"pairwise({src.name})", it.facts.norm(src.length - 1),
                        lambda k, src=src: VTuple((src.get(it.facts.norm(src.lo + P.of(k))), src.get(it.facts.norm(src.lo + P.of(k) + 1)))))
        items = it.iter_concrete(args[0])
        return VList([VTuple((a, b)) for a, b in zip(items, items[1:])])
    if dotted == "functools.reduce" and len(args) in (2, 3) and not kwargs:
        items = it.iter_concrete(args[1])
        fn = args[0]
        if len(args) == 3:
            acc = args[2]
        elif items:
            acc, items = items[0], items[1:]
        else:
            raise Raised("TypeError", "reduce() of empty iterable with no initial value")
        for x in items:
            acc = call_value(it, fn, [acc, x], {}, fr, node)
        return acc
    if dotted.startswith("operator.") and last in ("mul", "add", "sub", "matmul", "truediv", "floordiv") and len(args) == 2 and not kwargs:
        opn = {"mul": ast.Mult, "add": ast.Add, "sub": ast.Sub, "matmul": ast.MatMult, "truediv": ast.Div, "floordiv": ast.FloorDiv}[last]()
        return it.binop(opn, args[0], args[1], fr, node)
    if dotted == "math.prod" and len(args) == 1 and not kwargs:
        out = ONE
        for x in it.iter_concrete(args[0]):
            if not isinstance(x, VInt):
                raise Unmodelled("math.prod of values that are not integers")
            out = out * x.p
        return VInt(out)
    if dotted == "math.sqrt" and len(args) == 1:
        return _sqrt_scalar(args[0])
    if dotted == "math.log" and len(args) == 2 and all(isinstance(a, VInt) and it.facts.norm(a.p).const_value() is not None for a in args):
        # constant folding with the library function the program itself calls (sizes fixed by the scenario)
        import math
        a, b = (int(it.facts.norm(x.p).const_value()) for x in args)
        if a >= 1 and b >= 2:
            return VFloat(math.log(a, b))
    raise Unmodelled(f"call of {dotted}")


def _sqrt_scalar(v):
    """square root of a plain number: exact when it is one, a named symbol otherwise"""
    import math
    if isinstance(v, VInt) and v.p.const_value() is not None and v.p.const_value() >= 0:
        c = int(v.p.const_value())
        r = math.isqrt(c)
        return VFloat(float(r)) if r * r == c else VScalar(Coef.sym(f"sqrt({c})"))
    if isinstance(v, VFloat) and v.x >= 0:
        return VFloat(math.sqrt(v.x))
    if isinstance(v, VInt):
        return VScalar(Coef.sym(f"sqrt({v.p!r})"))
    return VScalar(Coef.sym("sqrt(" + v.coef.show() + ")"))


def builtin(it, name, args, kwargs, fr, node):
    if name == "sorted" and len(args) == 1 and isinstance(args[0], (VList, VTuple)) and not kwargs:
        cs = [it.facts.norm(x.p).const_value() if isinstance(x, VInt) else None for x in args[0].items]
        if all(c is not None for c in cs):
            return VList([VInt(P.const(int(c))) for c in sorted(cs)])
        raise Unmodelled("sorted() of symbolic values")
    if name == "len":
        v = args[0]
        if isinstance(v, (VList, VTuple)):
            return VInt(P.const(len(v.items)))
        if isinstance(v, VSeq):
            return VInt(it.facts.norm(v.length))
        if isinstance(v, VSymList):
            n = ZERO
            for s in v.segments:
                n = n + s.length
            return VInt(it.facts.norm(n))
        if isinstance(v, VOpaque):
            return VInt(P.atom(f"len({v.tag})"))
        if isinstance(v, VTensor):
            return VInt(v.block().shape()[0])
        raise Unmodelled(f"len of {type(v).__name__}")
    if name == "range":
        vals = [a.p if isinstance(a, VInt) else None for a in args]
        if any(v is None for v in vals):
            raise Unmodelled("range of non-integers")
        if len(vals) == 1:
            return VRange(ZERO, vals[0])
        if len(vals) == 2:
            return VRange(vals[0], vals[1])
        st = vals[2].const_value()
        if st == -1:
            return VRange(vals[0], vals[1], -1)
        if st == 1:
            return VRange(vals[0], vals[1])
        lo_c, hi_c = it.facts.norm(vals[0]).const_value(), it.facts.norm(vals[1]).const_value()
        if st not in (None, 0) and lo_c is not None and hi_c is not None:
            return VList([VInt(P.const(k)) for k in range(int(lo_c), int(hi_c), int(st))])
        raise Unmodelled("range step")
    if name == "zip":
        return VZip(list(args))
    if name == "enumerate":
        st = args[1] if len(args) > 1 else kwargs.get("start")
        if st is not None and not isinstance(st, VInt):
            raise Unmodelled("enumerate with a start that is not an integer")
        e = VEnumerate(args[0])
        e.start = st.p if st is not None else ZERO
        return e
    if name == "_ttsa_is_sequence":
        v = args[0]
        if isinstance(v, (VList, VTuple, VSeq, VSymList, VRange)):
            return VBool(True)
        if isinstance(v, (VInt, VFloat, VStr, VNone, VBool, VTensor, VTT, VScalar)):
            return VBool(False)
        raise Unmodelled(f"sequence pattern against {type(v).__name__}")
    if name == "isinstance":
        return isinstance_check(it, args[0], args[1])
    if name in ("list", "tuple"):
        if not args:
            return VList([]) if name == "list" else VTuple(())
        v = args[0]
        if isinstance(v, VOpaque):
            return v      # list(<result of an opaque routine>): still opaque
        if isinstance(v, VIntArr) and len(v.shape) == 1:
            items = [VInt(P.const(x)) for x in v.data]
            return VList(items) if name == "list" else VTuple(tuple(items))
        if isinstance(v, VIndexSeq):
            out = []
            for n, a, b in v.parts:
                c = it.facts.norm(n).const_value()
                if c is None:
                    return v
                out += [VInt(P.const(a * k + b)) for k in range(int(c))]
            return VList(out)
        if isinstance(v, VSeq) and v.name.startswith("cores_"):
            return seq_to_list(it, v)
        if isinstance(v, (VSeq, VSymList)):
            return v
        items = it.iter_concrete(v)
        return VList(items) if name == "list" else VTuple(tuple(items))
    if name == "reversed":
        v = args[0]
        if isinstance(v, (VList, VTuple)):
            return VList(list(reversed(v.items)))
        if isinstance(v, VRange):
            return VRange(v.stop - 1, v.start - 1, -1) if v.step == 1 else VRange(v.stop + 1, v.start + 1, 1)
        raise Unmodelled("reversed of a symbolic sequence")
    if name == "sum":
        v = args[0]
        items = it.iter_concrete(v)
        if all(isinstance(x, VBool) for x in items):
            return VInt(P.const(sum(1 for x in items if it.truth(x))))
        out = ZERO
        for x in items:
            if not isinstance(x, VInt):
                raise Unmodelled("sum of non-integers")
            out = out + x.p
        return VInt(out)
    if name in ("min", "max"):
        vals = args if len(args) > 1 else it.iter_concrete(args[0])
        # sys.maxsize: larger than every size
        big = [x for x in vals if (isinstance(x, VFunc) and x.dotted == "sys.maxsize") or (isinstance(x, VOpaque) and x.tag == "sys.maxsize")]
        if big and len(big) < len(vals):
            if name == "max":
                return big[0]
            vals = [x for x in vals if x not in big]
        best = vals[0]
        if not all(isinstance(x, VInt) for x in vals):
            raise Unmodelled(f"{name} of values that are not integers ({', '.join(type(x).__name__ for x in vals)})")
        for x in vals[1:]:
            c = it.facts.compare(x.p, "<" if name == "min" else ">", best.p)
            if c is None:
                if not (isinstance(x, VInt) and isinstance(best, VInt)):
                    raise Unmodelled(f"{name} of incomparable symbolic values")
                # run-time integers (a rank cap against a selected rank): both orders are explored
                c = it.truth(VBool(None, f"{it.facts.norm(x.p)!r} {'<' if name == 'min' else '>'} {it.facts.norm(best.p)!r}", None, None))
            if c:
                best = x
        return best
    if name == "int" and len(args) == 1 and isinstance(args[0], VFloat):
        return VInt(P.const(int(args[0].x)))
    if name in ("int", "float", "abs"):
        return args[0]
    if name == "str":
        return VStr("")
    if name == "bool" and len(args) == 1:
        return VBool(it.truth(args[0]))
    if name in ("any", "all"):
        v = args[0]
        if isinstance(v, (VList, VTuple)):
            vals = [it.truth(x) for x in v.items]
            return VBool(any(vals) if name == "any" else all(vals))
        if isinstance(v, VSymList):
            # a guard over all positions: true iff true in some/every position class
            res, rels = [], []
            for s in v.segments:
                for ent in s.entries:
                    xs = ent.items if isinstance(ent, ClassEntry) else [ent]
                    for x in xs:
                        t = it.truth(x)
                        res.append(t)
                        inner = x.inner if isinstance(x, _NegBool) else x
                        neg = isinstance(x, _NegBool)
                        rels.append((s, ent, (t != neg), getattr(inner, "rel", None)))
            out = any(res) if name == "any" else all(res)
            # "no position differs" / "every position agrees": generalise the per-class equalities to the whole index range
            if (name == "any" and not out) or (name == "all" and out):
                _generalise(it, rels)
            return VBool(out)
        raise Unmodelled(f"{name} over {type(v).__name__}")
    if name == "set":
        items = it.iter_concrete(args[0]) if args else []
        out = []
        for x in items:
            if not isinstance(x, VInt):
                raise Unmodelled("set of non-integers")
            if not any(it.facts.compare(x.p, "==", y.p) is True for y in out):
                if any(it.facts.compare(x.p, "==", y.p) is None for y in out):
                    raise Unmodelled("set with undecidable element equality")
                out.append(x)
        return VList(out)
    if name == "iter":
        return VList(list(it.iter_concrete(args[0])))
    if name == "next":
        v = args[0]
        if isinstance(v, VList) and v.items:
            return v.items.pop(0)
        if isinstance(v, VList):
            raise Raised("StopIteration", "next() on an exhausted iterator")
        raise Unmodelled("next() on a symbolic iterator")
    if name == "print":
        return VNone()
    if name == "slice":
        return VSlice(*(list(a if not isinstance(a, VNone) else None for a in args) + [None] * (3 - len(args))))
    if name in EXC_NAMES:
        return VOpaque("exception:" + name)
    if name == "map" and len(args) >= 2 and not kwargs:
        cols = [it.iter_concrete(a) for a in args[1:]]
        return VList([call_value(it, args[0], list(xs), {}, fr, node) for xs in zip(*cols)])
    raise Unmodelled(f"builtin {name}")


def _generalise(it, rels):
    """all position classes of one loop established seqA[k] == seqB[k]: record it for the whole range of the loop"""
    by_seg = {}
    for seg, ent, truth_of_rel, rel in rels:
        if rel is None or not isinstance(ent, ClassEntry):
            return
        sym, a, b = rel
        holds_eq = (sym == "==" and truth_of_rel) or (sym != "==" and not truth_of_rel)
        if not holds_eq:
            return
        ia = it.facts.atom_index.get(next(iter(a.atoms()), None)) if a.is_monomial() else None
        ib = it.facts.atom_index.get(next(iter(b.atoms()), None)) if b.is_monomial() else None
        if not ia or not ib:
            return
        by_seg.setdefault(id(seg), (seg, []))[1].append((ent, ia, ib))
    for seg, lst in by_seg.values():
        labels = {e.label for e, _, _ in lst}
        if not {"first", "interior", "last"} <= labels:
            continue
        seqs = {(ia[0], ib[0]) for _, ia, ib in lst}
        if len(seqs) != 1:
            continue
        (sa, sb), = seqs
        # index of each class equals the loop ordinal (offset 0) for both sequences
        if all(it.facts.eq(ia[1], ib[1]) and (e.label != "first" or it.facts.eq(ia[1], ZERO)) for e, ia, ib in lst):
            it.facts.add_partial(sb, sa, ZERO, seg.length, "guard over all positions")
            it.facts.add_partial(sa, sb, ZERO, ZERO, "")


def construct_tt(it, args, kwargs, node):
    if not args:
        raise Unmodelled("TT() without source")
    src = args[0]
    it.fresh_n += 1
    name = f"result{it.fresh_n}"
    if isinstance(src, VNone):
        return VTT(name, False, ZERO, VList([]), False)
    if isinstance(src, VList):
        if not src.items:
            raise Raised("IndexError", "TT([])")
        nd = {x.block().ndim() for x in src.items if isinstance(x, VTensor)}
        if len(nd) != 1 or not nd <= {3, 4}:
            raise Raised("InvalidArguments", "cores must be all 3-axis or all 4-axis")
        return VTT(name, nd == {4}, P.const(len(src.items)), src, False)
    if isinstance(src, VSymList):
        nds = set()
        n = ZERO
        for s in src.segments:
            n = n + s.length
            for ent in s.entries:
                xs = ent.items if isinstance(ent, ClassEntry) else [ent]
                for x in xs:
                    if isinstance(x, VTensor):
                        nds.add(x.block().ndim())
        if len(nds) != 1 or not nds <= {3, 4}:
            raise Raised("InvalidArguments", "cores must be all 3-axis or all 4-axis")
        return VTT(name, nds == {4}, it.facts.norm(n), src, False)
    if isinstance(src, VSeq):
        return VTT(name, None, src.length, src, False)
    if isinstance(src, VOpaque):
        return VTT(name, None, P.atom(f"d_{name}"), src, False)      # cores produced by an opaque routine (solver body)
    if isinstance(src, VTensor):
        raise Unmodelled("TT(dense tensor): TT-SVD is not interpreted")
    raise Unmodelled(f"TT({type(src).__name__})")


def _dtype_of(kwargs, default="?"):
    d = kwargs.get("dtype")
    if isinstance(d, VOpaque):
        return d.tag
    if isinstance(d, VFunc):
        return "fixed:" + d.dotted
    return default


def torch_function(it, dotted, last, args, kwargs, node):
    sp = it.sp
    if last in ("einsum", "contract"):
        spec = args[0]
        if not isinstance(spec, VStr):
            raise Unmodelled("einsum with non-literal subscripts")
        ops = [a.dense() for a in args[1:]]
        return VTensor(net.einsum(sp, spec.s, ops), args[1].dtype if isinstance(args[1], VTensor) else "?")
    if last == "contract_expression":
        if not isinstance(args[0], VStr):
            raise Unmodelled("contract_expression with non-literal subscripts")
        nsub = len(args[0].s.split("->")[0].split(","))
        if nsub != len(args) - 1:
            raise TypeViolation(f"contract_expression '{args[0].s}' has {nsub} subscripts for {len(args) - 1} shapes")
        for sub, shp in zip(args[0].s.replace(" ", "").split("->")[0].split(","), args[1:]):
            n = len(shp.items) if isinstance(shp, (VTuple, VList)) else None
            if n is not None and n != len(sub):
                raise TypeViolation(f"contract_expression '{args[0].s}': subscript '{sub}' has {len(sub)} letters for a shape with {n} axes")
        return VContraction(args[0].s, len(args) - 1)
    if last == "inv" and isinstance(args[0], VTensor):
        d = args[0].dense()
        if d.ndim() < 2:
            raise TypeViolation("inverse of a tensor with fewer than two axes")
        if not it.facts.eq(d.axis_size(d.ndim() - 1), d.axis_size(d.ndim() - 2)):
            raise TypeViolation(f"inverse of non-square trailing matrices ({d.axis_size(d.ndim() - 2)!r} x {d.axis_size(d.ndim() - 1)!r})")
        return VTensor(net.inv_atom(sp, d), args[0].dtype)
    if last == "solve" and dotted.endswith("linalg.solve") and isinstance(args[0], VTensor) and isinstance(args[1], VTensor):
        a, b = args[0].dense(), args[1].dense()
        if a.ndim() != 2 or b.ndim() != 2 or len(a.terms) != 1:
            raise Unmodelled("linalg.solve of non-matrices")
        # A x = b: rows of A are identified with the rows of b; the solution has the column structure of A
        net.einsum(sp, "ij,ik->jk", [a, b])
        cols = Dense(sp, [Term(COEF1, a.terms[0].atoms, [a.terms[0].out[1]])])
        xa = net._fn_atom(sp, "solve-cols", cols)
        rhs_cols = Dense(sp, [Term(COEF1, b.terms[0].atoms, [b.terms[0].out[1]])]) if b.terms else None
        x = net.einsum(sp, "j,k->jk", [xa, net.ones_tensor(sp, [b.axis_size(1)])])
        return VTensor(x, args[0].dtype)
    if last == "tensordot":
        dims = kwargs.get("dims", args[2] if len(args) > 2 else None)
        if isinstance(dims, VInt) and dims.p.const_value() is not None:
            # dims=k: the last k axes of the first operand with the first k axes of the second
            kk = int(dims.p.const_value())
            na = args[0].dense().ndim()
            dims = VTuple((VList([VInt(P.const(na - kk + j)) for j in range(kk)]), VList([VInt(P.const(j)) for j in range(kk)])))
        if not isinstance(dims, (VTuple, VList)) or len(dims.items) != 2:
            raise Unmodelled("tensordot dims")
        da, db = _axis_list(it, args[0], dims.items[0]), _axis_list(it, args[1], dims.items[1])
        res = VTensor(net.tensordot(sp, args[0].dense(), args[1].dense(), da, db), args[0].dtype)
        if args[0].counts is not None or args[1].counts is not None:
            ca = args[0].counts or [ONE] * args[0].dense().ndim()
            cb = args[1].counts or [ONE] * args[1].dense().ndim()
            na, nb = len(ca), len(cb)
            da_, db_ = [x % na for x in da], [x % nb for x in db]
            res.counts = [c for i, c in enumerate(ca) if i not in da_] + [c for j, c in enumerate(cb) if j not in db_]
        return res
    if last == "reshape":
        if getattr(it, "lenient", False) and isinstance(args[0], VOpaque):
            sizes = _size_list(it, args[1])
            if any(x == -1 for x in sizes):
                raise Unmodelled("reshape of an untyped value with an inferred size")
            it.fresh_n += 1
            return VTensor(net.atom_tensor(sp, f"untyped#{it.fresh_n}", sizes, tags=[repr(x) for x in sizes]), "dtype")
        return VTensor(net.reshape(sp, args[0].dense(), _size_list(it, args[1])), args[0].dtype)
    if last == "permute":
        if isinstance(args[1], VIndexSeq):
            raise Unmodelled("symbolic permutation")
        return VTensor(args[0].dense().permute(_int_list(it, args[1])), args[0].dtype)
    if last == "diag" and len(args) == 1 and isinstance(args[0], VTensor) and args[0].dense().ndim() == 1:
        v = args[0].dense()
        return VTensor(net.einsum(sp, "i,ij->ij", [v, net.eye_tensor(sp, v.axis_size(0))]), args[0].dtype)
    if last in ("bmm", "mm", "matmul") and len(args) == 2 and all(isinstance(a, VTensor) for a in args):
        a, b = args[0].dense(), args[1].dense()
        if last in ("mm", "matmul") and a.ndim() == 2 and b.ndim() == 2:
            return VTensor(net.einsum(sp, "ij,jk->ik", [a, b]), args[0].dtype)
        if last in ("bmm", "matmul") and a.ndim() == 3 and b.ndim() == 3:
            return VTensor(net.einsum(sp, "bij,bjk->bik", [a, b]), args[0].dtype)
        if last != "matmul":
            raise TypeViolation(f"torch.{last} of operands with {a.ndim()} and {b.ndim()} axes")
        letters = "abcdefghijklmnopq"
        if a.ndim() > 2 and b.ndim() == 2:
            lead = letters[:a.ndim() - 2]
            return VTensor(net.einsum(sp, f"{lead}yz,zw->{lead}yw", [a, b]), args[0].dtype)       # the matrix is applied to every batch entry
        if a.ndim() == 2 and b.ndim() > 2:
            lead = letters[:b.ndim() - 2]
            return VTensor(net.einsum(sp, f"yz,{lead}zw->{lead}yw", [a, b]), args[0].dtype)
        if a.ndim() == b.ndim() and a.ndim() > 3:
            lead = letters[:a.ndim() - 2]
            return VTensor(net.einsum(sp, f"{lead}yz,{lead}zw->{lead}yw", [a, b]), args[0].dtype)
        raise Unmodelled("matmul of operands that are not both matrices or both batches of matrices")
    if last in ("transpose", "swapaxes", "swapdims"):
        d = args[0].dense()
        a, b = _int_list(it, args[1])[0] % d.ndim(), _int_list(it, args[2])[0] % d.ndim()
        perm = list(range(d.ndim()))
        perm[a], perm[b] = perm[b], perm[a]
        return VTensor(d.permute(perm), args[0].dtype)
    if last in ("conj_physical", "resolve_conj"):
        return VTensor(args[0].val.conj(), args[0].dtype) if last == "conj_physical" else args[0]
    if last == "conj":
        if isinstance(args[0], VScalar):
            return args[0]
        return VTensor(args[0].val.conj(), args[0].dtype)
    if last in ("clone",):
        return args[0]
    if last == "flatten" and isinstance(args[0], VTensor):
        d = args[0].dense()
        n = d.ndim()
        a = _int_list(it, args[1])[0] if len(args) > 1 else (_int_list(it, kwargs["start_dim"])[0] if "start_dim" in kwargs else 0)
        b = _int_list(it, args[2])[0] if len(args) > 2 else (_int_list(it, kwargs["end_dim"])[0] if "end_dim" in kwargs else -1)
        a, b = a % n if n else 0, b % n if n else 0
        if a > b:
            raise TypeViolation("flatten with start_dim after end_dim")
        shp = d.shape() if hasattr(d, "shape") else [d.axis_size(k) for k in range(n)]
        tot = ONE
        for x in shp[a:b + 1]:
            tot = tot * x
        return VTensor(net.reshape(sp, d, list(shp[:a]) + [it.facts.norm(tot)] + list(shp[b + 1:])), args[0].dtype)
    if last == "unflatten" and isinstance(args[0], VTensor) and len(args) == 3:
        d = args[0].dense()
        n = d.ndim()
        k = _int_list(it, args[1])[0] % n
        shp = [d.axis_size(j) for j in range(n)]
        sizes = _size_list(it, args[2])
        if -1 in sizes:
            known = ONE
            for x in sizes:
                if x != -1:
                    known = known * x
            q = shp[k].div(it.facts.norm(known))
            if q is None:
                raise Unmodelled("unflatten with an inferred size that does not divide the axis")
            sizes = [q if x == -1 else x for x in sizes]
        return VTensor(net.reshape(sp, d, shp[:k] + list(sizes) + shp[k + 1:]), args[0].dtype)
    if last == "movedim" and isinstance(args[0], VTensor) and len(args) == 3:
        d = args[0].dense()
        n = d.ndim()
        src, dst = _int_list(it, args[1])[0] % n, _int_list(it, args[2])[0] % n
        order = [j for j in range(n) if j != src]
        order.insert(dst, src)
        return VTensor(d.permute(order), args[0].dtype)
    if last == "unsqueeze":
        d = args[0].dense()
        k = _int_list(it, args[1])[0]
        k = k if k >= 0 else d.ndim() + 1 + k
        r = VTensor(net.insert_axis(d, k), args[0].dtype)
        if args[0].counts is not None:
            r.counts = list(args[0].counts[:k]) + [ONE] + list(args[0].counts[k:])
        return r
    if last == "squeeze":
        d = args[0].dense()
        if len(args) > 1 or "dim" in kwargs:
            k = _int_list(it, args[1] if len(args) > 1 else kwargs["dim"])[0] % d.ndim()
            r = VTensor(net.drop_axis(sp, d, k), args[0].dtype)
            if args[0].counts is not None:
                r.counts = [c for j, c in enumerate(args[0].counts) if j != k]
            return r
        cur = d
        k = 0
        while k < cur.ndim():
            sz = cur.axis_size(k)
            if sz == ONE:
                cur = net.drop_axis(sp, cur, k)
            else:
                if not sz.is_const():
                    it.info.append(f"squeeze() without dim on an axis of symbolic size {sz!r}: removed at run time if it equals 1")
                k += 1
        return VTensor(cur, args[0].dtype)
    if last in ("ones", "zeros"):
        shp = args[0] if len(args) == 1 and isinstance(args[0], (VList, VTuple)) else VList(list(args))
        sizes = _size_list(it, shp)
        dt = _dtype_of(kwargs, "float32-default")
        if last == "ones":
            return VTensor(net.ones_tensor(sp, sizes), dt)
        return VTensor(Block(sp, [[it.facts.norm(P.of(s))] for s in sizes], {}), dt)
    if last == "eye":
        dt = _dtype_of(kwargs, "float32-default")
        if len(args) == 2:
            if not it.facts.eq(args[0].p, args[1].p):
                raise Unmodelled(f"rectangular eye({args[0].p!r}, {args[1].p!r})")
        return VTensor(net.eye_tensor(sp, args[0].p), dt)
    if last == "tensor":
        v = args[0]
        # tn.tensor([[1.0]]) -> all-ones constant of that shape
        def shape_of(x):
            if isinstance(x, VList):
                return [len(x.items)] + (shape_of(x.items[0]) if x.items else [])
            return []

        def leaves(x):
            if isinstance(x, VList):
                for y in x.items:
                    yield from leaves(y)
            else:
                yield x
        lv = list(leaves(v))
        if all(isinstance(x, VFloat) and x.x == 1.0 or isinstance(x, VInt) and x.p == ONE for x in lv):
            return VTensor(net.ones_tensor(sp, [P.const(s) for s in shape_of(v)]), _dtype_of(kwargs, "?"))
        raise Unmodelled("torch.tensor of non-constant data")
    if last == "sum":
        d = args[0].dense()
        dims = args[1] if len(args) > 1 else kwargs.get("dim")
        keep = kwargs.get("keepdim")
        keep = bool(keep.v) if isinstance(keep, VBool) else False
        if dims is None:
            return VTensor(net.sum_axes(sp, d, list(range(d.ndim()))), args[0].dtype)
        return VTensor(net.sum_axes(sp, d, _int_list(it, dims), keep), args[0].dtype)
    if last == "tile":
        d = args[0].dense()
        reps = args[1]
        if not isinstance(reps, (VTuple, VList)) or len(reps.items) != d.ndim():
            raise Unmodelled("tile with a repetition tuple of different length")
        cur = d
        for k, r in enumerate(reps.items):
            rp = it.facts.norm(r.p)
            if rp == ONE:
                continue
            if cur.axis_size(k) != ONE:
                raise Unmodelled(f"tile of an axis whose size {cur.axis_size(k)!r} is not known to be 1")
            ones = net.ones_tensor(sp, [rp])
            w = ones.terms[0].out[0]
            ts = []
            for term in cur.terms:
                ts.append(Term(term.coef, term.atoms + ones.terms[0].atoms, term.out[:k] + [w] + term.out[k + 1:]))
            cur = Dense(sp, ts)
        return VTensor(cur, args[0].dtype)
    if last in ("cat", "concat", "concatenate"):
        items = it.iter_concrete(args[0])
        dim = args[1] if len(args) > 1 else kwargs.get("dim", kwargs.get("axis", VInt(ZERO)))
        return VTensor(net.cat(sp, [x.val for x in items], _int_list(it, dim)[0]), items[0].dtype)
    if last == "diagonal":
        d = args[0].dense().fresh()      # identifications below must stay local to this use of the operand
        d1 = _int_list(it, kwargs.get("dim1", args[2] if len(args) > 2 else VInt(ZERO)))[0] % d.ndim()
        d2 = _int_list(it, kwargs.get("dim2", args[3] if len(args) > 3 else VInt(ONE)))[0] % d.ndim()
        off = kwargs.get("offset", args[1] if len(args) > 1 else VInt(ZERO))
        if it.facts.norm(off.p) != ZERO:
            raise Unmodelled("off-diagonal")
        ts = []
        for term in d.terms:
            a1, a2 = term.out[d1], term.out[d2]
            x = net._unify_axes(sp, a1, a2, "diagonal")
            out = [ax for k, ax in enumerate(term.out) if k not in (d1, d2)] + [x]
            ts.append(Term(term.coef, term.atoms, out))
        return VTensor(Dense(sp, ts), args[0].dtype)
    if last == "is_tensor":
        v = args[0]
        return VBool(isinstance(v, VTensor) or (isinstance(v, VScalar) and v.kind in ("tensor0", "tensor1")))
    if last == "numel":
        v = args[0]
        if isinstance(v, VScalar):
            return VInt(ONE)
        n = ONE
        for s in v.block().shape():
            n = n * s
        return VInt(it.facts.norm(n))
    if last in ("sqrt", "abs"):
        v = args[0]
        if isinstance(v, VTensor):
            d = v.dense()
            ts = [Term(t.coef, t.atoms + [Atom(f"fn:{last}", False, ())], t.out) for t in d.terms]
            if len(d.terms) != 1:
                raise Unmodelled(f"{last} of a sum")
            return VTensor(Dense(sp, ts), v.dtype)
        return VScalar(Coef.sym(f"{last}(.)"))
    if last == "pad":
        t = args[0].block()
        pads = it.iter_concrete(args[1])
        if len(pads) % 2 or len(pads) // 2 > t.ndim():
            raise TypeViolation("pad tuple does not fit the tensor")
        per_axis = [(ZERO, ZERO)] * t.ndim()
        for j in range(len(pads) // 2):
            ax = t.ndim() - 1 - j
            per_axis[ax] = (pads[2 * j].p, pads[2 * j + 1].p)
        val = kwargs.get("value", args[3] if len(args) > 3 else None)
        cval = None
        if val is not None:
            c = _as_coef(val)
            if c is None:
                raise Unmodelled("pad value")
            if c.c != 0:
                cval = c
        return VTensor(t.pad(per_axis, cval), args[0].dtype)
    if last == "norm":
        # the Frobenius norm of a named network: the symbol carries the canonical form of its argument
        if len(args) == 1 and isinstance(args[0], VTensor) and not kwargs:
            return VScalar(Coef.sym("norm(" + args[0].dense().canon() + ")"))
        return VScalar(Coef.sym("norm(.)"))
    raise Unmodelled(f"{dotted}")
