"""E5 scenario catalogue, part 2: sweeps (Lemma 3), factories, structural conversions.

State atoms PRE:<name>@<i> stand for "everything contracted at positions < i"; a sweep is checked by
  init  - the accumulator before the loop is the specified first state,
  step  - the loop body maps state(i) to the specified network state(i) * cores(i),
  final - the returned value is the closed chain built from state(end).
"""
from __future__ import annotations

from . import net
from .net import Dense, Block, Coef, COEF1, Unmodelled, TypeViolation, Term, Atom
from .scenarios import scn, chain_check, strand_check, raises_check, _sit, _sub, TT, S, dx, _scaled_spec, compat_seqs
from .spec import SpecIt, expr, diag_block, compare, iter_positions, as_block, Pos
from .sym import P, ONE, ZERO
from .torchmodel import make_tt, core_atom, rank_atom, mode_atom
from .values import *


def pre(it, name, sizes, tags=None):
    return net.atom_tensor(it.sp, f"PRE:{name}", [it.facts.norm(P.of(s)) for s in sizes], tags=tags)


def value_check(expected_fn, what="returned value"):
    """expected_fn(sit, out) -> expected Dense/Block; compared with the returned tensor."""
    def check(out):
        if not isinstance(out.value, VTensor):
            return [("result", False, f"a {type(out.value).__name__} is returned where a tensor is specified")]
        sit = _sit(out, out.facts)
        exp = expected_fn(sit, out)
        if exp is None:
            return [("result", True, "path outside this specification")]
        ok, detail, _ = compare(out.space, out.value, exp)
        return [("result", ok, f"{what} is the specified closed chain" if ok else f"{what} differs from the specified network: {detail}")]
    return check


def const_d(sit, name):
    c = sit.facts.norm(P.atom(f"d_{name}")).const_value()
    return None if c is None else int(c)


def closed_chain_tt(sit, tt: VTT, d: int, conj=False):
    """dense value of a TT tensor with concrete order d: modes open in order"""
    ops, outs = [], []
    letters = iter("abcdefghijklmnopqrstuvwxyz")
    bond = next(letters)
    for k in range(d):
        m = next(letters)
        nb = next(letters)
        ops.append((sit.core(tt, k, conj), bond + m + nb))
        outs.append(m)
        bond = nb
    return expr(sit, ops, outs)


def closed_chain_ttm(sit, tt: VTT, d: int):
    """dense value of a TT matrix with concrete d: row modes in order, then column modes in order"""
    ops, rows, cols = [], [], []
    letters = iter("abcdefghijklmnopqrstuvwxyzABCDEFGH")
    bond = next(letters)
    for k in range(d):
        m, n, nb = next(letters), next(letters), next(letters)
        ops.append((sit.core(tt, k), bond + m + n + nb))
        rows.append(m)
        cols.append(n)
        bond = nb
    return expr(sit, ops, rows + cols)


# --------------------------------------------------------------------------- full()

def _full_hooks():
    def init(it, fr):
        x = fr.env["self"]
        return expr(it, [(core_atom(it, x, ZERO).dense(), "anb")], ["n", "b"])

    def state(it, fr, k):
        x = fr.env["self"]
        i = it.facts.norm(k + 1)
        return pre(it, f"full({x.name})@{i!r}", [P.atom(f"ΠN_{x.name}[0:{i!r}]"), rank_atom(it, x.name, i, x.d)], ["modes", "bond"])

    def step(it, fr, k):
        x = fr.env["self"]
        i = it.facts.norm(k + 1)
        return expr(it, [(state(it, fr, k), "Bb"), (core_atom(it, x, i).dense(), "bnc")], ["B", "n", "c"])
    return {("sweep", TT + "full"): [dict(acc="tfull", init=init, state=state, step=step, name="full")]}


def _full_expected(sit, out):
    x = make_tt(sit, "x", False)
    d = const_d(sit, "x")
    if d is not None:
        return closed_chain_tt(sit, x, d)
    dd = sit.facts.norm(P.atom("d_x"))
    i = sit.facts.norm(dd - 1)
    st = pre(sit, f"full(x)@{i!r}", [P.atom(f"ΠN_x[0:{i!r}]"), rank_atom(sit, "x", i, dd)])
    return expr(sit, [(st, "Bb"), (sit.core(x, i), "bnc")], ["B", "n"])


scn(name="full:tt", func=TT + "full", props=("C03",), hooks=_full_hooks(),
    args=lambda it: (make_tt(it, "x", False), [], {}), check=value_check(_full_expected, "full()"))
for _d in (1, 2, 3, 4):
    scn(name=f"full:ttm.d{_d}", func=TT + "full", props=("C04",), tier="thorough" if _d == 4 else "quick",
        args=(lambda d: (lambda it: (make_tt(it, "x", True, d), [], {})))(_d),
        check=value_check((lambda d: (lambda sit, out: closed_chain_ttm(sit, make_tt(sit, "x", True, d), d)))(_d), "full() of a TT matrix"))


# --------------------------------------------------------------------------- norm (autograd branch), dot, bilinear form

def _gram_hooks(func, acc, first, second, name):
    """state [bond of first, bond of second]; second operand conjugated"""
    def init(it, fr):
        return net.ones_tensor(it.sp, [ONE, ONE])

    def state(it, fr, k):
        a, b = first(fr), second(fr)
        return pre(it, f"{name}@{it.facts.norm(k)!r}", [rank_atom(it, a.name, k, a.d), rank_atom(it, b.name, k, b.d)])

    def step(it, fr, k):
        a, b = first(fr), second(fr)
        ca, cb = core_atom(it, a, k).dense(), core_atom(it, b, k).dense().conj()
        if a.is_ttm:
            return expr(it, [(state(it, fr, k), "ab"), (ca, "aijm"), (cb, "bijn")], ["m", "n"])
        return expr(it, [(state(it, fr, k), "ab"), (ca, "aim"), (cb, "bin")], ["m", "n"])
    return {("sweep", func): [dict(acc=acc, init=init, state=state, step=step, name=name)]}


def _gram_expected(aname, bname, ttm, name, post=()):
    def exp(sit, out):
        a, b = make_tt(sit, aname, ttm), make_tt(sit, bname, ttm)
        d = const_d(sit, aname)
        if d is not None:
            ops = []
            L = iter("abcdefghijklmnopqrstuvwxyzABCDEFGHIJKLMNOPQRSTUVWXYZ")
            ba, bb = next(L), next(L)
            for k in range(d):
                if ttm:
                    i, j, na, nb = next(L), next(L), next(L), next(L)
                    ops += [(sit.core(a, k), ba + i + j + na), (sit.core(b, k, True), bb + i + j + nb)]
                else:
                    i, na, nb = next(L), next(L), next(L)
                    ops += [(sit.core(a, k), ba + i + na), (sit.core(b, k, True), bb + i + nb)]
                ba, bb = na, nb
            e = expr(sit, ops, [])
        else:
            dd = sit.facts.norm(P.atom(f"d_{aname}"))
            e = pre(sit, f"{name}@{dd!r}", [ONE, ONE])
            e = Dense(sit.sp, [Term(t.coef, t.atoms, []) for t in e.terms])
        for fn in post:
            e = Dense(sit.sp, [Term(t.coef, t.atoms + [Atom(f"fn:{fn}", False, ())], t.out) for t in e.terms])
        return e
    return exp


for _ttm in (False, True):
    for _sq in (True, False):
        scn(name=f"norm:ad.{'ttm' if _ttm else 'tt'}.{'squared' if _sq else 'plain'}", func=TT + "norm", props=("C07", "C15"),
            presets={"autograd tracking": True},
            hooks=_gram_hooks(TT + "norm", "norm", lambda fr: fr.env["self"], lambda fr: fr.env["self"], "gram(x,x)"),
            args=(lambda m, q: (lambda it: (make_tt(it, "x", m), [], {"squared": VBool(q)})))(_ttm, _sq),
            check=value_check(_gram_expected("x", "x", _ttm, "gram(x,x)", () if _sq else ("abs", "sqrt")), "norm()"))
scn(name="dot:full", func="_extras.dot", props=("C07", "C18"), compat=compat_seqs(("N_a", "N_b", "a", "b")),
    hooks=_gram_hooks("_extras.dot", "result", lambda fr: fr.env["a"], lambda fr: fr.env["b"], "gram(a,b)"),
    args=lambda it: (None, [make_tt(it, "a", False), make_tt(it, "b", False)], {}),
    check=value_check(_gram_expected("a", "b", False, "gram(a,b)"), "dot(a, b)"))
scn(name="dot:ttm", func="_extras.dot", props=("C18",), must_raise=True, min_returns=0,
    args=lambda it: (None, [make_tt(it, "a", True), make_tt(it, "b", False)], {}), check=raises_check)


def _bilinear_hooks():
    def tts(it):
        return make_tt(it, "x", False), make_tt(it, "A", True), make_tt(it, "y", False)

    def init(it, fr):
        return net.ones_tensor(it.sp, [ONE, ONE, ONE])

    def state(it, fr, k):
        x, A, y = tts(it)
        return pre(it, f"xAy@{it.facts.norm(k)!r}", [rank_atom(it, "x", k, x.d), rank_atom(it, "A", k, A.d), rank_atom(it, "y", k, y.d)])

    def step(it, fr, k):
        x, A, y = tts(it)
        return expr(it, [(state(it, fr, k), "lsr"), (core_atom(it, x, k).dense().conj(), "lmL"), (core_atom(it, A, k).dense(), "smnS"),
                         (core_atom(it, y, k).dense(), "rnR")], ["L", "S", "R"])
    return {("sweep", "_aux_ops.bilinear_form_aux"): [dict(acc="result", init=init, state=state, step=step, name="bilinear")]}


def _bilinear_expected(sit, out):
    x, A, y = make_tt(sit, "x", False), make_tt(sit, "A", True), make_tt(sit, "y", False)
    d = const_d(sit, "x")
    if d is not None:
        ops = []
        L = iter("abcdefghijklmnopqrstuvwxyzABCDEFGHIJKLMNOPQRSTUVWXYZ")
        bx, bA, by = next(L), next(L), next(L)
        for k in range(d):
            m, n, nx, nA, ny = next(L), next(L), next(L), next(L), next(L)
            ops += [(sit.core(x, k, True), bx + m + nx), (sit.core(A, k), bA + m + n + nA), (sit.core(y, k), by + n + ny)]
            bx, bA, by = nx, nA, ny
        return expr(sit, ops, [])
    dd = sit.facts.norm(P.atom("d_x"))
    e = pre(sit, f"xAy@{dd!r}", [ONE, ONE, ONE])
    return Dense(sit.sp, [Term(t.coef, t.atoms, []) for t in e.terms])


scn(name="bilinear_form", func="_extras.bilinear_form", props=("C07", "C18"), hooks=_bilinear_hooks(),
    compat=compat_seqs(("N_x", "M_A", "x", "A"), ("N_y", "N_A", "y", "A")),
    args=lambda it: (None, [make_tt(it, "x", False), make_tt(it, "A", True), make_tt(it, "y", False)], {}),
    check=value_check(_bilinear_expected, "bilinear_form(x, A, y)"))


# --------------------------------------------------------------------------- sum() over all modes

def _sum_hooks(ttm):
    def init(it, fr):
        x = fr.env["self"]
        c = core_atom(it, x, ZERO).dense()
        return expr(it, [(c, "aijb" if ttm else "aib")], ["b"])

    def state(it, fr, k):
        x = fr.env["self"]
        i = it.facts.norm(k + 1)
        return pre(it, f"sum({x.name})@{i!r}", [rank_atom(it, x.name, i, x.d)])

    def step(it, fr, k):
        x = fr.env["self"]
        i = it.facts.norm(k + 1)
        return expr(it, [(state(it, fr, k), "b"), (core_atom(it, x, i).dense(), "bijc" if ttm else "bic")], ["c"])
    return {("sweep", TT + "sum"): [dict(acc="C", init=init, state=state, step=step, name="sum")]}


def _sum_expected(ttm):
    def exp(sit, out):
        x = make_tt(sit, "x", ttm)
        d = const_d(sit, "x")
        if d is not None:
            ops = []
            L = iter("abcdefghijklmnopqrstuvwxyzABCDEFGHIJKLMNOPQRSTUVWXYZ")
            b = next(L)
            for k in range(d):
                if ttm:
                    i, j, nb = next(L), next(L), next(L)
                    ops.append((sit.core(x, k), b + i + j + nb))
                else:
                    i, nb = next(L), next(L)
                    ops.append((sit.core(x, k), b + i + nb))
                b = nb
            return expr(sit, ops, [])
        dd = sit.facts.norm(P.atom("d_x"))
        e = pre(sit, f"sum(x)@{dd!r}", [ONE])
        return Dense(sit.sp, [Term(t.coef, t.atoms, []) for t in e.terms])
    return exp


for _ttm in (False, True):
    scn(name=f"sum:all.{'ttm' if _ttm else 'tt'}", func=TT + "sum", props=("C07",), hooks=_sum_hooks(_ttm),
        args=(lambda m: (lambda it: (make_tt(it, "x", m), [], {})))(_ttm), check=value_check(_sum_expected(_ttm), "sum()"))


# --------------------------------------------------------------------------- apply_mask

def _mask_args(it):
    x = make_tt(it, "x", False)
    idx = VTensor(net.atom_tensor(it.sp, "indices", [P.atom("Mb"), x.d], tags=["batch", "position"]), "int64")
    return x, [idx], {}


def _mask_hooks():
    def init(it, fr):
        return net.ones_tensor(it.sp, [P.atom("Mb"), ONE])

    def state(it, fr, k):
        return pre(it, f"mask@{it.facts.norm(k)!r}", [P.atom("Mb"), rank_atom(it, "x", k, P.atom("d_x"))], ["batch", "bond"])

    def step(it, fr, k):
        from .torchmodel import gather_name
        x = make_tt(it, "x", False)
        c = core_atom(it, x, k).dense()
        # value[b, r'] = sum_r state[b, r] * core[r, indices[b, k], r'] : selection matrix of column k of the index matrix
        idx = net.atom_tensor(it.sp, "indices", [P.atom("Mb"), x.d], tags=["batch", "position"])
        col = net.index_axis_int(it.sp, idx, 1, repr(it.facts.norm(k)))
        sel = net.atom_tensor(it.sp, f"sel[{gather_name(it.sp, col)}]", [P.atom("Mb"), mode_atom(it, "N", "x", k)])
        return expr(it, [(state(it, fr, k), "bj"), (c, "jnk"), (sel, "bn")], ["b", "k"])
    return {("sweep", "_aux_ops.apply_mask"): [dict(acc="result", init=init, state=state, step=step, name="apply_mask")]}


def _mask_expected(sit, out):
    d = const_d(sit, "x")
    if d is not None:
        return None
    dd = sit.facts.norm(P.atom("d_x"))
    e = pre(sit, f"mask@{dd!r}", [P.atom("Mb"), ONE])
    return Dense(sit.sp, [Term(t.coef, t.atoms, [t.out[0]]) for t in e.terms])


scn(name="apply_mask", func=TT + "apply_mask", props=("C08",), hooks=_mask_hooks(), args=_mask_args,
    check=value_check(_mask_expected, "apply_mask(indices)"))


# --------------------------------------------------------------------------- factories

def _shape_seq(ttm):
    def mk(it):
        d = P.atom("d_x")
        if ttm:
            return VSeq("shape", d, lambda k: VTuple((VInt(mode_atom(it, "M", "x", k)), VInt(mode_atom(it, "N", "x", k)))))
        return VSeq("shape", d, lambda k: VInt(mode_atom(it, "N", "x", k)))
    return mk


def _const_core_check(kind, ttm):
    def spec(sit, p: Pos):
        n = mode_atom(sit, "N", "x", p.pos)
        if kind == "eye":
            e = net.eye_tensor(sit.sp, n)
            return {"-": _unit_wrap(sit, e)}
        sizes = [ONE] + ([mode_atom(sit, "M", "x", p.pos)] if ttm else []) + [n, ONE]
        if kind == "ones":
            return {"-": net.ones_tensor(sit.sp, sizes)}
        return {"-": Block(sit.sp, [[s] for s in sizes], {})}
    return chain_check(spec)


def _unit_wrap(sit, d: Dense):
    return Dense(sit.sp, [Term(t.coef, t.atoms, [()] + list(t.out) + [()]) for t in d.terms])


for _kind in ("ones", "zeros"):
    for _ttm in (False, True):
        scn(name=f"{_kind}:{'ttm' if _ttm else 'tt'}", func=f"_extras.{_kind}", props=("C03",),
            args=(lambda m: (lambda it: (None, [_shape_seq(m)(it)], {})))(_ttm), check=_const_core_check(_kind, _ttm))
scn(name="eye", func="_extras.eye", props=("C03",), args=lambda it: (None, [_shape_seq(False)(it)], {}), check=_const_core_check("eye", True))
scn(name="ones:notlist", func="_extras.ones", props=("C18",), must_raise=True, min_returns=0,
    args=lambda it: (None, [VInt(P.const(3))], {}), check=raises_check)
scn(name="zeros:notlist", func="_extras.zeros", props=("C18",), must_raise=True, min_returns=0,
    args=lambda it: (None, [VInt(P.const(3))], {}), check=raises_check)


def _vec_seq(it, name="v"):
    d = P.atom("d_x")
    return VSeq(name, d, lambda k: VTensor(net.atom_tensor(it.sp, f"{name}@{it.facts.norm(k)!r}", [mode_atom(it, "N", "x", k)], tags=["mode"]), "dtype:v"))


def _rank1_spec(sit, p: Pos):
    v = net.atom_tensor(sit.sp, f"v@{sit.facts.norm(p.pos)!r}", [mode_atom(sit, "N", "x", p.pos)])
    return {"-": _unit_wrap(sit, v)}


scn(name="rank1TT", func="_extras.rank1TT", props=("C03",), args=lambda it: (None, [_vec_seq(it)], {}), check=chain_check(_rank1_spec))


# --------------------------------------------------------------------------- conj, clone, to_ttm, detach (identity-type networks)

def _ident_spec(ttm, conj=False, to_ttm=False):
    def spec(sit, p: Pos):
        x = make_tt(sit, "x", ttm)
        c = sit.core(x, p.pos, conj)
        if to_ttm:
            return {"-": expr(sit, [(c, "anb")], ["a", "n", "", "b"])}
        return {"-": c}
    return chain_check(spec)


for _ttm in (False, True):
    t_ = "ttm" if _ttm else "tt"
    scn(name=f"conj:{t_}", func=TT + "conj", props=("C09",), args=(lambda m: (lambda it: (make_tt(it, "x", m), [], {})))(_ttm), check=_ident_spec(_ttm, conj=True))
    scn(name=f"clone:{t_}", func=TT + "clone", props=("C09", "C19"), args=(lambda m: (lambda it: (make_tt(it, "x", m), [], {})))(_ttm), check=_ident_spec(_ttm))
    scn(name=f"detach:{t_}", func=TT + "detach", props=("C19",), args=(lambda m: (lambda it: (make_tt(it, "x", m), [], {})))(_ttm), check=_ident_spec(_ttm))
    scn(name=f"cpu:{t_}", func=TT + "cpu", props=("C19",), args=(lambda m: (lambda it: (make_tt(it, "x", m), [], {})))(_ttm), check=_ident_spec(_ttm))
scn(name="to_ttm", func=TT + "to_ttm", props=("C09",), args=lambda it: (make_tt(it, "x", False), [], {}), check=_ident_spec(False, to_ttm=True))


# --------------------------------------------------------------------------- diag

def _diag_spec(to_ttm):
    def spec(sit, p: Pos):
        if to_ttm:
            x = make_tt(sit, "x", False)
            c = sit.core(x, p.pos)
            e = net.eye_tensor(sit.sp, mode_atom(sit, "N", "x", p.pos))
            return {"-": expr(sit, [(c, "anb"), (e, "nm")], ["a", "n", "m", "b"])}
        A = make_tt(sit, "A", True)
        c = sit.core(A, p.pos)
        # x_i = A_ii : row and column wires identified, one open mode, bonds in place
        return {"-": expr(sit, [(c, "aiib")], ["a", "i", "b"])}
    return chain_check(spec)


scn(name="diag:tt->ttm", func="_extras.diag", props=("C09",), args=lambda it: (None, [make_tt(it, "x", False)], {}), check=_diag_spec(True))
scn(name="diag:ttm->tt", func="_extras.diag", props=("C09",), args=lambda it: (None, [make_tt(it, "A", True)], {}), check=_diag_spec(False),
    waive=(("diagonal", "torch.diagonal of a rectangular block is defined (length min(M, N)): no guard is needed for the row/column identification"),))
scn(name="diag:nonTT", func="_extras.diag", props=("C18",), must_raise=True, min_returns=0,
    args=lambda it: (None, [VInt(ONE)], {}), check=raises_check)


# --------------------------------------------------------------------------- TT-matrix times dense array (any batch rank); TT layer

def dense_operand(it, name: str, dname: str):
    """dense array with nb >= 0 leading batch axes followed by d modes N_<name>[0..d-1]; axes are bundled as
    [batch (nb axes), first mode (1), remaining modes (d-1 axes)]"""
    it.facts.lb["nb"] = 0
    d = P.atom(f"d_{dname}")
    sizes = [P.atom("ΠB"), mode_atom(it, "N", name, ZERO), P.atom(f"ΠN_{name}[1:]")]
    v = VTensor(net.atom_tensor(it.sp, name, sizes, tags=["batch", "mode", "modes"]), "dtype:" + name, [P.atom("nb"), ONE, d - 1])
    v.tail = (d, VSeq(f"N_{name}", d, lambda k: VInt(mode_atom(it, "N", name, k))))
    return v


def _dmv_hooks(func, acc, wname, vname):
    def W(it):
        return make_tt(it, wname, True)

    def init(it, fr):
        d = P.atom(f"d_{wname}")
        sizes = [P.atom("ΠB"), mode_atom(it, "N", vname, ZERO), P.atom(f"ΠN_{vname}[1:]")]
        v = net.atom_tensor(it.sp, vname, sizes)
        return net.insert_axis(v, 3)

    def state(it, fr, k):
        w = W(it)
        k = it.facts.norm(k)
        d = it.facts.norm(w.d)
        if it.facts.eq(k, d):
            t = pre(it, f"dmv@{k!r}", [P.atom("ΠB"), P.atom(f"ΠM_{wname}[0:{k!r}]"), ONE])
            return VTensor(t, "acc", [P.atom("nb"), k, ONE])
        sizes = [P.atom("ΠB"), mode_atom(it, "N", vname, k), P.atom(f"ΠN_{vname}[{(k + 1)!r}:]"), P.atom(f"ΠM_{wname}[0:{k!r}]"),
                 rank_atom(it, wname, k, d)]
        t = pre(it, f"dmv@{k!r}", sizes, ["batch", "mode", "modes", "produced", "bond"])
        return VTensor(t, "acc", [P.atom("nb"), ONE, d - k - 1, k, ONE])

    def step(it, fr, k):
        w = W(it)
        st = state(it, fr, k).dense()
        c = core_atom(it, w, k).dense()
        # contract the first remaining input mode with the core's COLUMN mode and the running bond with its left bond;
        # the produced row mode is appended after the modes produced so far
        return expr(it, [(st, "BnRPb"), (c, "bmnc")], ["B", "R", "P", "m", "c"])
    h = dict(acc=acc, init=init, state=state, step=step, name="dense_matvec")
    return {("sweep", func): [h], ("sweep", "_aux_ops.dense_matvec"): [dict(h, acc="result")]}


def _dmv_expected(wname, with_bias=False):
    def exp(sit, out):
        d = const_d(sit, wname)
        if d is not None:
            return None
        dd = sit.facts.norm(P.atom(f"d_{wname}"))
        e = pre(sit, f"dmv@{dd!r}", [P.atom("ΠB"), P.atom(f"ΠM_{wname}[0:{dd!r}]"), ONE])
        e = Dense(sit.sp, [Term(t.coef, t.atoms, t.out[:2]) for t in e.terms])
        if with_bias:
            b = net.atom_tensor(sit.sp, "bias", [P.atom(f"ΠM_{wname}[0:{dd!r}]")])
            ones = net.ones_tensor(sit.sp, [P.atom("ΠB")])
            bb = expr(sit, [(ones, "B"), (b, "P")], ["B", "P"])
            e = e.add(bb)
        return e
    return exp


scn(name="matmul:ttm@dense", func=TT + "__matmul__", props=("C04", "C18"), hooks=_dmv_hooks("_aux_ops.dense_matvec", "result", "A", "v"),
    args=lambda it: (make_tt(it, "A", True), [dense_operand(it, "v", "A")], {}), check=value_check(_dmv_expected("A"), "A @ dense"))


def _layer(it):
    w = make_tt(it, "W", True)
    w.operand = True
    dd = w.d
    w.extra = {"size_in": VSeq("size_in", dd, lambda k: VInt(mode_atom(it, "N", "W", k))),
               "size_out": VSeq("size_out", dd, lambda k: VInt(mode_atom(it, "M", "W", k))),
               "bias": VTensor(net.atom_tensor(it.sp, "bias", [P.atom(f"ΠM_W[0:{it.facts.norm(dd)!r}]")]), "dtype:W", [dd])}
    return w


scn(name="LinearLayerTT.forward", func="nn.LinearLayerTT.forward", props=("C20", "C15"), hooks=_dmv_hooks("nn.LinearLayerTT.forward", "result", "W", "v"),
    args=lambda it: (_layer(it), [dense_operand(it, "v", "W")], {}), check=value_check(_dmv_expected("W", True), "layer output"),
    waive=(("elementwise +", "the bias is created by the layer itself as zeros(size_out): its shape equals the produced modes by construction (REGISTER rule)"),))


# --------------------------------------------------------------------------- TT layer with a concrete number of batch axes (0, 1, 2) and order 2

def _layer_concrete(it, d):
    w = make_tt(it, "W", True, d)
    w.operand = True
    w.extra = {"size_in": VSeq("size_in", P.const(d), lambda k: VInt(mode_atom(it, "N", "W", k))),
               "size_out": VSeq("size_out", P.const(d), lambda k: VInt(mode_atom(it, "M", "W", k))),
               "bias": VTensor(net.atom_tensor(it.sp, "bias", [mode_atom(it, "M", "W", P.const(k)) for k in range(d)]), "dtype:W")}
    return w


def _layer_input(it, d, nb):
    for j in range(nb):
        it.facts.lb[f"B{j}"] = 1
    sizes = [P.atom(f"B{j}") for j in range(nb)] + [mode_atom(it, "N", "W", P.const(k)) for k in range(d)]
    return VTensor(net.atom_tensor(it.sp, "v", sizes, tags=["batch"] * nb + ["mode"] * d), "dtype:v")


def _layer_expected(d, nb):
    def exp(sit, out):
        w = make_tt(sit, "W", True, d)
        L = iter("abcdefghijklmnopqrstuvwxyz")
        batch = [next(L) for _ in range(nb)]
        ops, rows, cols = [], [], []
        bond = next(L)
        for k in range(d):
            m, n, nbond = next(L), next(L), next(L)
            ops.append((sit.core(w, k), bond + m + n + nbond))
            rows.append(m)
            cols.append(n)
            bond = nbond
        sizes = [P.atom(f"B{j}") for j in range(nb)] + [mode_atom(sit, "N", "W", P.const(k)) for k in range(d)]
        v = net.atom_tensor(sit.sp, "v", sizes)
        e = expr(sit, ops + [(v, "".join(batch + cols))], batch + rows)
        b = net.atom_tensor(sit.sp, "bias", [mode_atom(sit, "M", "W", P.const(k)) for k in range(d)])
        if nb:
            ones = net.ones_tensor(sit.sp, [P.atom(f"B{j}") for j in range(nb)])
            bb = expr(sit, [(ones, "".join(batch)), (b, "".join(rows))], batch + rows)
        else:
            bb = b
        return e.add(bb)
    return exp


def _layer_expected_nobias(sit, d, nb):
    w = make_tt(sit, "W", True, d)
    L = iter("abcdefghijklmnopqrstuvwxyz")
    batch = [next(L) for _ in range(nb)]
    ops, rows, cols = [], [], []
    bond = next(L)
    for k in range(d):
        m, n, nbond = next(L), next(L), next(L)
        ops.append((sit.core(w, k), bond + m + n + nbond))
        rows.append(m)
        cols.append(n)
        bond = nbond
    sizes = [P.atom(f"B{j}") for j in range(nb)] + [mode_atom(sit, "N", "W", P.const(k)) for k in range(d)]
    v = net.atom_tensor(sit.sp, "v", sizes)
    return expr(sit, ops + [(v, "".join(batch + cols))], batch + rows)


for _nb in (0, 1, 2):
    scn(name=f"LinearLayerTT.forward:d2,batch{_nb}", func="nn.LinearLayerTT.forward", props=("C20",),
        args=(lambda nb: (lambda it: (_layer_concrete(it, 2), [_layer_input(it, 2, nb)], {})))(_nb),
        check=value_check(_layer_expected(2, _nb), f"layer output for {_nb} batch axes"),
        waive=(("elementwise +", "the bias is created by the layer itself as zeros(size_out): its shape equals the produced modes by construction (REGISTER rule)"),))


# orders 1 and 3 (an order-one layer is a plain matrix: the transposition of a shortcut shows only there)
for _d, _nb in ((1, 0), (1, 1), (1, 2), (3, 1)):
    scn(name=f"LinearLayerTT.forward:d{_d},batch{_nb}", func="nn.LinearLayerTT.forward", props=("C20",),
        args=(lambda d, nb: (lambda it: (_layer_concrete(it, d), [_layer_input(it, d, nb)], {})))(_d, _nb),
        check=value_check(_layer_expected(_d, _nb), f"order-{_d} layer output for {_nb} batch axes"),
        waive=(("elementwise +", "the bias is created by the layer itself as zeros(size_out): its shape equals the produced modes by construction (REGISTER rule)"),))
for _d, _nb in ((1, 0), (1, 2), (2, 1)):
    scn(name=f"matmul:ttm@dense:d{_d},batch{_nb}", func=TT + "__matmul__", props=("C04",),
        args=(lambda d, nb: (lambda it: (make_tt(it, "W", True, d), [_layer_input(it, d, nb)], {})))(_d, _nb),
        check=value_check((lambda d, nb: (lambda sit, out: _layer_expected_nobias(sit, d, nb)))(_d, _nb), f"order-{_d} operator times a dense tensor with {_nb} batch axes"))
