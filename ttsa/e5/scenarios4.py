"""E5 scenario catalogue, part 4: validating wrappers of the iterative routines.

The solver bodies are replaced by opaque hooks; what is decided is the *compatibility postcondition*: on every path
on which the wrapper hands its operands to the solver (and so returns a value), the facts established by its guards
entail that the operands are compatible (equal orders, equal mode sequences).  A weakened guard (`any` for `all`,
zip truncation, comparison of lengths only, a check on one position) leaves a returning path without that entailment."""
from __future__ import annotations

from .scenarios import scn, no_value_check, raises_check, compat_seqs, TT
from .torchmodel import make_tt
from .values import *


def _opaque(tag):
    return lambda it, args, kwargs, fr, node: VOpaque(tag)


H_DMRG = {("function", "torchtt._dmrg.dmrg_matvec"): _opaque("dmrg-result"),
          ("function", "torchtt._dmrg.dmrg_matvec_python"): _opaque("dmrg-result"),
          ("function", "torchtt._dmrg.dmrg_hadamard_python"): _opaque("dmrg-result"),
          ("function", "torchtt._amen._amen_mm_python"): _opaque("amen-result"),
          ("function", "torchtt.solvers._amen_solve_python"): _opaque("amen-result"),
          ("function", "torchtt._division.amen_divide"): _opaque("amen-result")}
NOCPP = {"global _flag_use_cpp": False}

scn(name="fast_matvec:ttm,tt", func=TT + "fast_matvec", props=("C18", "C11"), hooks=H_DMRG, presets=NOCPP, check=no_value_check,
    compat=compat_seqs(("N_A", "N_x", "A", "x")), args=lambda it: (make_tt(it, "A", True), [make_tt(it, "x", False)], {}))
scn(name="fast_matvec:tt,tt", func=TT + "fast_matvec", props=("C18",), hooks=H_DMRG, presets=NOCPP, must_raise=True, min_returns=0, check=raises_check,
    args=lambda it: (make_tt(it, "A", False), [make_tt(it, "x", False)], {}))
scn(name="dmrg_hadamard:tt,tt", func="_dmrg.dmrg_hadamard", props=("C18", "C11"), hooks=H_DMRG, presets=NOCPP, check=no_value_check,
    compat=compat_seqs(("N_x", "N_y", "x", "y")), args=lambda it: (None, [make_tt(it, "x", False), make_tt(it, "y", False)], {}))
scn(name="amen_mm:ttm,ttm", func="_amen.amen_mm", props=("C18", "C11"), hooks=H_DMRG, presets=NOCPP, check=no_value_check,
    compat=compat_seqs(("N_A", "M_B", "A", "B")), args=lambda it: (None, [make_tt(it, "A", True), make_tt(it, "B", True)], {}))
scn(name="amen_mv:ttm,tt", func="_amen.amen_mv", props=("C18", "C11"), hooks=H_DMRG, presets=NOCPP, check=no_value_check,
    compat=compat_seqs(("N_A", "N_b", "A", "b")), args=lambda it: (None, [make_tt(it, "A", True), make_tt(it, "b", False)], {}))
scn(name="amen_mv:tt,tt", func="_amen.amen_mv", props=("C18",), hooks=H_DMRG, presets=NOCPP, must_raise=True, min_returns=0, check=raises_check,
    args=lambda it: (None, [make_tt(it, "A", False), make_tt(it, "b", False)], {}))
scn(name="amen_solve:ttm,tt", func="solvers.amen_solve", props=("C18", "C12"), hooks=H_DMRG, presets=NOCPP, check=no_value_check,
    compat=compat_seqs(("M_A", "N_A", "A", "A"), ("N_A", "N_b", "A", "b")), args=lambda it: (None, [make_tt(it, "A", True), make_tt(it, "b", False)], {}))
scn(name="amen_solve:tt,tt", func="solvers.amen_solve", props=("C18",), hooks=H_DMRG, presets=NOCPP, must_raise=True, min_returns=0, check=raises_check,
    args=lambda it: (None, [make_tt(it, "A", False), make_tt(it, "b", False)], {}))
scn(name="truediv:tt/tt", func=TT + "__truediv__", props=("C18", "C13"), hooks=H_DMRG, presets=NOCPP, check=no_value_check,
    compat=compat_seqs(("N_x", "N_y", "x", "y")), args=lambda it: (make_tt(it, "x", False), [make_tt(it, "y", False)], {}))
scn(name="truediv:ttm/ttm", func=TT + "__truediv__", props=("C18", "C13"), hooks=H_DMRG, presets=NOCPP, check=no_value_check,
    compat=compat_seqs(("N_x", "N_y", "x", "y"), ("M_x", "M_y", "x", "y")), args=lambda it: (make_tt(it, "x", True), [make_tt(it, "y", True)], {}))
scn(name="truediv:tt/ttm", func=TT + "__truediv__", props=("C18",), hooks=H_DMRG, presets=NOCPP, must_raise=True, min_returns=0, check=raises_check,
    args=lambda it: (make_tt(it, "x", False), [make_tt(it, "y", True)], {}))
