"""E5 scenario catalogue, part 4: validating wrappers of the iterative routines.

The solver bodies are replaced by opaque hooks; what is decided is the *compatibility postcondition*: on every path
on which the wrapper hands its operands to the solver (and so returns a value), the facts established by its guards
entail that the operands are compatible (equal orders, equal mode sequences).  A weakened guard (`any` for `all`,
zip truncation, comparison of lengths only, a check on one position) leaves a returning path without that entailment."""
from __future__ import annotations

from .scenarios import scn, no_value_check, raises_check, compat_seqs, TT, S
from .torchmodel import make_tt
from .values import *
from .sym import P


def _opaque(tag):
    return lambda it, args, kwargs, fr, node: VOpaque(tag)


H_DMRG = {("function", "torchtt._dmrg.dmrg_matvec"): _opaque("dmrg-result"),
          ("function", "torchtt._dmrg.dmrg_matvec_python"): _opaque("dmrg-result"),
          ("function", "torchtt._dmrg.dmrg_hadamard_python"): _opaque("dmrg-result"),
          ("function", "torchtt._amen._amen_mm_python"): _opaque("amen-result"),
          ("function", "torchtt.solvers._amen_solve_python"): _opaque("amen-result"),
          ("function", "torchtt._division.amen_divide"): _opaque("amen-result")}
NOCPP = {"global _flag_use_cpp": False}

scn(name="fast_matvec:ttm,tt", func=TT + "fast_matvec", props=("C18", "C11"), hooks=H_DMRG, presets=NOCPP, check=no_value_check,
    compat=compat_seqs(("N_A", "N_x", "A", "x")), args=lambda it: (make_tt(it, "A", True), [make_tt(it, "x", False)], {}))
scn(name="fast_matvec:tt,tt", func=TT + "fast_matvec", props=("C18",), hooks=H_DMRG, presets=NOCPP, must_raise=True, min_returns=0, check=raises_check,
    args=lambda it: (make_tt(it, "A", False), [make_tt(it, "x", False)], {}))
scn(name="dmrg_hadamard:tt,tt", func="_dmrg.dmrg_hadamard", props=("C18", "C11"), hooks=H_DMRG, presets=NOCPP, check=no_value_check,
    compat=compat_seqs(("N_x", "N_y", "x", "y")), args=lambda it: (None, [make_tt(it, "x", False), make_tt(it, "y", False)], {}))
scn(name="amen_mm:ttm,ttm", func="_amen.amen_mm", props=("C18", "C11"), hooks=H_DMRG, presets=NOCPP, check=no_value_check,
    compat=compat_seqs(("N_A", "M_B", "A", "B")), args=lambda it: (None, [make_tt(it, "A", True), make_tt(it, "B", True)], {}))
scn(name="amen_mv:ttm,tt", func="_amen.amen_mv", props=("C18", "C11"), hooks=H_DMRG, presets=NOCPP, check=no_value_check,
    compat=compat_seqs(("N_A", "N_b", "A", "b")), args=lambda it: (None, [make_tt(it, "A", True), make_tt(it, "b", False)], {}))
scn(name="amen_mv:tt,tt", func="_amen.amen_mv", props=("C18",), hooks=H_DMRG, presets=NOCPP, must_raise=True, min_returns=0, check=raises_check,
    args=lambda it: (None, [make_tt(it, "A", False), make_tt(it, "b", False)], {}))
scn(name="amen_solve:ttm,tt", func="solvers.amen_solve", props=("C18", "C12"), hooks=H_DMRG, presets=NOCPP, check=no_value_check,
    compat=compat_seqs(("M_A", "N_A", "A", "A"), ("N_A", "N_b", "A", "b")), args=lambda it: (None, [make_tt(it, "A", True), make_tt(it, "b", False)], {}))
scn(name="amen_solve:tt,tt", func="solvers.amen_solve", props=("C18",), hooks=H_DMRG, presets=NOCPP, must_raise=True, min_returns=0, check=raises_check,
    args=lambda it: (None, [make_tt(it, "A", False), make_tt(it, "b", False)], {}))
scn(name="truediv:tt/tt", func=TT + "__truediv__", props=("C18", "C13"), hooks=H_DMRG, presets=NOCPP, check=no_value_check,
    compat=compat_seqs(("N_x", "N_y", "x", "y")), args=lambda it: (make_tt(it, "x", False), [make_tt(it, "y", False)], {}))
scn(name="truediv:ttm/ttm", func=TT + "__truediv__", props=("C18", "C13"), hooks=H_DMRG, presets=NOCPP, check=no_value_check,
    compat=compat_seqs(("N_x", "N_y", "x", "y"), ("M_x", "M_y", "x", "y")), args=lambda it: (make_tt(it, "x", True), [make_tt(it, "y", True)], {}))
scn(name="truediv:tt/ttm", func=TT + "__truediv__", props=("C18",), hooks=H_DMRG, presets=NOCPP, must_raise=True, min_returns=0, check=raises_check,
    args=lambda it: (make_tt(it, "x", False), [make_tt(it, "y", True)], {}))


# --------------------------------------------------------------------------- valid operands (incl. a well-formed initial guess) are never rejected

def _assume(it, *rels):
    """rels: ('d', a, b) equal orders | ('seq', sa, sb) equal mode sequences"""
    f = it.facts
    for r in rels:
        if r[0] == "d":
            f.assume_eq(P.atom(f"d_{r[1]}"), P.atom(f"d_{r[2]}"), "valid operands")
        else:
            ra, rb = f.seq_rep(r[1]), f.seq_rep(r[2])
            if ra != rb:
                f.seq[rb] = ra


def _valid(name, func, props, build, recv=False):
    scn(name=name, func=func, props=props, hooks=H_DMRG, presets=NOCPP, check=no_value_check, valid_operands=True, args=build)


def _fm_valid(it):
    A, x, y0 = make_tt(it, "A", True), make_tt(it, "x", False), make_tt(it, "y0", False)
    _assume(it, ("d", "A", "x"), ("d", "A", "y0"), ("seq", "N_A", "N_x"), ("seq", "M_A", "N_y0"))
    return A, [x], {"initial": y0}


def _had_valid(it):
    x, y, z0 = make_tt(it, "x", False), make_tt(it, "y", False), make_tt(it, "z0", False)
    _assume(it, ("d", "x", "y"), ("d", "x", "z0"), ("seq", "N_x", "N_y"), ("seq", "N_x", "N_z0"))
    return None, [x, y], {"z0": z0}


def _mv_valid(it):
    A, b, x0 = make_tt(it, "A", True), make_tt(it, "b", False), make_tt(it, "x0", False)
    _assume(it, ("d", "A", "b"), ("d", "A", "x0"), ("seq", "N_A", "N_b"), ("seq", "M_A", "N_x0"))
    return None, [A, b], {"x0": x0}


def _mm_valid(it):
    A, B, X0 = make_tt(it, "A", True), make_tt(it, "B", True), make_tt(it, "X0", True)
    _assume(it, ("d", "A", "B"), ("d", "A", "X0"), ("seq", "N_A", "M_B"), ("seq", "M_A", "M_X0"), ("seq", "N_B", "N_X0"))
    return None, [A, B], {"X0": X0}


def _solve_valid(it):
    A, b, x0 = make_tt(it, "A", True), make_tt(it, "b", False), make_tt(it, "x0", False)
    _assume(it, ("d", "A", "b"), ("d", "A", "x0"), ("seq", "N_A", "N_b"), ("seq", "M_A", "N_A"), ("seq", "N_A", "N_x0"))
    return None, [A, b], {"x0": x0}


def _div_valid(it):
    x, y = make_tt(it, "x", False), make_tt(it, "y", False)
    _assume(it, ("d", "x", "y"), ("seq", "N_x", "N_y"))
    return x, [y], {}


_valid("fast_matvec:valid+initial", TT + "fast_matvec", ("C11",), _fm_valid)
_valid("dmrg_hadamard:valid+z0", "_dmrg.dmrg_hadamard", ("C11",), _had_valid)
_valid("amen_mv:valid+x0", "_amen.amen_mv", ("C11",), _mv_valid)
_valid("amen_mm:valid+X0", "_amen.amen_mm", ("C11",), _mm_valid)
_valid("amen_solve:valid+x0", "solvers.amen_solve", ("C12",), _solve_valid)
_valid("truediv:valid", TT + "__truediv__", ("C13",), _div_valid)


# --------------------------------------------------------------------------- s / y : the numerator handed to the solver is s * ones (C13)

def _rtruediv_hook(it, args, kwargs, fr, node):
    """amen_divide(divisor, numerator, ...): the numerator must be the single-strand train of all-ones cores with total factor s"""
    from types import SimpleNamespace
    from .scenarios import strand_check, S
    from .spec import Pos
    from . import net as _net
    from .torchmodel import mode_atom
    a, b = (args + [None, None])[:2]
    a = kwargs.get("a", a)
    b = kwargs.get("b", b)
    ok0 = isinstance(a, VTT) and a.operand and a.name == "y"
    it.checks.append(("rtruediv.operator-slot", ok0, "the divisor y is handed to the operator slot of amen_divide" if ok0 else
                      "the first argument of amen_divide (the diagonal operator) is not the divisor y"))
    if not isinstance(b, VTT):
        it.checks.append(("rtruediv.numerator", False, f"the right-hand side of amen_divide is a {type(b).__name__}, not a TT object"))
        return VOpaque("amen-result")

    def strands(sit, p: Pos):
        return [("s", _net.ones_tensor(sit.sp, [ONE, mode_atom(sit, "N", "y", p.pos), ONE]))]
    out = SimpleNamespace(value=b, facts=it.facts, space=it.sp)
    for sub, ok, detail in strand_check(strands, {"s": S()}, lambda sit: sit.facts.norm(P.atom("d_y")))(out):
        it.checks.append(("rtruediv.numerator." + sub, ok, detail if ok else "numerator of s / y (must be s * ones, the scalar applied exactly once): " + detail))
    return VOpaque("amen-result")


from .sym import ONE  # noqa: E402

for _kind in ("float", "tensor1"):
    scn(name=f"rtruediv:scalar[{_kind}]/tt", func=TT + "__rtruediv__", props=("C13",),
        hooks={("function", "torchtt._division.amen_divide"): _rtruediv_hook}, check=no_value_check,
        args=(lambda k: (lambda it: (make_tt(it, "y", False), [VScalar(S(), k)], {})))(_kind))
