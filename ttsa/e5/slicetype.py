"""IFACE-TYPE: statement-level shape typing of the AMEn sweep bodies (solve, divide, matrix product).

The sweeps keep *interface arrays* (Phis, Phiz, Phis_b, ... initialised as [ones] + [None]*(d-1) + [ones]) whose element j
is a partial contraction of the cores left/right of position j.  Their axis sizes are rank families indexed by the position:
solution ranks rx[j], residual ranks rz[j], operator ranks R_A[j], right-hand-side ranks R_b[j], mode sizes N[j].  These
families are *independent*: for generic operands no two of them coincide, and neither do f[j] and f[j+1].

The checker evaluates every statement of the sweep body that builds tensors from the cores and the interfaces (einsum /
contract / tensordot / reshape / local products / interface recursions / the dense local matrix and its products) once, at a
generic position k, with
  * the cores typed by the TT invariant (r[j] x n[j] x r[j+1]) of the train they belong to,
  * each axis of each interface array typed by an unknown family variable,
and collects (a) the size identifications the statements make (einsum letters, tensordot axes, elementwise +/-, matmul, the
merged axes of flattened local vectors) and (b) for every store `Phi[j] = value` the equation `axis type of Phi at j = shape
of value`.  Unification must succeed with every class holding at most one concrete family and equal index offsets: a
statement that contracts rx[k] with rx[k+1], a residual rank with a solution rank, or stores an interface with permuted axes
has no consistent typing and is reported with the two sizes.  (A consistent re-layout of an interface array changes the
solution of the unification, not its solvability - no alarm.)

Statements outside this fragment (QR/SVD, norms, rank updates, printing) are skipped and the names they assign are
forgotten; a floor on the number of typed statements keeps a silently shrinking fragment from passing."""
from __future__ import annotations

import ast
import re

from ..model import Model, Func, norm, call_args
from ..report import Ob, OK, VIOLATED, ERROR, INFO
from . import net
from .interp import Interp, Trail, Explorer, Frame, Raised, _Return
from .net import Space, Unmodelled, TypeViolation
from .sym import P, ONE, ZERO, Facts
from .values import *

ROLES = {
    "solvers._amen_solve_python": {
        "objs": {"A": {"cores": [("R_A", 0), ("N", 0), ("N", 0), ("R_A", 1)], "R": "R_A", "N": "N", "M": "N"},
                 "b": {"cores": [("R_b", 0), ("N", 0), ("R_b", 1)], "R": "R_b", "N": "N"}},
        "seqs": {"x_cores": [("rx", 0), ("N", 0), ("rx", 1)], "z_cores": [("rz", 0), ("N", 0), ("rz", 1)]},
        "ints": {"N": "N", "rx": "rx", "rz": "rz", "rA": "R_A"},
        "scalars": ("nrmsc",), "scalar_seqs": ("normA", "normb", "normx"),
        "floor": 28,
    },
    "_division.amen_divide": {
        "objs": {"a": {"cores": [("R_a", 0), ("N", 0), ("R_a", 1)], "R": "R_a", "N": "N"},
                 "b": {"cores": [("R_b", 0), ("N", 0), ("R_b", 1)], "R": "R_b", "N": "N"}},
        "seqs": {"x_cores": [("rx", 0), ("N", 0), ("rx", 1)], "z_cores": [("rz", 0), ("N", 0), ("rz", 1)]},
        "ints": {"N": "N", "rx": "rx", "rz": "rz", "rA": "R_a"},
        "scalars": ("nrmsc",), "scalar_seqs": ("normA", "normb", "normx"),
        "floor": 25,
    },
    "_amen._amen_mm_python": {
        "objs": {},
        "seqs": {"A_cores": [("R_A", 0), ("M", 0), ("K", 0), ("R_A", 1)], "B_cores": [("R_B", 0), ("K", 0), ("N", 0), ("R_B", 1)],
                 "x_cores": [("rx", 0), ("M", 0), ("N", 0), ("rx", 1)], "z_cores": [("rz", 0), ("M", 0), ("N", 0), ("rz", 1)]},
        "ints": {"N": "N", "M": "M", "K": "K", "rx": "rx", "rz": "rz"},
        "param_order": ["A_cores", "B_cores", "M", "N", "K"],
        "scalars": ("nrmsc",), "scalar_seqs": ("normA", "normb", "normx"),
        "floor": 12,
    },
}

_ATOM = re.compile(r"^(\??[A-Za-z_][\w.']*)\[(.*)\]$")


def _size(fam, idx: P) -> P:
    return P.atom(f"{fam}[{idx!r}]")


class _Fam:
    """union-find over family names"""

    def __init__(self):
        self.p = {}

    def find(self, x):
        self.p.setdefault(x, x)
        while self.p[x] != x:
            self.p[x] = self.p[self.p[x]]
            x = self.p[x]
        return x

    def union(self, a, b):
        a, b = self.find(a), self.find(b)
        if a != b:
            # concrete families become representatives
            if a.startswith("?"):
                self.p[a] = b
            else:
                self.p[b] = a


def _iface_arrays(f: Func):
    """names initialised as [<ones>] + [None] * (d-1) + [<ones>]; value: number of axes"""
    out = {}
    single = {}
    cnt = {}
    for n in ast.walk(f.node):
        if isinstance(n, ast.Name) and isinstance(n.ctx, ast.Store):
            cnt[n.id] = cnt.get(n.id, 0) + 1
    for n in ast.walk(f.node):
        if isinstance(n, ast.Assign) and len(n.targets) == 1 and isinstance(n.targets[0], ast.Name) and cnt.get(n.targets[0].id) == 1:
            single[n.targets[0].id] = n.value

    def const_int(e, depth=0):
        if isinstance(e, ast.Constant) and isinstance(e.value, int) and not isinstance(e.value, bool):
            return e.value
        if isinstance(e, ast.Name) and e.id in single and depth < 3:
            return const_int(single[e.id], depth + 1)
        return None

    def naxes(e, depth=0):
        """number of axes of a shape expression: a literal tuple / list, (1,) * k, or a local bound once to one of those"""
        if isinstance(e, (ast.Tuple, ast.List)):
            return len(e.elts)
        if isinstance(e, ast.Name) and e.id in single and depth < 3:
            return naxes(single[e.id], depth + 1)
        if isinstance(e, ast.BinOp) and isinstance(e.op, ast.Mult):
            for a, b in ((e.left, e.right), (e.right, e.left)):
                if isinstance(a, (ast.Tuple, ast.List)) and const_int(b) is not None:
                    return len(a.elts) * const_int(b)
        return None
    for s in f.node.body:
        if isinstance(s, ast.Assign) and len(s.targets) == 1 and isinstance(s.targets[0], ast.Name):
            calls = [c for c in ast.walk(s.value) if isinstance(c, ast.Call) and isinstance(c.func, ast.Attribute) and c.func.attr == "ones"]
            nones = [c for c in ast.walk(s.value) if isinstance(c, ast.Constant) and c.value is None]
            if len(calls) == 2 and nones and isinstance(s.value, ast.BinOp):
                k = naxes(calls[0].args[0]) if calls[0].args else None
                if k is not None:
                    out[s.targets[0].id] = k
    return out


def _sweep_loops(f: Func):
    """the position loops (for k in range(...)) nested in the sweep loop; returns list of (loop var, body)"""
    loops = []
    for n in ast.walk(f.node):
        if isinstance(n, ast.For) and isinstance(n.target, ast.Name) and isinstance(n.iter, ast.Call) and norm(n.iter.func) == "range":
            inner = [m for m in ast.walk(n) if m is not n and isinstance(m, ast.For)]
            uses_iface = any(isinstance(m, ast.Subscript) for m in ast.walk(n))
            from ..rules import order_names
            if uses_iface and order_names(f.node) & {x.id for x in ast.walk(n.iter) if isinstance(x, ast.Name)}:
                loops.append(n)
    # keep the outermost position loops only (not the sweep loop itself, which ranges over nswp)
    return loops


def infer_aliases(f: Func, roles):
    """{role name in the table: actual name in the code}.  Roles are recognised structurally, so that renamed locals do not matter:
       operands     - parameters whose `.cores` is read, in parameter order (operator, right-hand side);
       parameter core / size lists (matrix product) - by parameter position;
       trains       - `X[e] = tn.reshape(<...>, [R[e], <mode sizes>, R[e+1]])` defines (core list X, rank list R, mode lists);
                      the solution train is the one that is returned / wrapped in TT(...), the other one is the residual train;
       N            - the mode list of those reshapes (or the name bound to `<rhs>.N`)."""
    alias = {}
    params = f.params()
    names_stored = {n.id for n in ast.walk(f.node) if isinstance(n, ast.Name) and isinstance(n.ctx, ast.Store)} | set(params)

    def present(nm):
        return nm in names_stored
    # operands by parameter order
    with_cores = [p for p in params if any(isinstance(n, ast.Attribute) and n.attr == "cores" and isinstance(n.value, ast.Name) and n.value.id == p
                                          for n in ast.walk(f.node))]
    init_guess = {p for p in with_cores if any(isinstance(n, ast.Compare) and norm(n.left) == p and isinstance(n.comparators[0], ast.Constant)
                                               and n.comparators[0].value is None for n in ast.walk(f.node))}
    with_cores = [p for p in with_cores if p not in init_guess]
    for role, actual in zip(list(roles["objs"]), with_cores):
        alias[role] = actual
    # trains defined by reshape stores
    trains = []
    for n in ast.walk(f.node):
        if isinstance(n, ast.Assign) and len(n.targets) == 1 and isinstance(n.targets[0], ast.Subscript) and isinstance(n.targets[0].value, ast.Name) \
                and isinstance(n.value, ast.Call) and call_args(n.value, "reshape") and len(call_args(n.value, "reshape")) == 2 \
                and isinstance(call_args(n.value, "reshape")[1], ast.List):
            elts = call_args(n.value, "reshape")[1].elts
            # the mode sizes may be read from a local list (`N[k]`) or straight from an operand (`b.N[k]`)
            if len(elts) >= 3 and all(isinstance(e, ast.Subscript) for e in elts) and isinstance(elts[0].value, ast.Name) and isinstance(elts[-1].value, ast.Name) \
                    and all(isinstance(e.value, (ast.Name, ast.Attribute)) for e in elts[1:-1]):
                if elts[0].value.id == elts[-1].value.id:
                    trains.append((n.targets[0].value.id, elts[0].value.id, [e.value.id if isinstance(e.value, ast.Name) else None for e in elts[1:-1]]))
    returned = set()
    for n in ast.walk(f.node):
        if isinstance(n, ast.Return) and n.value is not None:
            returned |= {x.id for x in ast.walk(n.value) if isinstance(x, ast.Name)}
        if isinstance(n, ast.Call) and norm(n.func).endswith("TT"):
            returned |= {x.id for a in n.args for x in ast.walk(a) if isinstance(x, ast.Name)}
    seen = []
    for t in trains:
        if t[0] not in [x[0] for x in seen]:
            seen.append(t)
    sol = [t for t in seen if t[0] in returned]
    res = [t for t in seen if t[0] not in returned]
    if len(sol) == 1 and len(res) == 1:
        table_trains = [k for k in roles["seqs"] if k.startswith(("x_", "z_"))]
        if len(table_trains) == 2:
            (xr, zr) = table_trains
            alias[xr], alias[zr] = sol[0][0], res[0][0]
            xfam = roles["seqs"][xr]
            alias[xfam[0][0]] = sol[0][1]
            alias[roles["seqs"][zr][0][0]] = res[0][1]
            for (fam, _), actual in zip(xfam[1:-1], sol[0][2]):
                if actual is not None:
                    alias[fam] = actual
    # parameter lists of the matrix product, by position
    plist = roles.get("param_order")
    if plist:
        for role, actual in zip(plist, params):
            alias.setdefault(role, actual)
    # operator rank list: name bound to <op>.R
    for n in ast.walk(f.node):
        if isinstance(n, ast.Assign) and len(n.targets) == 1 and isinstance(n.targets[0], ast.Name) and isinstance(n.value, ast.Attribute) \
                and isinstance(n.value.value, ast.Name):
            if n.value.attr == "R" and roles["objs"] and n.value.value.id == alias.get(list(roles["objs"])[0]):
                alias.setdefault("rA", n.targets[0].id)
            if n.value.attr == "N" and "N" not in alias:
                alias["N"] = n.targets[0].id
    return alias


class _Pass:
    """one evaluation of the sweep bodies at a generic position k"""

    def __init__(self, model: Model, f: Func, short: str, roles, ifaces, layout, alias=None):
        self.model, self.f, self.short, self.roles, self.ifaces, self.layout = model, f, short, roles, ifaces, layout
        self.alias = alias or {}
        self.facts = Facts()
        self.sp = Space(self.facts)
        self.it = Interp(model, self.sp, Trail(Explorer(limit=1), []), {})
        self.it.lenient = True
        self.k = P.atom("k")
        self.d = P.atom("d")
        self.facts.lb["k"] = 0
        self.facts.lb["d"] = 1
        self.equations = []      # (array, axis, lhs size P, rhs size P, where, text)
        self.records = []        # (where, text, span | "violation" | None, status)
        self.typed = 0
        self.env = self._env()
        self.fr = Frame(f, self.env)

    def mk_seq(self, name, template):
        facts, sp = self.facts, self.sp

        def get(p, name=name, template=template):
            p = facts.norm(P.of(p))
            sizes = [_size(fm, facts.norm(p + off)) for fm, off in template]
            t = net.atom_tensor(sp, f"{name}[{p!r}]", sizes, tags=[f"{fm}[{facts.norm(p + off)!r}]" for fm, off in template])
            return VTensor(t, "dtype")
        return VSeq(name, self.d, get)

    def mk_ints(self, name, fam):
        facts = self.facts
        return VSeq(name, self.d + 1, lambda p, fam=fam: VInt(_size(fam, facts.norm(P.of(p)))))

    def iface_template(self, arr):
        if self.layout is not None:
            return [(fm, 0) for fm in self.layout[arr]]
        return [(f"?{arr}.{j}", 0) for j in range(self.ifaces[arr])]

    def _env(self):
        f, roles = self.f, self.roles
        env = {}
        for n in ast.walk(f.node):
            if isinstance(n, ast.Name) and isinstance(n.ctx, ast.Store):
                env.setdefault(n.id, VOpaque("untyped:" + n.id))
        a = f.node.args
        names = [x.arg for x in a.posonlyargs + a.args]
        for p_ in names:
            env[p_] = VOpaque("param:" + p_)
        for n, dnode in zip(names[len(names) - len(a.defaults):], a.defaults):
            v = self.it.eval_const_default(dnode, f)
            if isinstance(v, (VInt, VNone, VBool, VFloat, VStr)):
                env[n] = v          # the default configuration (no band structure, no preconditioner, ...)
        al = lambda nm: self.alias.get(nm, nm)
        for nm, spec in roles["objs"].items():
            attrs = {}
            for at, v in spec.items():
                attrs[at] = self.mk_seq(f"{nm}.{at}", v) if isinstance(v, list) else self.mk_ints(f"{nm}.{at}", v)
            env[al(nm)] = VObj("operand", attrs)
        for nm, tpl in roles["seqs"].items():
            env[al(nm)] = self.mk_seq(nm, tpl)
        for nm, fam in roles["ints"].items():
            env[al(nm)] = self.mk_ints(nm, fam)
        for nm in roles["scalars"]:
            env[al(nm)] = VScalar(net.Coef.sym(nm))
        for nm in roles["scalar_seqs"]:
            env[al(nm)] = VSeq(nm, self.d, lambda p, nm=nm: VScalar(net.Coef.sym(f"{nm}[.]")))
        for nm in self.ifaces:
            env[nm] = self.mk_seq(nm, self.iface_template(nm))
        from ..rules import order_names
        for o in order_names(f.node) | {"d"}:
            env[o] = VInt(self.d)
        env["dtype"] = VOpaque("dtype")
        env["device"] = VOpaque("device")
        return env

    def havoc(self, target):
        for n in ast.walk(target):
            if isinstance(n, ast.Name):
                self.env[n.id] = VOpaque("untyped:" + n.id)

    def run(self, loops):
        for l in loops:
            self.env[l.target.id] = VInt(self.k)
            for s in l.body:
                self.stmt(s)
        return self

    def stmt(self, s):
        it, sp, env, f = self.it, self.sp, self.env, self.f
        if isinstance(s, ast.If):
            for b in (s.body, s.orelse):
                for x in b:
                    self.stmt(x)
            return
        if isinstance(s, (ast.For, ast.While, ast.Try, ast.With)):
            # inner loops (rank search, band loops): names assigned there are forgotten
            for x in ast.walk(s):
                if isinstance(x, ast.Name) and isinstance(x.ctx, ast.Store):
                    env[x.id] = VOpaque("untyped:" + x.id)
            return
        if not isinstance(s, (ast.Assign, ast.AugAssign)):
            return
        targets = s.targets if isinstance(s, ast.Assign) else [s.target]
        where = self.model.where(f, s)
        text = norm(s)[:110]
        n0 = len(sp.obligations)
        try:
            if isinstance(s, ast.AugAssign):
                val = it.binop(s.op, it.ev(_load(s.target), self.fr), it.ev(s.value, self.fr), self.fr, s)
            else:
                val = it.ev(s.value, self.fr)
        except (Unmodelled, Raised, _Return, AttributeError, KeyError, IndexError, TypeError, ValueError) as e:
            del sp.obligations[n0:]
            for t in targets:
                if isinstance(t, (ast.Name, ast.Tuple, ast.List)):
                    self.havoc(t)
            self.records.append((where, text, None, f"skipped: {type(e).__name__}: {str(e)[:80]}"))
            return
        except TypeViolation as e:
            del sp.obligations[n0:]
            self.records.append((where, text, "violation", str(e)))
            for t in targets:
                if isinstance(t, (ast.Name, ast.Tuple, ast.List)):
                    self.havoc(t)
            return
        typed = isinstance(val, VTensor) or (isinstance(val, VObj) and val.cls != "operand")

        def store(t, val):
            nonlocal typed
            vt = isinstance(val, VTensor) or (isinstance(val, VObj) and val.cls != "operand")
            if isinstance(t, ast.Name):
                env[t.id] = val if vt or isinstance(val, (VInt, VList, VTuple, VScalar, VBool, VFloat)) else VOpaque("untyped:" + t.id)
            elif isinstance(t, (ast.Tuple, ast.List)):
                if isinstance(val, (VTuple, VList)) and len(val.items) == len(t.elts) and not any(isinstance(x, ast.Starred) for x in t.elts):
                    # X[k], n = helper(...): every element is stored where it goes
                    for te, ve in zip(t.elts, val.items):
                        store(te, ve)
                        typed = typed or isinstance(ve, VTensor)
                else:
                    self.havoc(t)
            elif isinstance(t, ast.Subscript) and isinstance(t.value, ast.Name) and isinstance(val, VTensor):
                arr = t.value.id
                try:
                    idx = it.ev(t.slice, self.fr)
                except Exception:
                    idx = None
                if not isinstance(idx, VInt):
                    return
                inv = {v: k for k, v in self.alias.items()}
                tpl = self.iface_template(arr) if arr in self.ifaces else self.roles["seqs"].get(inv.get(arr, arr))
                if tpl is None:
                    return
                shp = val.block().shape()
                if len(shp) != len(tpl):
                    self.records.append((where, text, "violation", f"a tensor with {len(shp)} axes is stored into `{arr}`, whose elements have {len(tpl)} axes"))
                    return
                for j, ((fm, off), sz) in enumerate(zip(tpl, shp)):
                    self.equations.append((arr, j, _size(fm, self.facts.norm(idx.p + off)), self.facts.norm(sz), where, text))
        for t in targets:
            store(t, val)
        if typed or len(sp.obligations) > n0:
            self.typed += 1
            self.records.append((where, text, (n0, len(sp.obligations)), "typed"))

    def identifications(self):
        """all (a, b, where, text, ctx): store equations first, then the identifications made inside the typed statements"""
        for arr, j, lhs, rhs, where, text in self.equations:
            yield repr(lhs), repr(rhs), where, text, f"store into {arr} (axis {j})"
        for where, text, span, status in self.records:
            if isinstance(span, tuple):
                for ob in self.sp.obligations[span[0]:span[1]]:
                    if not ob["ok"]:
                        yield ob["a"], ob["b"], where, text, ob["ctx"]


def _split(sz_repr):
    m = _ATOM.match(sz_repr)
    return (m.group(1), m.group(2)) if m else None


def _inline_attr_locals(f: Func) -> Func:
    """`a_cores = a.cores` (a read-only local bound once to an attribute of a parameter that is never re-bound): read the attribute in place, so
    that the operands are recognised whether or not the body caches the lookup in a local"""
    import copy
    import dataclasses
    params = set(f.params())
    stores = {}
    for n in ast.walk(f.node):
        if isinstance(n, ast.Name) and isinstance(n.ctx, ast.Store):
            stores[n.id] = stores.get(n.id, 0) + 1
    sub = {}
    for n in ast.walk(f.node):
        if isinstance(n, ast.Assign) and len(n.targets) == 1 and isinstance(n.targets[0], ast.Name) and stores.get(n.targets[0].id) == 1 \
                and isinstance(n.value, ast.Attribute) and isinstance(n.value.value, ast.Name) and n.value.value.id in params \
                and n.value.value.id not in stores and n.value.attr in ("cores", "N", "M", "R") and n.targets[0].id not in params:
            # the alias must not be written through either (X[i] = ..., X.append)
            nm = n.targets[0].id
            written = any(isinstance(x, ast.Subscript) and isinstance(x.ctx, ast.Store) and isinstance(x.value, ast.Name) and x.value.id == nm
                          for x in ast.walk(f.node))
            if not written and n.value.attr == "cores":
                sub[nm] = n.value
    if not sub:
        return f

    class R(ast.NodeTransformer):
        def visit_Name(s, n):
            if isinstance(n.ctx, ast.Load) and n.id in sub:
                return ast.copy_location(copy.deepcopy(sub[n.id]), n)
            return n
    node = R().visit(copy.deepcopy(f.node))
    ast.fix_missing_locations(node)
    return dataclasses.replace(f, node=node)


def type_body(model: Model, short: str) -> list[Ob]:
    roles = ROLES[short]
    if not model.has_func(short):
        return [Ob("IFACE-TYPE", f"{short}:IFACE-TYPE:anchor", ERROR, "", short, f"{short} vanished")]
    f = _inline_attr_locals(model.func(short))
    obs = []
    from ..inline import inlined
    ifaces = _iface_arrays(inlined(model, model.func(short)))      # interface arrays built by a small helper are read in place
    if len(ifaces) < 4:
        return [Ob("IFACE-TYPE", f"{short}:IFACE-TYPE:ifaces", ERROR, model.where(f), short,
                   f"expected four interface arrays initialised as [ones] + [None]*(d-1) + [ones], found {sorted(ifaces)}")]
    params = set(f.params())
    alias = infer_aliases(f, roles)
    for nm in list(roles["objs"]) + list(roles["seqs"]) + list(roles["ints"]):
        actual = alias.get(nm, nm)
        present = actual in params or any(isinstance(n, ast.Name) and n.id == actual and isinstance(n.ctx, ast.Store) for n in ast.walk(f.node))
        used = any(isinstance(n, ast.Name) and n.id == actual for n in ast.walk(f.node))
        if not present and used:
            return [Ob("IFACE-TYPE", f"{short}:IFACE-TYPE:role:{nm}", ERROR, model.where(f), short,
                       f"the role table names `{nm}` (cores / rank list / operand), which {short} reads but no longer defines")]
        # (a role that the function neither defines nor reads - a removed dead local - is simply absent)
    loops = _sweep_loops(f)
    top = [l for l in loops if not any(o is not l and any(m is l for m in ast.walk(o)) for o in loops)]
    if len(top) < 2:
        return [Ob("IFACE-TYPE", f"{short}:IFACE-TYPE:loops", ERROR, model.where(f), short, "backward and forward position loops not found")]

    # ---- phase 1: infer the axis families of the interface arrays (majority over all sites that touch them)
    p1 = _Pass(model, f, short, roles, ifaces, None, alias).run(top)
    votes = {}
    for a, b, where, text, ctx in p1.identifications():
        sa, sb = _split(a), _split(b)
        if not sa or not sb or sa[1] != sb[1]:
            continue
        for x, y in ((sa, sb), (sb, sa)):
            if x[0].startswith("?") and not y[0].startswith("?"):
                votes.setdefault(x[0], {}).setdefault(y[0], []).append((where, text))
    layout = {}
    for arr, nax in sorted(ifaces.items()):
        lay = []
        for j in range(nax):
            v = votes.get(f"?{arr}.{j}", {})
            if not v:
                lay.append(None)
                continue
            best = sorted(v.items(), key=lambda kv: (-len(kv[1]), kv[0]))
            lay.append(best[0][0])
        layout[arr] = lay
        if any(x is None for x in lay):
            obs.append(Ob("IFACE-TYPE", f"{short}:IFACE-TYPE:layout:{arr}", ERROR, model.where(f), arr,
                          f"axis families of interface array {arr} could not be inferred from the statements that touch it: {lay}"))
        else:
            obs.append(Ob("IFACE-TYPE", f"{short}:IFACE-TYPE:layout:{arr}", OK, model.where(f), arr, f"{arr}[j] : " + " x ".join(f"{x}[j]" for x in lay)))
    if any(o.status == ERROR for o in obs):
        return obs

    # ---- phase 2: type every statement against the inferred layout
    p2 = _Pass(model, f, short, roles, ifaces, layout, alias).run(top)
    problems = {}
    for a, b, where, text, ctx in p2.identifications():
        if a == b:
            continue
        sa, sb = _split(a), _split(b)
        if sa is None or sb is None:
            if "1" in (a, b):
                other = b if a == "1" else a
                msg = f"{ctx}: an axis of size {other} meets an axis of size 1 (broadcast)"
            else:
                msg = f"{ctx}: sizes {a} and {b} are identified"
        elif sa[1] != sb[1]:
            msg = f"{ctx}: size {a} is identified with {b} - different positions of the train (index {sa[1]} vs {sb[1]})"
        else:
            msg = f"{ctx}: size {a} is identified with {b} - independent rank/mode families"
        problems.setdefault((where, text), []).append(msg)
    for where, text, span, status in p2.records:
        key = f"{short}:IFACE-TYPE:{text}"
        if span == "violation":
            obs.append(Ob("IFACE-TYPE", key + ":type", VIOLATED, where, text, f"{short}, statement `{text}`: {status}"))
        elif isinstance(span, tuple):
            msgs = problems.get((where, text))
            if msgs:
                obs.append(Ob("IFACE-TYPE", key, VIOLATED, where, text,
                              f"{short}, statement `{text}`: " + "; ".join(sorted(set(msgs))[:3]) + ". For generic operands these sizes differ: "
                              "torch raises, or - when they happen to coincide - the wrong axes are contracted"))
            else:
                n = span[1] - span[0]
                obs.append(Ob("IFACE-TYPE", key, OK, where, text, f"typed at generic position k ({n} size identifications, each within one family and position)",
                              nontrivial=True))
        else:
            obs.append(Ob("IFACE-TYPE-SKIP", key, INFO, where, text, status))
    for (where, text), msgs in problems.items():
        if not any(r[0] == where and r[1] == text and isinstance(r[2], tuple) for r in p2.records):
            obs.append(Ob("IFACE-TYPE", f"{short}:IFACE-TYPE:{text}:store", VIOLATED, where, text, f"{short}, statement `{text}`: " + "; ".join(sorted(set(msgs))[:3])))
    if p2.typed < roles["floor"]:
        obs.append(Ob("IFACE-TYPE", f"{short}:IFACE-TYPE:floor", ERROR, model.where(f), short,
                      f"only {p2.typed} statements of the sweep bodies could be typed (floor {roles['floor']}): the modelled fragment shrank"))
    return obs


def _load(t):
    import copy
    t2 = copy.deepcopy(t)
    for n in ast.walk(t2):
        if hasattr(n, "ctx"):
            n.ctx = ast.Load()
    return t2
