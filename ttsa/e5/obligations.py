"""Turns E5 scenario runs into obligations for the property checks."""
from __future__ import annotations

import traceback

from ..model import Model
from ..report import Ob, OK, VIOLATED, ERROR, INFO
from .net import Unmodelled, TypeViolation
from .runner import run_entry

_cache = {}


def run_scenario(model: Model, s):
    """Returns (obs, unification obligations) for one scenario."""
    key = (id(model), s.name)
    if key in _cache:
        return _cache[key]
    obs, unis = [], []
    base = f"{s.func}:E5:{s.name}"
    if not model.has_func(s.func):
        obs.append(Ob("E5-CHAIN", base + ":anchor", ERROR, "", s.func, f"entry point {s.func} vanished"))
        _cache[key] = (obs, unis)
        return obs, unis
    f = model.func(s.func)
    try:
        outs = run_entry(model, s.func, s.args, hooks=s.hooks, presets=s.presets, driver=s.driver)
    except Unmodelled as e:
        obs.append(Ob("E5-CHAIN", base + ":explore", ERROR, model.where(f), s.name, f"unmodelled: {e}"))
        _cache[key] = (obs, unis)
        return obs, unis
    nret = 0
    for o in outs:
        tag = "".join("T" if v else "F" for _, v in o.decisions)
        path = " & ".join(f"{k}={'T' if v else 'F'}" for k, v in o.decisions) or "<no branch>"
        pk = f"{base}:path[{tag}]"
        if o.kind == "unmodelled":
            obs.append(Ob("E5-CHAIN", pk, ERROR, model.where(f), s.name, f"path [{path}] leaves the modelled fragment: {o.detail}"))
            continue
        if o.kind == "typeviolation":
            obs.append(Ob("E5-CHAIN", pk, VIOLATED, model.where(f), s.name,
                          f"{s.func} (scenario {s.name}) on path [{path}] applies an operation whose operand types cannot fit (a run-time error from "
                          f"torch, or a wrong axis count): {o.detail}"))
            continue
        if o.kind == "raise" and s.valid_operands:
            obs.append(Ob("E5-RAISE", pk, VIOLATED, model.where(f), s.name,
                          f"{s.func} rejects valid operands ({s.name}): on path [{path}] it raises {o.exc or 'an exception'}"
                          f"{' (' + o.detail[:80] + ')' if o.detail else ''} although the operands satisfy the documented compatibility conditions"))
            continue
        if o.kind == "raise":
            if s.must_raise or o.exc:
                lib = o.exc in ("ShapeMismatch", "IncompatibleTypes", "InvalidArguments", "NotImplementedError", "RankMismatch") or (s.any_exception and bool(o.exc))
                obs.append(Ob("E5-RAISE", pk, OK if lib or not s.must_raise else VIOLATED, model.where(f), s.name,
                              f"path [{path}] raises {o.exc}" + ("" if lib or not s.must_raise else
                                                                 " (not one of the library's documented exception types)")))
            continue
        # return
        nret += 1
        if s.valid_operands:
            obs.append(Ob("E5-RAISE", pk, OK, model.where(f), s.name, f"valid operands ({s.name}) are accepted on path [{path}]"))
        if s.must_raise:
            obs.append(Ob("E5-RAISE", pk, VIOLATED, model.where(f), s.name,
                          f"incompatible operands ({s.name}) are accepted on path [{path}]: a value of type "
                          f"{type(o.value).__name__} is returned instead of an exception"))
            continue
        try:
            results = list(getattr(o, "checks", [])) + list(s.check(o))
            if s.compat is not None:
                from .spec import SpecIt
                results += list(s.compat(SpecIt(o.space, o.facts), o))
        except Unmodelled as e:
            obs.append(Ob("E5-CHAIN", pk, ERROR, model.where(f), s.name, f"specification could not be evaluated on path [{path}]: {e}"))
            continue
        except TypeViolation as e:
            obs.append(Ob("E5-CHAIN", pk, VIOLATED, model.where(f), s.name, f"path [{path}]: {e}"))
            continue
        for sub, ok, detail in results:
            obs.append(Ob("E5-CHAIN", f"{pk}:{sub}", OK if ok else VIOLATED, model.where(f), f"{s.name} [{path}] {sub}",
                          detail if ok else f"{s.func}, scenario {s.name}, path [{path}], {sub}: {detail}"))
        for ob in getattr(o, "code_obligations", []):
            if any(w[0] in ob["ctx"] for w in s.waive):
                continue
            if s.strict_sizes:
                # operands are given independent generic sizes: any identification the code makes beyond the declared
                # ones is a definite type error (torch raises for generic sizes, or contracts the wrong axes when they coincide)
                if not ob["ok"] and ob["a"] != ob["b"]:
                    obs.append(Ob("E5-CHAIN", f"{pk}:sizes:{ob['a']}~{ob['b']}", VIOLATED, ob["where"].split(" ")[0] or model.where(f), s.name,
                                  f"{s.func}, scenario {s.name}, path [{path}]: {ob['ctx']} contracts/aligns an axis of size {ob['a']} "
                                  f"with an axis of size {ob['b']} ({ob['tags'][0]} / {ob['tags'][1]}): these belong to different "
                                  "bonds/modes of the local problem"))
                continue
            unis.append((s, path, ob))
        for msg in getattr(o, "info", []) or []:
            obs.append(Ob("E5-INFO", f"{pk}:info:{msg[:40]}", INFO, model.where(f), s.name, msg))
    if nret < s.min_returns and not s.must_raise:
        if any(o.kind == "typeviolation" for o in outs):
            pass
        elif outs and all(o.kind == "raise" for o in outs):
            excs = sorted({o.exc for o in outs})
            obs.append(Ob("E5-CHAIN", base + ":returns", VIOLATED, model.where(f), s.name,
                          f"{s.func} raises {excs} on every structural path for compatible operands ({s.name}); a result is specified"))
        else:
            obs.append(Ob("E5-CHAIN", base + ":returns", ERROR, model.where(f), s.name,
                          f"scenario expected at least {s.min_returns} returning path(s), found {nret}"))
    _cache[key] = (obs, unis)
    return obs, unis


def scenarios():
    from . import scenarios as sc
    from . import scenarios2  # noqa: F401  (further catalogues register themselves)
    from . import scenarios3  # noqa: F401
    from . import scenarios4  # noqa: F401
    from . import scenarios5  # noqa: F401
    from . import scenarios6  # noqa: F401
    from . import scenarios7  # noqa: F401
    from . import scenarios8  # noqa: F401
    return sc.SCENARIOS


def for_property(model: Model, pid: str, tier: str):
    obs = []
    for s in scenarios():
        if pid in s.props and pid != "C18":
            if s.tier == "thorough" and tier != "thorough":
                continue
            o, _ = run_scenario(model, s)
            obs += o
    return obs


def unification_obligations(model: Model, tier: str, only_funcs=None):
    """C18/O4: every identification of two operand sizes needs a dominating guard (a fact established on the path).
    only_funcs: restrict to the scenarios of these functions (a property that owns an operation also owns its size identifications)"""
    obs = []
    seen = set()
    for s in scenarios():
        if s.tier == "thorough" and tier != "thorough":
            continue
        if only_funcs is not None and s.func not in only_funcs:
            continue
        o, unis = run_scenario(model, s)
        # must-raise scenarios and analysis errors belong to C18 as well
        for ob in o:
            if ob.rule == "E5-RAISE" or (ob.status == ERROR and "C18" in s.props) or (":compat." in ob.key and "C18" in s.props):
                obs.append(ob)
        for sc, path, u in unis:
            k = f"{sc.func}:E5-UNIFY:{sc.name}:{u['a']}~{u['b']}:{u['ctx'][:40]}"
            if k in seen:
                continue
            seen.add(k)
            if u["ok"] or u.get("strict"):
                obs.append(Ob("E5-UNIFY", k, OK, u["where"].split(" ")[0], u["where"], f"sizes {u['a']} and {u['b']} coincide (guarded on this path)" if u["ok"] else
                              f"sizes {u['a']} and {u['b']} meet in an operation that does not broadcast: torch raises when they differ"))
            else:
                obs.append(Ob("E5-UNIFY", k, VIOLATED, u["where"].split(" ")[0], u["where"],
                              f"{sc.func} (scenario {sc.name}, path [{path}]): {u['ctx']} identifies sizes {u['a']} and {u['b']} "
                              f"({u['tags'][0]} / {u['tags'][1]}), but no guard on this path establishes their equality. torch "
                              "broadcasts a size-1 axis, so operands with one of the sizes equal to 1 are combined into an object "
                              "instead of being rejected; otherwise a foreign RuntimeError surfaces"))
    return obs
