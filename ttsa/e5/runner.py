"""Runs one entry point over all structural paths."""
from __future__ import annotations

from ..model import Model
from .interp import Interp, Explorer, Outcome, Raised, _Return, Frame
from .net import Space, Unmodelled, TypeViolation
from .sym import Facts


def run_entry(model: Model, func_short: str, make_args, hooks=None, limit=1500, presets=None, driver=None) -> list[Outcome]:
    f = model.func(func_short)
    ex = Explorer(limit=limit, presets=presets)
    outcomes = []

    def one(trail):
        facts = Facts()
        sp = Space(facts)
        it = Interp(model, sp, trail, hooks or {})
        if driver is not None:
            return it, driver(it, model)
        recv, args, kwargs = make_args(it)
        val = it.call_function(f, args, kwargs, recv=recv)
        return it, val

    for trail, res, exc in ex.run(one):
        if exc is None:
            it, val = res
            outcomes.append(Outcome("return", val, "", list(trail.log), it.facts, it.sp))
            outcomes[-1].info = it.info
            outcomes[-1].trace = list(it.trace)
            outcomes[-1].checks = it.checks
            outcomes[-1].code_obligations = list(it.sp.obligations)   # identifications made by the code, not by the spec
        elif isinstance(exc, Raised):
            outcomes.append(Outcome("raise", None, exc.exc, list(trail.log), None, None, exc.msg))
        elif isinstance(exc, Unmodelled):
            outcomes.append(Outcome("unmodelled", None, "", list(trail.log), None, None, str(exc)))
        elif isinstance(exc, TypeViolation):
            outcomes.append(Outcome("typeviolation", None, "", list(trail.log), None, None, str(exc)))
        else:
            raise exc
    return outcomes
