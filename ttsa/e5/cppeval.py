"""Abstract evaluation of the C++ tensor-algebra helper functions on contraction networks (same domain as the Python side)."""
from __future__ import annotations

import re

from ..cpp import CppFunc, CppUnit, CppUnmodelled, parse_expr, statements, simple_statement, _match, _split_top
from . import net
from .net import Dense, Term, COEF1, Coef, TypeViolation, Unmodelled
from .sym import P, ONE, ZERO


class CppObj:
    def __init__(self, file=None, cls=None):
        self.fields = {}
        self.file, self.cls = file, cls


class CppEval:
    def __init__(self, sp, unit: CppUnit, consts=None):
        self.sp = sp
        self.unit = unit
        self.consts = dict(consts or {})

    # ------------------------------------------------------------------ values
    def as_p(self, v):
        if isinstance(v, P):
            return v
        if isinstance(v, int):
            return P.const(v)
        raise CppUnmodelled(f"integer expected, found {type(v).__name__}")

    def ints(self, v):
        if not isinstance(v, list):
            raise CppUnmodelled("brace list expected")
        out = []
        for x in v:
            if isinstance(x, int):
                out.append(x)
            elif isinstance(x, P) and x.const_value() is not None:
                out.append(int(x.const_value()))
            else:
                raise CppUnmodelled("constant axis list expected")
        return out

    # ------------------------------------------------------------------ expressions
    def ev(self, e, env, this):
        k = e[0]
        if k == "num":
            return int(e[1]) if "." not in e[1] else float(e[1])
        if k == "str":
            return e[1]
        if k == "list":
            return [self.ev(x, env, this) for x in e[1]]
        if k == "neg":
            v = self.ev(e[1], env, this)
            if isinstance(v, (int, float)):
                return -v
            if isinstance(v, P):
                return -v
            if isinstance(v, Dense):
                return v.scale(Coef(-1))
            raise CppUnmodelled("negation")
        if k == "id":
            name = e[1]
            if name in env:
                return env[name]
            if this is not None and name in this.fields:
                return this.fields[name]
            if name in self.consts:
                return self.consts[name]
            if name in ("true", "false"):
                return name == "true"
            raise CppUnmodelled(f"unknown name {name}")
        if k == "attr":
            base = e[1]
            if base == ("id", "this"):
                if this is None or e[2] not in this.fields:
                    raise TypeViolation(f"member `{e[2]}` is read before it is set")
                return this.fields[e[2]]
            raise CppUnmodelled(f"attribute {e[2]}")
        if k == "index":
            b = self.ev(e[1], env, this)
            i = self.ev(e[2], env, this)
            if isinstance(b, list):
                if isinstance(i, P):
                    i = i.const_value()
                if not isinstance(i, int) and i is None:
                    raise CppUnmodelled("symbolic index into a list")
                return b[int(i)]
            if callable(b):
                return b(i)
            raise CppUnmodelled("indexing")
        if k == "binop":
            l, r = self.ev(e[2], env, this), self.ev(e[3], env, this)
            op = e[1]
            if isinstance(l, (int, P)) and isinstance(r, (int, P)):
                l, r = self.as_p(l), self.as_p(r)
                return {"+": l + r, "-": l - r, "*": l * r}.get(op) if op in "+-*" else self._div(l, r)
            if isinstance(l, Dense) and isinstance(r, Dense) and op in "+-":
                return l.add(r if op == "+" else r.scale(Coef(-1)))
            for t, s in ((l, r), (r, l)):
                if isinstance(t, Dense) and isinstance(s, (Coef, float, int)) and op in "*/":
                    c = s if isinstance(s, Coef) else Coef.sym(repr(s)) if not isinstance(s, (int, float)) else Coef(s)
                    if op == "/":
                        if t is not l:
                            raise CppUnmodelled("scalar / tensor")
                        c = c.inv()
                    return t.scale(c)
            raise CppUnmodelled(f"operator {op}")
        if k == "call":
            return self.call(e[1], [self.ev(a, env, this) for a in e[2]], env, this)
        if k == "method":
            recv = self.ev(e[1], env, this)
            return self.method(recv, e[2], [self.ev(a, env, this) for a in e[3]])
        raise CppUnmodelled(f"expression {k}")

    def _div(self, l, r):
        q = l.div(r)
        if q is None:
            raise CppUnmodelled("inexact division")
        return q

    def sizes_of(self, t: Dense):
        return [t.axis_size(i) for i in range(t.ndim())]

    def method(self, recv, name, args):
        sp = self.sp
        if isinstance(recv, Dense):
            if name == "sizes":
                return self.sizes_of(recv)
            if name in ("contiguous", "clone", "to", "detach"):
                return recv
            if name == "t":
                if recv.ndim() != 2:
                    raise TypeViolation(".t() of a tensor that is not a matrix")
                return recv.permute([1, 0])
            if name == "permute":
                perm = self.ints(args[0])
                if sorted(perm) != list(range(recv.ndim())):
                    raise TypeViolation(f"permute({perm}) of a tensor with {recv.ndim()} axes")
                return recv.permute(perm)
            if name == "reshape":
                tgt = []
                for x in args[0]:
                    if isinstance(x, int) and x == -1:
                        tgt.append(-1)
                    else:
                        tgt.append(self.as_p(x))
                return net.reshape(sp, recv, tgt)
            if name == "matmul":
                return self.call("at::linalg_matmul", [recv, args[0]], {}, None)
        raise CppUnmodelled(f"method {name} on {type(recv).__name__}")

    def call(self, name, args, env, this):
        sp = self.sp
        last = name.split("::")[-1]
        if last == "tensordot":
            return net.tensordot(sp, args[0], args[1], self.ints(args[2]), self.ints(args[3]))
        if last == "einsum":
            return net.einsum(sp, args[0], list(args[1]))
        if last == "diagonal":
            off = args[1] if len(args) > 1 else 0
            d1 = args[2] if len(args) > 2 else 0
            d2 = args[3] if len(args) > 3 else 1
            if off != 0:
                raise CppUnmodelled("off-diagonal")
            d = args[0].fresh()
            ts = []
            for term in d.terms:
                x = net._unify_axes(sp, term.out[d1], term.out[d2], "diagonal")
                out = [ax for k, ax in enumerate(term.out) if k not in (d1, d2)] + [x]
                ts.append(Term(term.coef, term.atoms, out))
            return Dense(sp, ts)
        if last in ("linalg_inv", "inverse"):
            d = args[0]
            if d.ndim() < 2 or sp.facts.norm(d.axis_size(d.ndim() - 1)) != sp.facts.norm(d.axis_size(d.ndim() - 2)):
                raise TypeViolation("inverse of non-square trailing matrices")
            return net.inv_atom(sp, d)
        if last in ("linalg_matmul", "matmul"):
            a, b = args
            if a.ndim() == 2 and b.ndim() == 2:
                return net.einsum(sp, "ij,jk->ik", [a, b])
            if a.ndim() == b.ndim() and a.ndim() > 2:
                batch = "abcdefgh"[:a.ndim() - 2]
                n0 = len(sp.obligations)
                res = net.einsum(sp, f"{batch}ij,{batch}jk->{batch}ik", [a, b])
                for ob in sp.obligations[n0:]:
                    ob["ctx"] = "batched matmul: " + ob["ctx"]
                return res
            raise CppUnmodelled("matmul of differently ranked tensors")
        if this is not None and this.cls and (this.file, this.cls, name) in self.unit.funcs:
            return self.run(self.unit.funcs[(this.file, this.cls, name)], list(args), this)
        raise CppUnmodelled(f"call {name}")

    # ------------------------------------------------------------------ conditions
    def cond(self, text, env, this):
        text = text.strip()
        # strip outer parentheses
        while text.startswith("(") and _match(text, 0, "(", ")") == len(text) - 1:
            text = text[1:-1].strip()
        for sep, fn in (("||", any), ("&&", all)):
            parts = self._split_logic(text, sep)
            if len(parts) > 1:
                vals = [self.cond(p, env, this) for p in parts]
                return fn(vals)
        if text.startswith("!") and not text.startswith("!="):
            return not self.cond(text[1:], env, this)
        m = re.match(r"^(.*?)(==|!=)(.*)$", text, re.S)
        if m:
            l = self.ev(parse_expr(m.group(1)), env, this)
            r = self.ev(parse_expr(m.group(3)), env, this)
            l = int(l.const_value()) if isinstance(l, P) and l.const_value() is not None else l
            r = int(r.const_value()) if isinstance(r, P) and r.const_value() is not None else r
            if not isinstance(l, (int, bool)) or not isinstance(r, (int, bool)):
                raise CppUnmodelled(f"condition `{text}` over non-constants")
            return (l == r) == (m.group(2) == "==")
        v = self.ev(parse_expr(text), env, this)
        if isinstance(v, (bool, int)):
            return bool(v)
        raise CppUnmodelled(f"condition `{text}`")

    def _split_logic(self, text, sep):
        parts, depth, cur, i = [], 0, [], 0
        while i < len(text):
            if text[i] in "([{":
                depth += 1
            elif text[i] in ")]}":
                depth -= 1
            if depth == 0 and text.startswith(sep, i):
                parts.append("".join(cur))
                cur = []
                i += len(sep)
                continue
            cur.append(text[i])
            i += 1
        parts.append("".join(cur))
        return parts

    # ------------------------------------------------------------------ bodies
    class _Ret(Exception):
        def __init__(self, v):
            self.v = v

    def run(self, f: CppFunc, args: list, this: CppObj | None = None):
        if len(args) > len(f.params):
            raise TypeViolation(f"{f.name} called with {len(args)} arguments, takes {len(f.params)}")
        env = {}
        for (t, n), v in zip(f.params, args):
            env[n] = v
        # default arguments (bool use_prec = true)
        if len(args) < len(f.params):
            raise CppUnmodelled(f"{f.name}: default arguments must be passed explicitly")
        try:
            self.block(f.body, env, this)
        except CppEval._Ret as r:
            return r.v
        return None

    def block(self, body, env, this):
        sts = statements(body)
        i = 0
        while i < len(sts):
            s = sts[i]
            if s.startswith("if"):
                # collect the whole if / else if / else chain
                chain = [s]
                while i + 1 < len(sts) and sts[i + 1].startswith("else"):
                    i += 1
                    chain.append(sts[i])
                self.if_chain(chain, env, this)
            elif s.startswith(("for", "while")):
                raise CppUnmodelled("loop in a helper function")
            else:
                self.simple(s, env, this)
            i += 1

    def if_chain(self, chain, env, this):
        for part in chain:
            p = part
            if p.startswith("else"):
                p = p[4:].strip()
            if p.startswith("if"):
                po = p.index("(")
                pc = _match(p, po, "(", ")")
                cond = p[po + 1:pc]
                rest = p[pc + 1:].strip()
                if self.cond(cond, env, this):
                    self.branch(rest, env, this)
                    return
            else:
                self.branch(p, env, this)
                return

    def branch(self, text, env, this):
        text = text.strip()
        if text.startswith("{"):
            close = _match(text, 0, "{", "}")
            self.block(text[1:close], env, this)
        else:
            self.block(text, env, this)

    def simple(self, s, env, this):
        st = simple_statement(s)
        if st is None:
            if re.match(r"^(uint64_t|int64_t|int|double|auto|at::Tensor|at::IntArrayRef)\b[^=]*;$", s.strip()):
                return      # declaration without initialiser
            if s.strip() in (";", ""):
                return
            # declarations with several names: uint64_t s0,s1,s2;
            raise CppUnmodelled(f"statement `{s[:60]}`")
        if st[0] == "decl":
            return
        if st[0] == "return":
            raise CppEval._Ret(self.ev(parse_expr(st[1]), env, this))
        tgt, expr = st[1], st[2]
        v = self.ev(parse_expr(expr), env, this)
        if s.strip().startswith("this->") or (this is not None and tgt in this.fields and tgt not in env):
            this.fields[tgt] = v
        else:
            env[tgt] = v
