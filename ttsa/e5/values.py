"""Abstract values of the E5 interpreter."""
from __future__ import annotations

from dataclasses import dataclass, field

from .sym import P, ONE, ZERO
from .net import Dense, Block, Coef, COEF1, Space, atom_tensor, Unmodelled


class Value:
    pass


@dataclass
class VInt(Value):
    p: P

    def __repr__(self):
        return f"VInt({self.p!r})"


@dataclass
class VBool(Value):
    v: object          # True / False / None (unknown)
    key: str = ""      # textual condition for unknowns
    on_true: object = None    # callable(facts) installing the facts of the true branch
    on_false: object = None
    rel: object = None        # ('==' | '!=', P, P) for integer (in)equalities - used to generalise facts over loops


@dataclass
class VStr(Value):
    s: str = ""


@dataclass
class VNone(Value):
    pass


@dataclass
class VFloat(Value):
    x: float


@dataclass
class VScalar(Value):
    """Symbolic scalar (a user-supplied number / 1-element tensor, or derived)."""
    coef: Coef
    kind: str = "python"     # python | numpy | tensor0 | tensor1


@dataclass
class VList(Value):
    items: list
    builder: object = None    # set while a class body is executing: appends are recorded there


@dataclass
class VTuple(Value):
    items: tuple


@dataclass
class VSeq(Value):
    """Symbolic-length integer sequence, e.g. x.N : index -> size atom."""
    name: str
    length: P
    get: object            # callable(P) -> Value
    lo: P = ZERO           # slice offset (for N[:dim]-style slices)


@dataclass
class ClassEntry:
    label: str
    index: P
    items: list
    decisions: list
    facts: object
    raised: str | None = None


@dataclass
class Segment:
    kind: str              # 'concrete' | 'loop'
    length: P
    entries: list          # for 'concrete': list of Values ; for 'loop': list[ClassEntry]
    var: str = ""


@dataclass
class VSymList(Value):
    segments: list


@dataclass
class VTT(Value):
    name: str
    is_ttm: object         # True/False
    d: P
    cores: Value           # VSeq of atoms (operand) / VList / VSymList (result)
    operand: bool = True
    dtype: str = "dtype"
    extra: dict = field(default_factory=dict)


@dataclass
class VTensor(Value):
    val: object            # Dense | Block
    dtype: str = "?"
    counts: object = None  # optional list of P: how many real axes each (bundled) axis stands for

    def dense(self) -> Dense:
        if isinstance(self.val, Block):
            return self.val.dense()
        return self.val

    def block(self) -> Block:
        if isinstance(self.val, Block):
            return self.val
        return Block.of_dense(self.val)


@dataclass
class VSlice(Value):
    lo: object
    hi: object
    step: object
    name: str = ""         # for symbolic user slices


@dataclass
class VRange(Value):
    start: P
    stop: P
    step: int = 1


@dataclass
class VZip(Value):
    parts: list


@dataclass
class VEnumerate(Value):
    inner: Value


@dataclass
class VFunc(Value):
    dotted: str


@dataclass
class VBound(Value):
    recv: Value
    name: str


@dataclass
class VOpaque(Value):
    tag: str = ""


@dataclass
class VObj(Value):
    """Instance of a plain repository class (the local linear operators of the AMEn solvers)."""
    cls: str               # dotted class name
    attrs: dict = field(default_factory=dict)


@dataclass
class VConstDict(Value):
    """a dictionary whose keys are literals (None, strings, integers, booleans): a dispatch or code table"""
    items: list            # [(python key, Value)] in insertion order

    def lookup(self, key):
        for k, v in self.items:
            if type(k) is type(key) and k == key:
                return v
        return None


@dataclass
class VPartial(Value):
    """functools.partial(f, *args, **kwargs) / operator.itemgetter(k) (f = None, args = (k,))"""
    func: object
    args: tuple
    kwargs: dict


@dataclass
class VRecordType(Value):
    """a collections.namedtuple class bound at module level: calling it builds a record (a VObj whose attributes are the fields, in order)"""
    name: str
    fields: tuple


@dataclass
class VContraction(Value):
    """opt_einsum.contract_expression(spec, *shapes): a callable that contracts its operands by `spec`."""
    spec: str
    nshapes: int = 0


@dataclass
class VType(Value):
    names: tuple           # class names for isinstance


@dataclass
class VIndexSeq(Value):
    """Symbolic integer sequence a*k+b for k in range(n), or a concatenation of such (for symbolic permutations)."""
    parts: list            # list of (n: P, a: int, b: int)


@dataclass
class VIntArr(Value):
    """a small concrete integer array (numpy index arithmetic with fixed sizes): row-major data and its shape"""
    shape: tuple
    data: list

    def reshape(self, shape):
        shape = list(shape)
        n = len(self.data)
        if -1 in shape:
            k = shape.index(-1)
            rest = 1
            for i, x in enumerate(shape):
                if i != k:
                    rest *= x
            shape[k] = n // rest if rest else 0
        tot = 1
        for x in shape:
            tot *= x
        if tot != n:
            raise ValueError("cannot reshape")
        return VIntArr(tuple(shape), list(self.data))

    def transpose(self):
        import itertools
        shp = self.shape
        strides = []
        acc = 1
        for x in reversed(shp):
            strides.insert(0, acc)
            acc *= x
        new_shape = tuple(reversed(shp))
        out = []
        for idx in itertools.product(*[range(x) for x in new_shape]):
            src = tuple(reversed(idx))
            out.append(self.data[sum(i * st for i, st in zip(src, strides))])
        return VIntArr(new_shape, out)

    def flatten(self):
        return VIntArr((len(self.data),), list(self.data))


@dataclass
class VClosure(Value):
    """a function defined inside a function: its code and the frame environment it closes over (by reference)"""
    func: object
    env: dict
