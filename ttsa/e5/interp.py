"""Abstract interpreter over the Python fragment used by the repository's core-building code.

Values are types (symbolic sizes, contraction networks); branches on *structural* predicates (operand kinds,
shape equalities, position in the train) are enumerated by replay-based forking and the facts a branch
establishes are recorded; loops over a symbolic number of positions are evaluated once per position class
{first, interior, last} (the single-position and empty cases are separate forks).  Anything outside the modelled
fragment raises Unmodelled.
"""
from __future__ import annotations

import ast
from dataclasses import dataclass, field

from ..model import Model, Func, norm, mangle
from . import net
from .net import Dense, Block, Coef, COEF1, Space, Unmodelled, TypeViolation, Term, Atom
from .sym import P, ONE, ZERO, Facts
from .values import *


class Raised(Exception):
    def __init__(self, exc, msg=""):
        self.exc, self.msg = exc, msg


class _Return(Exception):
    def __init__(self, value):
        self.value = value


class _Break(Exception):
    pass


class _Continue(Exception):
    pass


@dataclass
class Outcome:
    kind: str                 # return | raise | unmodelled | typeviolation
    value: object = None
    exc: str = ""
    decisions: list = field(default_factory=list)
    facts: Facts = None
    space: Space = None
    detail: str = ""
    where: str = ""


def _fold_const(e):
    """value of a literal arithmetic expression (2*1e4, -1, 10**5), or None"""
    if isinstance(e, ast.Constant) and isinstance(e.value, (int, float)) and not isinstance(e.value, bool):
        return e.value
    if isinstance(e, ast.UnaryOp) and isinstance(e.op, (ast.USub, ast.UAdd)):
        v = _fold_const(e.operand)
        return None if v is None else (-v if isinstance(e.op, ast.USub) else v)
    if isinstance(e, ast.BinOp):
        a, b = _fold_const(e.left), _fold_const(e.right)
        if a is None or b is None:
            return None
        if isinstance(e.op, ast.Add):
            return a + b
        if isinstance(e.op, ast.Sub):
            return a - b
        if isinstance(e.op, ast.Mult):
            return a * b
        if isinstance(e.op, ast.Div) and b != 0:
            return a / b
        if isinstance(e.op, ast.Pow) and isinstance(b, int) and 0 <= b <= 64 and abs(a) <= 1e6:
            return a ** b
    return None


class Trail:
    def __init__(self, explorer, decisions):
        self.ex = explorer
        self.decisions = list(decisions)
        self.pos = 0
        self.log = []
        self.memo = {}

    def decide(self, key: str) -> bool:
        if key in self.memo:
            return self.memo[key]
        for pk, pv in self.ex.presets.items():
            if pk in key:
                self.memo[key] = pv
                self.log.append((key, pv))
                return pv
        if self.pos < len(self.decisions):
            v = self.decisions[self.pos]
        else:
            v = True
            self.decisions.append(True)
            self.ex.work.append(self.decisions[: self.pos] + [False])
        self.pos += 1
        self.log.append((key, v))
        self.memo[key] = v
        return v


class Explorer:
    def __init__(self, limit=1500, presets=None):
        self.work = [[]]
        self.limit = limit
        self.presets = presets or {}

    def run(self, fn):
        """fn(trail) -> result; explores every decision trail; returns list of (trail, result-or-exception)."""
        out = []
        n = 0
        while self.work:
            n += 1
            if n > self.limit:
                raise Unmodelled("too many structural paths")
            t = Trail(self, self.work.pop())
            try:
                r = fn(t)
                out.append((t, r, None))
            except (Raised, _Return, Unmodelled, TypeViolation) as e:
                out.append((t, None, e))
        return out


BUILTIN_EXC = {"ValueError", "TypeError", "IndexError", "KeyError", "NotImplementedError", "Exception", "RuntimeError"}


class Interp:
    def __init__(self, model: Model, space: Space, trail: Trail, hooks=None, depth=0):
        self.model = model
        self.sp = space
        self.trail = trail
        self.hooks = hooks or {}       # loop specs etc.
        self.depth = depth
        self.class_ctx = []            # stack of active class executions (builders)
        self.loop_counter = {}
        self.fresh_n = 0
        self.info = []
        self.trace = []      # observable effects in execution order: ('requires_grad_', <core>, flag), ('call', '<opaque>.method')
        self.checks = []               # (key, ok, detail) produced by sweep hooks
        self.lenient = False           # statement-slice mode: values outside the typed fragment stay opaque instead of aborting

    # the facts of the current path live in the space (single source of truth, also seen by operand closures)
    @property
    def facts(self):
        return self.sp.facts

    @facts.setter
    def facts(self, f):
        self.sp.facts = f

    # ------------------------------------------------------------------ helpers
    def fresh_atom(self, base):
        self.fresh_n += 1
        return f"{base}#{self.fresh_n}"

    def where(self, f: Func, node):
        self.sp.where = f"{self.model.where(f, node)} `{norm(node)[:70]}`"

    def truth(self, v: Value, ctxnode=None) -> bool:
        if isinstance(v, VBool):
            if v.v is None and getattr(v, "cmp", None) is not None:
                # a comparison stored in a local (`single = d == 1`) and tested later: loop trip counts / guards passed since may decide it
                c = self.facts.compare(v.cmp[1], v.cmp[0], v.cmp[2])
                if c is not None:
                    return c
            if v.v is None:
                # inside an `assert` the undecided condition is an assumption of the code that follows, not a fork
                d = True if getattr(self, "assuming", 0) else self.trail.decide(v.key)
                cb = v.on_true if d else v.on_false
                if cb is not None:
                    cb(self.facts)
                return d
            return bool(v.v)
        if isinstance(v, VNone):
            return False
        if isinstance(v, VInt):
            c = self.facts.compare(v.p, "!=", 0)
            if c is None:
                return self.truth(VBool(None, f"{v.p!r} != 0", lambda f: None, lambda f: f.assume_eq(v.p, 0)))
            return c
        if isinstance(v, (VList, VTuple)):
            return len(v.items) > 0
        if isinstance(v, VStr):
            return bool(v.s)
        if isinstance(v, VFloat):
            return v.x != 0
        if isinstance(v, VSymList):
            return True
        if isinstance(v, (VTT, VTensor, VFunc, VOpaque)):
            return True
        raise Unmodelled(f"truth value of {type(v).__name__}")

    # ------------------------------------------------------------------ function execution
    def call_function(self, f: Func, args: list, kwargs: dict, recv=None, closure_env=None):
        if self.depth > 6:
            raise Unmodelled("inlining depth exceeded")
        fn = f.node
        env = dict(closure_env) if closure_env is not None else {}
        a = fn.args
        names = [x.arg for x in a.posonlyargs + a.args]
        defaults = a.defaults
        pos = list(args)
        if recv is not None:
            pos = [recv] + pos
        # a scenario driver (depth 0) binds the arguments of the function it evaluates by the signature it was written for: when that
        # signature has changed (parameters renamed, reordered, made keyword-only) the scenario cannot be run - no verdict
        mismatch = (lambda msg: Unmodelled("the scenario binds the signature this function had when the scenario was written: " + msg)) \
            if self.depth == 0 else (lambda msg: TypeViolation(f"{f.short}: {msg}"))
        for n, v in zip(names, pos):
            env[n] = v
        if len(pos) > len(names):
            if a.vararg is None:
                raise mismatch("called with too many positional arguments")
            env[a.vararg.arg] = VTuple(tuple(pos[len(names):]))
        elif a.vararg is not None:
            env[a.vararg.arg] = VTuple(())
        kwonly = [x.arg for x in a.kwonlyargs]
        bound_pos = set(names[:len(pos)])
        for k, v in kwargs.items():
            if k not in names and k not in kwonly and a.kwarg is None:
                raise mismatch(f"unexpected keyword argument {k}")
            if k in bound_pos and not (recv is not None and k == names[0]):
                raise mismatch(f"multiple values for argument {k}")
            env[k] = v
        # defaults
        for n, dnode in zip(names[len(names) - len(defaults):], defaults):
            if n not in env:
                env[n] = self.eval_const_default(dnode, f)
        for x, dnode in zip(a.kwonlyargs, a.kw_defaults):
            if x.arg not in env and dnode is not None:
                env[x.arg] = self.eval_const_default(dnode, f)
        for n in names + kwonly:
            if n not in env:
                raise mismatch(f"missing argument {n}")
        sub = Interp(self.model, self.sp, self.trail, self.hooks, self.depth + 1)
        sub.class_ctx = self.class_ctx
        sub.fresh_n = self.fresh_n
        sub.info = self.info
        sub.trace = self.trace
        sub.checks = self.checks
        sub.lenient = self.lenient
        frame = Frame(f, env)
        try:
            sub.exec_block(fn.body, frame)
        except _Return as r:
            self.fresh_n = sub.fresh_n
            return r.value
        self.fresh_n = sub.fresh_n
        return VNone()

    def eval_const_default(self, node, f):
        if isinstance(node, ast.Constant):
            return self.const(node.value)
        if isinstance(node, (ast.List, ast.Tuple)) and not node.elts:
            return VList([])
        if isinstance(node, ast.UnaryOp) and isinstance(node.op, ast.USub) and isinstance(node.operand, ast.Constant) \
                and isinstance(node.operand.value, (int, float)) and not isinstance(node.operand.value, bool):
            return self.const(-node.operand.value)
        if isinstance(node, ast.Attribute) and self.model.resolve(f.module, node) == "sys.maxsize":
            return VOpaque("sys.maxsize")
        return VOpaque("default:" + norm(node)[:30])

    def const(self, v):
        if v is None:
            return VNone()
        if isinstance(v, bool):
            return VBool(v)
        if isinstance(v, int):
            return VInt(P.const(v))
        if isinstance(v, float):
            return VFloat(v)
        if isinstance(v, str):
            return VStr(v)
        if v is Ellipsis:
            return VOpaque("Ellipsis")
        return VOpaque(repr(v))

    # ------------------------------------------------------------------ statements
    def exec_block(self, stmts, fr):
        for s in stmts:
            self.exec_stmt(s, fr)

    def exec_stmt(self, s, fr):
        self.where(fr.f, s)
        if isinstance(s, ast.Assign):
            v = self.ev(s.value, fr)
            for t in s.targets:
                self.assign(t, v, fr)
            return
        if isinstance(s, ast.AugAssign):
            cur = self.ev(_load(s.target), fr)
            rhs = self.ev(s.value, fr)
            v = self.binop(s.op, cur, rhs, fr, s)
            self.assign(s.target, v, fr)
            return
        if isinstance(s, ast.Expr):
            if isinstance(s.value, ast.Constant):
                return
            self.ev(s.value, fr)
            return
        if isinstance(s, ast.Return):
            raise _Return(self.ev(s.value, fr) if s.value is not None else VNone())
        if isinstance(s, ast.Raise):
            exc = "Exception"
            if s.exc is not None:
                e = s.exc.func if isinstance(s.exc, ast.Call) else s.exc
                q = self.model.resolve(fr.f.module, e)
                exc = q.rsplit(".", 1)[-1] if q else norm(e)
            raise Raised(exc, norm(s)[:120])
        if isinstance(s, ast.If):
            c = self.ev(s.test, fr)
            if self.truth(c):
                self.exec_block(s.body, fr)
            else:
                self.exec_block(s.orelse, fr)
            return
        if isinstance(s, ast.Try):
            self.exec_try(s, fr)
            return
        if isinstance(s, ast.For):
            self.exec_for(s, fr)
            return
        if isinstance(s, ast.Pass):
            return
        if isinstance(s, ast.FunctionDef) and not s.decorator_list:
            # a local helper: a closure over this frame
            fr.env[s.name] = VClosure(Func(f"{fr.f.qual}.<locals>.{s.name}", fr.f.module, s, None), fr.env)
            return
        if isinstance(s, ast.Assert):
            # a decidably false assertion raises; anything else is taken as stated (python -O removes it: it cannot carry behaviour)
            self.assuming = getattr(self, "assuming", 0) + 1
            try:
                try:
                    ok = self.truth(self.ev(s.test, fr))
                except Unmodelled:
                    ok = True
            finally:
                self.assuming -= 1
            if not ok:
                raise Raised("AssertionError", norm(s)[:120])
            return
        if isinstance(s, ast.Delete):
            for t in s.targets:
                if isinstance(t, ast.Name):
                    fr.env.pop(t.id, None)
                else:
                    raise Unmodelled("del of a non-name")
            return
        if isinstance(s, ast.Break):
            raise _Break()
        if isinstance(s, ast.Continue):
            raise _Continue()
        if isinstance(s, ast.While):
            # a loop whose condition is decided (or forked) at every turn: counters over a concrete order, flags; bounded unrolling
            turns = 0
            while self.truth(self.ev(s.test, fr)):
                turns += 1
                if turns > 40:
                    raise Unmodelled("while loop that does not terminate within 40 evaluated turns")
                try:
                    self.exec_block(s.body, fr)
                except _Break:
                    break
                except _Continue:
                    continue
            else:
                self.exec_block(s.orelse, fr)
            return
        raise Unmodelled(f"statement {type(s).__name__}")

    def assign(self, t, v, fr):
        if isinstance(t, ast.Name):
            fr.env[t.id] = v
            return
        if isinstance(t, (ast.Tuple, ast.List)):
            items = self.iter_concrete(v)
            stars = [i for i, e in enumerate(t.elts) if isinstance(e, ast.Starred)]
            if len(stars) == 1:
                # a, *mid, b = seq
                i = stars[0]
                tail = len(t.elts) - i - 1
                if len(items) < len(t.elts) - 1:
                    raise TypeViolation("not enough values to unpack")
                for e, x in zip(t.elts[:i], items[:i]):
                    self.assign(e, x, fr)
                self.assign(t.elts[i].value, VList(list(items[i:len(items) - tail])), fr)
                for e, x in zip(t.elts[i + 1:], items[len(items) - tail:] if tail else []):
                    self.assign(e, x, fr)
                return
            if stars:
                raise Unmodelled("several starred targets")
            if len(items) != len(t.elts):
                raise TypeViolation("unpacking length mismatch")
            for e, x in zip(t.elts, items):
                self.assign(e, x, fr)
            return
        if isinstance(t, ast.Subscript):
            base = self.ev(t.value, fr)
            if isinstance(base, VList) and getattr(base, "prealloc", None) is not None:
                idx = self.ev(t.slice, fr)
                ctx = self.class_ctx[-1] if self.class_ctx else None
                if ctx is not None and isinstance(idx, VInt) and getattr(ctx, "n", None) is not None and self.facts.eq(idx.p, ctx.k) \
                        and self.facts.eq(ctx.n, base.prealloc):
                    ctx.appended.setdefault(id(base), []).append(v)      # the slot of this position: the same as appending in order
                    return
                n = self.facts.norm(base.prealloc).const_value()
                if ctx is None and n is not None and not base.items:
                    # the length has become a constant on this path (a loop over range(d) decided d): the list is what it was created as
                    base.items = [VNone() for _ in range(int(n))]
                    base.prealloc = None
                    k = self.concrete_index(idx, len(base.items))
                    base.items[k] = v
                    return
                raise Unmodelled("store into a preallocated list at a position other than the loop's own")
            if isinstance(base, VList):
                idx = self.ev(t.slice, fr)
                k = self.concrete_index(idx, len(base.items))
                if self.class_ctx and base.builder is None and id(base) not in self.class_ctx[-1].local_lists:
                    self.class_ctx[-1].stores.append((base, k, v))
                    return
                base.items[k] = v
                return
            if isinstance(base, VSymList):
                idx = self.ev(t.slice, fr)
                if not isinstance(idx, VInt):
                    raise Unmodelled("store into a symbolic list with a non-integer index")
                base.overrides = getattr(base, "overrides", []) + [(idx.p, v)]
                return
            if isinstance(base, VTensor):
                self.tensor_setitem(base, t.slice, v, fr)
                return
            raise Unmodelled(f"subscript store into {type(base).__name__}")
        if isinstance(t, ast.Attribute):
            base = self.ev(t.value, fr)
            if isinstance(base, VTT) and not base.operand:
                nm = t.attr.lstrip("_") if t.attr.startswith("__") and not t.attr.endswith("__") else t.attr
                if nm == "cores":
                    base.cores = v
                else:
                    base.extra[nm] = v
                return
            if isinstance(base, VObj):
                base.attrs[t.attr] = v
                return
            raise Unmodelled("attribute store")
        raise Unmodelled(f"assignment target {type(t).__name__}")

    def concrete_index(self, idx, n):
        if isinstance(idx, VInt):
            c = self.facts.norm(idx.p).const_value()
            if c is not None:
                if not -n <= c < n:
                    raise Raised("IndexError", "list index out of range")
                return int(c) % n
        raise Unmodelled("symbolic index into a concrete list")

    # ------------------------------------------------------------------ loops
    def iter_concrete(self, v):
        if isinstance(v, (VList, VTuple)):
            return list(v.items)
        if isinstance(v, VObj) and v.cls.startswith("record:"):
            return [v.attrs[k] for k in v.attrs["__fields__"]]
        if isinstance(v, VRange):
            a, b = self.facts.norm(v.start).const_value(), self.facts.norm(v.stop).const_value()
            if a is not None and b is not None:
                return [VInt(P.const(i)) for i in range(int(a), int(b), v.step)]
            n = self.facts.norm((v.stop - v.start) if v.step == 1 else (v.start - v.stop)).const_value()
            if n is not None:
                return [VInt(self.facts.norm(v.start + i * v.step)) for i in range(max(0, int(n)))]
        if isinstance(v, VZip):
            conc = [p for p in v.parts if isinstance(p, (VList, VTuple))]
            if conc and len(conc) < len(v.parts):
                n = min(len(p.items) for p in conc)
                cols = []
                for p in v.parts:
                    if isinstance(p, (VList, VTuple)):
                        cols.append(list(p.items[:n]))
                    else:
                        sl = self.sym_length(p)
                        if sl is None:
                            cols.append(self.iter_concrete(p)[:n])
                        else:
                            c = self.facts.compare(sl[0], ">=", n)
                            if c is not True:
                                raise Unmodelled(f"zip of a list of length {n} with a sequence of length {sl[0]!r} (not known to be longer)")
                            cols.append([sl[1](P.const(i)) for i in range(n)])
                return [VTuple(tuple(x)) for x in zip(*cols)]
            parts = [self.iter_concrete(p) for p in v.parts]
            return [VTuple(tuple(x)) for x in zip(*parts)]
        if isinstance(v, VEnumerate):
            st = getattr(v, "start", ZERO)
            return [VTuple((VInt(self.facts.norm(st + P.const(i))), x)) for i, x in enumerate(self.iter_concrete(v.inner))]
        if isinstance(v, VSeq):
            n = self.facts.norm(v.length).const_value()
            if n is not None:
                return [v.get(v.lo + i) for i in range(int(n))]
        if isinstance(v, VTensor):
            raise Unmodelled("iteration over a tensor")
        raise Unmodelled(f"iteration over symbolic {type(v).__name__}")

    def sym_length(self, v):
        """(length P, getter(k: P) -> item) for symbolic iterables, or None if concrete."""
        if isinstance(v, VRange):
            n = self.facts.norm(v.stop - v.start)
            if v.step == -1:
                n = self.facts.norm(v.start - v.stop)
                return n, (lambda k: VInt(v.start - k))
            if v.step != 1:
                raise Unmodelled("range with step")
            return n, (lambda k: VInt(self.facts.norm(v.start + k)))
        if isinstance(v, VSeq):
            return self.facts.norm(v.length), (lambda k: v.get(self.facts.norm(v.lo + k)))
        if isinstance(v, VZip):
            subs = [self.sym_length(p) if not isinstance(p, (VList, VTuple)) else None for p in v.parts]
            if all(s is None for s in subs):
                return None
            if any(s is None for s in subs):
                # zip stops at the shortest: with a concrete part the iteration is concrete
                return None
            n = subs[0][0]
            for m, _ in subs[1:]:
                if not self.facts.eq(n, m):
                    # zip stops at the shortest sequence: decide (or fork on) which one that is
                    le = self.facts.compare(n, "<=", m)
                    if le is None:
                        le = self.truth(VBool(None, f"{self.facts.norm(n)!r} <= {self.facts.norm(m)!r}", *_int_fact_installers("<=", self.facts.norm(n), self.facts.norm(m))))
                    if not le:
                        n = m
            return n, (lambda k: VTuple(tuple(g(k) for _, g in subs)))
        if isinstance(v, VEnumerate):
            s = self.sym_length(v.inner)
            if s is None:
                return None
            st = getattr(v, "start", ZERO)
            return s[0], (lambda k: VTuple((VInt(self.facts.norm(P.of(k) + st)), s[1](k))))
        if isinstance(v, VSymList):
            raise Unmodelled("iteration over a list built in a symbolic loop")
        return None

    def position_classes(self, n: P, what: str):
        """Decide how many positions the loop has: returns 'concrete' (n is now a constant) or 'classes'."""
        n = self.facts.norm(n)
        if n.const_value() is not None:
            return "concrete"
        ge2 = self.facts.compare(n, ">=", 2)
        if ge2 is None:
            ge2 = self.trail.decide(f"{what}: {n!r} >= 2")
            if ge2:
                _install_ge(self.facts, n, 2)
        if ge2:
            return "classes"
        # n <= 1
        ge1 = self.facts.compare(n, ">=", 1)
        if ge1 is None:
            ge1 = self.trail.decide(f"{what}: {n!r} >= 1")
        if ge1:
            if not self.facts.assume_eq(n, 1, f"{what} has one position"):
                if not _solve_eq(self.facts, n, 1):
                    raise Unmodelled(f"cannot install {n!r} == 1")
            return "concrete"
        nonneg = self.facts.compare(n, ">=", 0)
        if nonneg is None:
            nonneg = self.trail.decide(f"{what}: {n!r} >= 0")
        if nonneg:
            if not self.facts.assume_eq(n, 0, f"{what} is empty"):
                _solve_eq(self.facts, n, 0)
        else:
            _install_ge(self.facts, -n, 1)
            _pin_if_tight(self.facts, n + 1)
        return "empty"

    def exec_for(self, s: ast.For, fr):
        it = self.ev(s.iter, fr)
        sl = self.sym_length(it) if not isinstance(it, (VList, VTuple)) else None
        if sl is not None:
            n, getter = sl
            mode = self.position_classes(n, f"loop `{norm(s.iter)[:40]}`")
            if mode == "empty":
                self.exec_block(s.orelse, fr)
                return
            if mode == "classes":
                for hook in self.hooks.get(("sweep", fr.f.short), []):
                    if hook.get("when") is None or hook["when"](self, s, fr):
                        return self.exec_sweep(s, fr, it, hook)
                return self.exec_class_loop(s, fr, n, getter)
            it = self.ev(s.iter, fr)   # re-evaluate under the new facts
        items = self.iter_concrete(it)
        for x in items:
            self.assign(s.target, x, fr)
            try:
                self.exec_block(s.body, fr)
            except _Break:
                break
            except _Continue:
                continue
        else:
            self.exec_block(s.orelse, fr)

    def exec_class_loop(self, s: ast.For, fr, n: P, getter):
        """Map-style loop over >= 2 positions: the body is evaluated once per position class."""
        # a variable that is carried from one iteration to the next needs a declared invariant (sweep hook)
        stored = {n.id for st in s.body for n in ast.walk(st) if isinstance(n, ast.Name) and isinstance(n.ctx, ast.Store)}
        stored |= {n.target.id for st in s.body for n in ast.walk(st) if isinstance(n, ast.AugAssign) and isinstance(n.target, ast.Name)}
        loaded = {n.id for st in s.body for n in ast.walk(st) if isinstance(n, ast.Name) and isinstance(n.ctx, ast.Load)}
        tnames = set(_target_name(s.target).split("_")) | {x.id for x in ast.walk(s.target) if isinstance(x, ast.Name)}
        carried = [n for n in stored & loaded if n in fr.env and n not in tnames and not isinstance(fr.env[n], (VList, VSymList))
                   and _read_before_write(s.body, n)]
        if carried:
            raise Unmodelled(f"loop-carried variable(s) {sorted(carried)} in `for {norm(s.target)} in {norm(s.iter)[:40]}` without a declared invariant")
        base_facts = self.facts.copy()
        lists = {}

        def collect(v, seen):
            if isinstance(v, VSymList) and id(v) not in seen:
                seen[id(v)] = v
            elif isinstance(v, VList) and id(v) not in seen:
                seen[id(v)] = v
                for x in v.items:
                    collect(x, seen)
            elif isinstance(v, VTuple):
                for x in v.items:
                    collect(x, seen)
        for v in list(fr.env.values()):
            collect(v, lists)
        iv = self.fresh_atom(_target_name(s.target))
        classes = [("first", ZERO), ("interior", P.atom(iv)), ("last", n - 1)]
        results = []      # (label, k, decisions, appended, stores, facts, raised)
        for label, k in classes:
            ex = Explorer(limit=64, presets=self.trail.ex.presets)

            def body(trail, label=label, k=k):
                saved_trail = self.trail
                self.facts = base_facts.copy()
                self.sp.facts = self.facts
                if label == "interior":
                    self.facts.lb[iv] = 1
                    _install_ge(self.facts, n - 2 - P.atom(iv), 0)
                ctx = ClassCtx(label, k)
                ctx.n = n if getattr(getter, "from_zero", True) else None
                self.class_ctx.append(ctx)
                self.trail = trail
                env_copy = dict(fr.env)
                fr2 = Frame(fr.f, env_copy)
                try:
                    self.assign(s.target, getter(k), fr2)
                    try:
                        self.exec_block(s.body, fr2)
                    except _Continue:
                        pass
                    return ctx, self.facts
                finally:
                    self.class_ctx.pop()
                    self.trail = saved_trail
            for trail, res, exc in ex.run(body):
                if exc is not None:
                    if isinstance(exc, Raised):
                        results.append((label, k, trail.log, None, None, self.facts, exc.exc))
                        continue
                    if isinstance(exc, _Return):
                        raise Unmodelled("return inside a position loop")
                    raise exc
                ctx, facts = res
                results.append((label, k, trail.log, ctx.appended, ctx.stores, facts, None))
        self.facts = base_facts
        self.sp.facts = self.facts
        # merge appends into symbolic lists
        by_list = {}
        for label, k, log, appended, stores, facts, raised in results:
            if raised:
                for lid in lists:
                    by_list.setdefault(lid, []).append(ClassEntry(label, k, [], log, facts, raised))
                continue
            if stores:
                raise Unmodelled("element stores into an outer list inside a position loop")
            touched = set(appended)
            for lid in lists:
                if lid in touched or any(lid in r[3] for r in results if r[3]):
                    by_list.setdefault(lid, []).append(ClassEntry(label, k, appended.get(lid, []), log, facts))
        for lid, entries in by_list.items():
            if not any(e.items for e in entries):
                continue
            lst = lists[lid]
            seg = Segment("loop", n, entries, iv)
            if isinstance(lst, VSymList):
                sym = VSymList(list(lst.segments) + [seg])
                sym.overrides = list(getattr(lst, "overrides", []) or [])
            else:
                sym = VSymList(([Segment("concrete", P.const(len(lst.items)), list(lst.items))] if lst.items else []) + [seg])
            for name, v in fr.env.items():
                if v is lst:
                    fr.env[name] = sym
        # variables assigned in the body hold "last iteration" values: mark opaque
        for node in ast.walk(s):
            if isinstance(node, ast.Name) and isinstance(node.ctx, ast.Store) and node.id in fr.env:
                v = fr.env[node.id]
                if not isinstance(v, (VSymList,)) and not isinstance(v, VList):
                    pass
        # all paths raised in every class?  then the loop always raises
        if results and all(r[6] for r in results):
            raise Raised(results[0][6], "raised at every position")

    def exec_sweep(self, s: ast.For, fr, itv, hook):
        """Accumulator loop with a declared invariant (Lemma 3): check the initial state, one generic step, install
        the final state.  hook = dict(acc=name, init=fn(it,fr), state=fn(it,fr,k), step=fn(it,fr,k), name=str); k is the 0-based
        iteration ordinal (a polynomial); state(n) is the state after the last iteration."""
        from .spec import compare
        n, getter = self.sym_length(itv)
        tgt = _target_name(s.target)
        # the body must not special-case positions
        for node in ast.walk(s):
            if isinstance(node, ast.Compare) and any(isinstance(x, ast.Name) and x.id == tgt for x in ast.walk(node)) and node is not s:
                raise Unmodelled("position-dependent branch inside a sweep loop")
        acc = hook["acc"]
        # the accumulator is recognised structurally (the loop-carried variable), whatever it is called
        stored = {x.id for st in s.body for x in ast.walk(st) if isinstance(x, ast.Name) and isinstance(x.ctx, ast.Store)}
        stored |= {x.target.id for st in s.body for x in ast.walk(st) if isinstance(x, ast.AugAssign) and isinstance(x.target, ast.Name)}
        loaded = {x.id for st in s.body for x in ast.walk(st) if isinstance(x, ast.Name) and isinstance(x.ctx, ast.Load)}
        tn_ = {x.id for x in ast.walk(s.target) if isinstance(x, ast.Name)}
        carried = sorted(x for x in stored & loaded if x in fr.env and x not in tn_ and not isinstance(fr.env[x], (VList, VSymList))
                         and _read_before_write(s.body, x))
        if acc not in carried:
            if len(carried) == 1:
                acc = carried[0]
            else:
                raise Unmodelled(f"sweep loop `for {norm(s.target)} in {norm(s.iter)[:40]}`: the accumulator is not the unique loop-carried variable ({carried})")

        def spec_call(fn, *a):
            """evaluate a specification function; size identifications it makes are not obligations of the code"""
            n0 = len(self.sp.obligations)
            try:
                return fn(*a)
            finally:
                del self.sp.obligations[n0:]
        first = getter(ZERO)
        start = first.p if isinstance(first, VInt) else None
        name = hook.get("name", fr.f.short)
        # init
        cur = fr.env.get(acc)
        exp = spec_call(hook["init"], self, fr)
        ok, detail, _ = spec_call(compare, self.sp, cur, exp)
        self.checks.append((f"{name}:sweep-init", ok, "initial accumulator " + ("matches the empty/first-position state" if ok else detail)))
        # generic step
        iv = self.fresh_atom(tgt)
        base = self.facts
        self.facts = base.copy()
        self.sp.facts = self.facts
        self.facts.lb[iv] = 0
        k = P.atom(iv)
        _install_ge(self.facts, n - 1 - k, 0)
        fr2 = Frame(fr.f, dict(fr.env))
        fr2.env[acc] = _as_vtensor(spec_call(hook["state"], self, fr2, k))
        self.assign(s.target, getter(k), fr2)
        self.exec_block(s.body, fr2)
        got = fr2.env[acc]
        exp = spec_call(hook["step"], self, fr2, k)
        ok, detail, _ = spec_call(compare, self.sp, got, exp)
        self.checks.append((f"{name}:sweep-step", ok, "loop body maps state(i) to state(i+1)" if ok else detail))
        self.facts = base
        self.sp.facts = base
        # final state
        fr.env[acc] = _as_vtensor(spec_call(hook["state"], self, fr, n))

    def exec_try(self, s, fr):
        """try / except / else / finally.  A modelled exception (a `raise` of the library, an IndexError of a concrete list, a torch shape error
        found by the type checker) is handed to the first handler whose class list covers it; everything else propagates."""
        BASES = {"Exception", "BaseException"}
        RUNTIME = {"RuntimeError", "Exception", "BaseException"}

        def handler_for(exc_name, runtime=False):
            for h in s.handlers:
                if h.type is None:
                    return h
                types = h.type.elts if isinstance(h.type, ast.Tuple) else [h.type]
                for t in types:
                    q = self.model.resolve(fr.f.module, t)
                    nm = q.rsplit(".", 1)[-1] if q else norm(t)
                    if nm == exc_name or nm in BASES or (runtime and nm in RUNTIME):
                        return h
            return None
        try:
            try:
                self.exec_block(s.body, fr)
            except Raised as r:
                h = handler_for(r.exc)
                if h is None:
                    raise
                if h.name:
                    fr.env[h.name] = VOpaque("exception:" + r.exc)
                self.exec_block(h.body, fr)
            except TypeViolation as tv:
                h = handler_for("RuntimeError", runtime=True)
                if h is None:
                    raise
                if h.name:
                    fr.env[h.name] = VOpaque("exception:RuntimeError")
                self.exec_block(h.body, fr)
            else:
                self.exec_block(s.orelse, fr)
        finally:
            if s.finalbody:
                self.exec_block(s.finalbody, fr)

    # ------------------------------------------------------------------ expressions
    def ev(self, e, fr) -> Value:
        m = getattr(self, "ev_" + type(e).__name__, None)
        if m is None:
            raise Unmodelled(f"expression {type(e).__name__}")
        return m(e, fr)

    def ev_Constant(self, e, fr):
        return self.const(e.value)

    def ev_Name(self, e, fr):
        if e.id in fr.env:
            return fr.env[e.id]
        if e.id in fr.f.module.globals_assigned and e.id not in fr.f.module.defs and e.id not in fr.f.module.imports:
            gv = fr.f.module.global_consts.get(e.id)
            if gv is not None:
                table = self.eval_global(gv, fr)
                if table is not None:
                    return table
                # a module constant bound once: a number, or the module's logger
                c = _fold_const(gv)
                if c is not None:
                    return self.const(c)
                if isinstance(gv, ast.Call) and (self.model.resolve(fr.f.module, gv.func) or "").startswith("logging."):
                    return VOpaque("logger")
                if isinstance(gv, ast.Call) and (self.model.resolve(fr.f.module, gv.func) or "") == "collections.namedtuple" and len(gv.args) == 2 \
                        and isinstance(gv.args[0], ast.Constant):
                    fl = gv.args[1]
                    names = None
                    if isinstance(fl, (ast.List, ast.Tuple)) and all(isinstance(x, ast.Constant) and isinstance(x.value, str) for x in fl.elts):
                        names = tuple(x.value for x in fl.elts)
                    elif isinstance(fl, ast.Constant) and isinstance(fl.value, str):
                        names = tuple(fl.value.replace(",", " ").split())
                    if names is not None:
                        return VRecordType(str(gv.args[0].value), names)
                if isinstance(gv, ast.Dict) and all(isinstance(k, ast.Constant) for k in gv.keys) and all(isinstance(v, ast.Constant) for v in gv.values):
                    return VConstDict([(k.value, self.const(v.value)) for k, v in zip(gv.keys, gv.values)])
                if isinstance(gv, (ast.Tuple, ast.List, ast.Set)) and all(isinstance(x, ast.Constant) for x in gv.elts):
                    # a module-level table of literals bound once: `_PRECONDITIONERS = (None, 'c', 'r')`
                    items = [self.const(x.value) for x in gv.elts]
                    return VTuple(tuple(items)) if not isinstance(gv, ast.List) else VList(items)
            return VBool(None, f"global {e.id}")       # module-level flag (e.g. C++ backend availability)
        r = self.model.resolve(fr.f.module, e)
        if r == "builtins.Ellipsis":
            return VOpaque("Ellipsis")
        if r is not None:
            if r in self.model.classes:
                return VFunc(r)
            if r in self.model.functions:
                return VFunc(r)
            return VFunc(r)
        raise Raised("NameError", e.id)

    def ev_Tuple(self, e, fr):
        return VTuple(tuple(self.ev(x, fr) for x in e.elts))

    def ev_List(self, e, fr):
        v = VList([self.ev(x, fr) for x in e.elts])
        if self.class_ctx:
            self.class_ctx[-1].local_lists.add(id(v))
        return v

    def ev_JoinedStr(self, e, fr):
        return VStr("")

    def ev_IfExp(self, e, fr):
        if self.truth(self.ev(e.test, fr)):
            return self.ev(e.body, fr)
        return self.ev(e.orelse, fr)

    def ev_BoolOp(self, e, fr):
        if isinstance(e.op, ast.And):
            last = VBool(True)
            for v in e.values:
                last = self.ev(v, fr)
                if not self.truth(last):
                    return VBool(False)
            return VBool(True)
        for v in e.values:
            last = self.ev(v, fr)
            if self.truth(last):
                return VBool(True)
        return VBool(False)

    def ev_UnaryOp(self, e, fr):
        v = self.ev(e.operand, fr)
        if isinstance(e.op, ast.Not):
            return VBool(not self.truth(v))
        if isinstance(e.op, ast.USub):
            if isinstance(v, VInt):
                return VInt(-v.p)
            if isinstance(v, VFloat):
                return VFloat(-v.x)
            if isinstance(v, VScalar):
                return VScalar(v.coef.neg(), v.kind)
            if isinstance(v, VTensor):
                return VTensor(_scale(v.val, Coef(-1)), v.dtype)
            if isinstance(v, VTT):
                return self.call_method(v, "__neg__", [], {}, fr, e)
        if isinstance(e.op, ast.UAdd):
            if isinstance(v, VTT):
                return self.call_method(v, "__pos__", [], {}, fr, e)
            return v
        raise Unmodelled(f"unary {type(e.op).__name__} on {type(v).__name__}")

    def ev_BinOp(self, e, fr):
        if isinstance(e.op, ast.Mod) and isinstance(e.left, ast.Constant) and isinstance(e.left.value, str):
            return VStr("")
        l, r = self.ev(e.left, fr), self.ev(e.right, fr)
        return self.binop(e.op, l, r, fr, e)

    def binop(self, op, l, r, fr, node):
        if isinstance(l, VStr) or isinstance(r, VStr):
            return VStr("")
        if isinstance(op, ast.Add) and isinstance(l, VOpaque) and l.tag.startswith("userint:") and isinstance(r, VInt) and r.p.const_value() is not None:
            return VOpaque(f"userint+:{l.tag.split(':', 1)[1]}:{int(r.p.const_value())}")      # a caller's integer plus a constant
        if self.lenient and (isinstance(l, VOpaque) or isinstance(r, VOpaque)):
            if isinstance(op, (ast.Mult, ast.Div)) and isinstance(l, VTensor) and isinstance(r, VOpaque):
                return VTensor(_scale(l.val, Coef.sym("untyped-scalar")), l.dtype)        # a run-time scalar factor: the shape is what matters here
            if isinstance(op, ast.Mult) and isinstance(r, VTensor) and isinstance(l, VOpaque):
                return VTensor(_scale(r.val, Coef.sym("untyped-scalar")), r.dtype)
            return VOpaque("untyped-expression")
        if isinstance(l, VInt) and isinstance(r, VInt):
            if isinstance(op, ast.Add):
                return VInt(l.p + r.p)
            if isinstance(op, ast.Sub):
                return VInt(l.p - r.p)
            if isinstance(op, ast.Mult):
                return VInt(l.p * r.p)
            if isinstance(op, ast.FloorDiv):
                ca, cb = self.facts.norm(l.p).const_value(), self.facts.norm(r.p).const_value()
                if ca is not None and cb is not None and cb != 0:
                    return VInt(P.const(int(ca) // int(cb)))
                q = self.facts.norm(l.p).div(self.facts.norm(r.p))
                if q is None:
                    # a // b on a path where a % b == 0 was established: a = b * q with a new quantity q >= 1
                    a_, b_ = self.facts.norm(l.p), self.facts.norm(r.p)
                    key = (repr(a_), repr(b_))
                    md = getattr(self, "mods", {}).get(key)
                    if md is not None and self.facts.norm(P.atom(md)) == ZERO and a_.is_monomial() and len(a_.atoms()) == 1 and self.facts.assume_eq is not None:
                        qn = self.fresh_atom(f"({a_!r} div {b_!r})")
                        self.facts.lb[qn] = 1
                        if self.facts.assume_eq(a_, b_ * P.atom(qn), "exact quotient"):
                            return VInt(P.atom(qn))
                    raise Unmodelled(f"inexact symbolic division {l.p!r} // {r.p!r}")
                return VInt(q)
            if isinstance(op, ast.Mod):
                a, b = self.facts.norm(l.p).const_value(), self.facts.norm(r.p).const_value()
                if a is not None and b is not None and b != 0:
                    return VInt(P.const(int(a) % int(b)))
                nm = self.fresh_atom(f"({self.facts.norm(l.p)!r} mod {self.facts.norm(r.p)!r})")
                if not hasattr(self, "mods"):
                    self.mods = {}
                self.mods[(repr(self.facts.norm(l.p)), repr(self.facts.norm(r.p)))] = nm
                self.facts.lb[nm] = 0
                _install_ge(self.facts, r.p - 1 - P.atom(nm), 0)
                return VInt(P.atom(nm))
            if isinstance(op, ast.Pow):
                c = r.p.const_value()
                if c is not None and c >= 0:
                    out = ONE
                    for _ in range(int(c)):
                        out = out * l.p
                    return VInt(out)
            raise Unmodelled(f"integer op {type(op).__name__}")
        if isinstance(l, VIndexSeq) and isinstance(r, VInt) and r.p.const_value() is not None:
            c = int(r.p.const_value())
            if isinstance(op, ast.Mult):
                return VIndexSeq([(n, a * c, b * c) for n, a, b in l.parts])
            if isinstance(op, ast.Add):
                return VIndexSeq([(n, a, b + c) for n, a, b in l.parts])
        # list algebra
        if isinstance(op, ast.Add) and isinstance(l, VList) and isinstance(r, VList) and self.class_ctx:
            v = VList(l.items + r.items)
            self.class_ctx[-1].local_lists.add(id(v))
            return v
        if isinstance(op, ast.Add) and isinstance(l, VList) and isinstance(r, VSeq):
            n = self.facts.norm(r.length).const_value()
            if n is not None:
                return VList(list(l.items) + [r.get(self.facts.norm(r.lo + i)) for i in range(max(0, int(n)))])
        if isinstance(op, ast.Add) and isinstance(l, (VList, VSymList)) and isinstance(r, (VList, VSymList)):
            return _concat_lists(l, r)
        if isinstance(op, ast.Add) and isinstance(l, VTuple) and isinstance(r, VTuple):
            return VTuple(l.items + r.items)
        if isinstance(op, ast.Mult) and (isinstance(l, VList) and isinstance(r, VInt) or isinstance(l, VInt) and isinstance(r, VList)):
            lst, cnt = (l, r) if isinstance(l, VList) else (r, l)
            c = self.facts.norm(cnt.p).const_value()
            if c is not None:
                return VList(list(lst.items) * int(c))
            if len(lst.items) == 1 and isinstance(lst.items[0], VNone):
                # [None] * d: a list to be filled position by position (`X[i] = ...` inside `for i in range(d)`)
                v = VList([])
                v.prealloc = self.facts.norm(cnt.p)
                return v
            if len(lst.items) == 1:
                x = lst.items[0]
                return VSeq("rep", cnt.p, lambda k, x=x: x)
            raise Unmodelled("symbolic list repetition")
        if isinstance(op, ast.Mult) and (isinstance(l, VTuple) and isinstance(r, VInt)):
            c = self.facts.norm(r.p).const_value()
            if c is not None:
                return VTuple(tuple(list(l.items) * int(c)))
            if len(l.items) == 1:
                return VSeq("rep", r.p, lambda k, x=l.items[0]: x)
            raise Unmodelled("symbolic tuple repetition")
        if isinstance(op, ast.Add) and isinstance(l, VTuple) and isinstance(r, VSeq) or isinstance(l, VSeq) and isinstance(r, VTuple):
            return _concat_seq(self, l, r)
        # TT operands: operator dunders
        if isinstance(l, VTT) or isinstance(r, VTT):
            name = {ast.Add: "add", ast.Sub: "sub", ast.Mult: "mul", ast.Div: "truediv", ast.MatMult: "matmul", ast.Pow: "pow"}.get(type(op))
            if name is None:
                raise Unmodelled("operator on TT")
            if isinstance(l, VTT):
                return self.call_method(l, f"__{name}__", [r], {}, fr, node)
            return self.call_method(r, f"__r{name}__", [l], {}, fr, node)
        # scalars
        sl, sr = _as_coef(l), _as_coef(r)
        if isinstance(l, VFloat) and l.x == 0 and isinstance(op, (ast.Mult, ast.Div)) and sr is not None:
            return VFloat(0.0)
        if sl is not None and sr is not None and not isinstance(l, VTensor) and not isinstance(r, VTensor):
            if isinstance(op, ast.Mult):
                return VScalar(sl * sr)
            if isinstance(op, ast.Div):
                try:
                    return VScalar(sl * sr.inv())
                except ZeroDivisionError:
                    raise TypeViolation(f"division by a quantity that is exactly zero here (`{norm(node)[:70]}`): ZeroDivisionError for python numbers, "
                                        "an infinite / undefined value for numpy and torch scalars - a tolerance computed this way truncates everything")
            if isinstance(op, ast.Pow) and isinstance(r, VFloat) and r.x == 0.5 and isinstance(l, (VInt, VFloat, VScalar)):
                from .torchmodel import _sqrt_scalar
                return _sqrt_scalar(l)      # x ** 0.5
            if isinstance(op, ast.Pow) and isinstance(r, VInt) and r.p.const_value() is not None and 0 <= int(r.p.const_value()) <= 4:
                out = Coef()
                for _ in range(int(r.p.const_value())):
                    out = out * sl
                return VScalar(out)      # s ** 2 of a symbolic scalar: the product
            if isinstance(l, VFloat) and isinstance(r, VFloat):
                if isinstance(op, ast.Add):
                    return VFloat(l.x + r.x)
                if isinstance(op, ast.Sub):
                    return VFloat(l.x - r.x)
            raise Unmodelled(f"scalar op {type(op).__name__} on symbolic scalars")
        # tensors
        if isinstance(l, VTensor) or isinstance(r, VTensor):
            return self.tensor_binop(op, l, r, node)
        raise Unmodelled(f"binary {type(op).__name__} on {type(l).__name__}, {type(r).__name__}")

    def tensor_binop(self, op, l, r, node):
        if isinstance(op, ast.MatMult):
            a, b = l.dense(), r.dense()
            if a.ndim() == 2 and b.ndim() == 2:
                return VTensor(net.einsum(self.sp, "ij,jk->ik", [a, b]), l.dtype)
            if a.ndim() == 3 and b.ndim() == 3:
                return VTensor(net.einsum(self.sp, "bij,bjk->bik", [a, b]), l.dtype)
            from .torchmodel import function
            return function(self, "torch.matmul", [l, r], {}, None, node)
        if isinstance(op, (ast.Mult, ast.Div)):
            for t, s, tensor_left in ((l, r, True), (r, l, False)):
                c = _as_coef(s)
                if isinstance(t, VTensor) and c is not None and not isinstance(s, VTensor):
                    if isinstance(op, ast.Div):
                        if not tensor_left:
                            d = t.dense()
                            rec = net.recip_atom(self.sp, d)
                            return VTensor(_scale(rec, c), t.dtype)
                        c = c.inv()
                    return VTensor(_scale(t.val, c), t.dtype)
            if isinstance(l, VTensor) and isinstance(r, VTensor):
                # tensor * tensor: only scalar-like (0-dim or all-unit) operands are modelled as coefficients
                for t, s in ((l, r), (r, l)):
                    c = _tensor_as_coef(self.sp, s)
                    if c is not None:
                        if isinstance(op, ast.Div) and s is l:
                            raise Unmodelled("scalar / tensor")
                        return VTensor(_scale(t.val, c if isinstance(op, ast.Mult) else c.inv()), t.dtype)
                a, b = l.dense(), r.dense()
                if isinstance(op, ast.Mult) and a.ndim() != b.ndim() and min(a.ndim(), b.ndim()) >= 1:
                    # torch broadcasting: the operand with fewer axes gets leading unit axes
                    while a.ndim() < b.ndim():
                        a = net.insert_axis(a, 0)
                    while b.ndim() < a.ndim():
                        b = net.insert_axis(b, 0)
                if isinstance(op, ast.Mult) and a.ndim() == b.ndim():
                    return VTensor(net.mul_elementwise(self.sp, a, b), l.dtype)
                if isinstance(op, ast.Div) and a.ndim() == b.ndim() and a.ndim() >= 1:
                    # a / b entry by entry: a times the entrywise reciprocal of b (same broadcasting, same size identifications)
                    return VTensor(net.mul_elementwise(self.sp, a, net.recip_atom(self.sp, b)), l.dtype)
                raise Unmodelled("elementwise product of tensors")
        if isinstance(op, (ast.Add, ast.Sub)):
            if isinstance(l, VTensor) and isinstance(r, VTensor):
                rv = r.val if isinstance(op, ast.Add) else _scale(r.val, Coef(-1))
                if not isinstance(l.val, Block) and not isinstance(rv, Block) and l.val.terms and rv.terms and l.val.ndim() != rv.ndim():
                    big, small = (l.val, rv) if l.val.ndim() > rv.ndim() else (rv, l.val)
                    k = big.ndim() - small.ndim()
                    padded = Dense(self.sp, [Term(t.coef, t.atoms, [()] * k + list(t.out)) for t in small.terms])
                    return VTensor(big.add(padded), l.dtype, l.counts if big is l.val else r.counts)
                if isinstance(l.val, Block) or isinstance(rv, Block):
                    lb = l.val if isinstance(l.val, Block) else Block.of_dense(l.val)
                    rb = rv if isinstance(rv, Block) else Block.of_dense(rv)
                    return VTensor(lb.add(rb), l.dtype)
                return VTensor(l.val.add(rv), l.dtype)
            # tensor + 0 (copy idiom)
            for t, s in ((l, r), (r, l)):
                if isinstance(t, VTensor) and isinstance(s, (VInt, VFloat)):
                    z = s.p.const_value() if isinstance(s, VInt) else s.x
                    if z == 0:
                        return t
            raise Unmodelled("tensor +/- non-tensor")
        raise Unmodelled(f"tensor op {type(op).__name__}")

    def ev_Compare(self, e, fr):
        if len(e.ops) != 1:
            # chained comparison a <= b < c
            left = self.ev(e.left, fr)
            res = VBool(True)
            for op, c in zip(e.ops, e.comparators):
                right = self.ev(c, fr)
                r = self.compare(op, left, right, e)
                if not self.truth(r):
                    return VBool(False)
                left = right
            return VBool(True)
        l, r = self.ev(e.left, fr), self.ev(e.comparators[0], fr)
        return self.compare(e.ops[0], l, r, e)

    def compare(self, op, l, r, node):
        if isinstance(op, (ast.Is, ast.IsNot, ast.Eq, ast.NotEq)):
            for a, b in ((l, r), (r, l)):
                if isinstance(a, VOpaque) and a.tag.startswith("slicefield:") and isinstance(b, VNone):
                    # a field of the caller's slice against None: not known - a fork that records its outcome
                    from .torchmodel import slicefield_atom
                    _, nm, field = a.tag.split(":")
                    at = slicefield_atom(nm, field)
                    pos = isinstance(op, (ast.Is, ast.Eq))
                    known = self.facts.norm(at).const_value()
                    if known is not None:
                        return VBool((known == 1) == pos)
                    vb = VBool(None, f"{nm}.{field} is None", lambda f: f.assume_eq(at, ONE, "guard"), lambda f: f.assume_eq(at, ZERO, "guard"))
                    return vb if pos else _negate(vb)
        if isinstance(op, (ast.Is, ast.IsNot)):
            same = isinstance(l, VNone) and isinstance(r, VNone)
            if isinstance(r, VNone) or isinstance(l, VNone):
                return VBool(same if isinstance(op, ast.Is) else not same)
            if isinstance(l, VOpaque) and isinstance(r, VOpaque):
                eq = l.tag == r.tag
                return VBool(eq if isinstance(op, ast.Is) else not eq)
            # `x is True` for a value that is a bool: the bool singletons are compared by value
            for a, b in ((l, r), (r, l)):
                if isinstance(b, VBool) and b.v is not None and isinstance(a, VBool):
                    t = self.truth(a)
                    return VBool((t == b.v) if isinstance(op, ast.Is) else (t != b.v))
                if isinstance(b, VBool) and b.v is not None and isinstance(a, (VInt, VFloat, VStr, VList, VTuple, VTensor, VTT)):
                    return VBool(not isinstance(op, ast.Is))
            raise Unmodelled("identity comparison")
        if isinstance(op, (ast.In, ast.NotIn)):
            return self.membership(op, l, r, node)
        sym = {ast.Eq: "==", ast.NotEq: "!=", ast.Lt: "<", ast.LtE: "<=", ast.Gt: ">", ast.GtE: ">="}[type(op)]
        if sym in ("==", "!=") and any(isinstance(x, VOpaque) and x.tag.startswith("grad_fn?") for x in (l, r)) and any(isinstance(x, VNone) for x in (l, r)):
            g = l if isinstance(l, VOpaque) else r
            tracked = VBool(None, "autograd tracking: grad_fn of " + g.tag[len("grad_fn?"):])
            return tracked if sym == "!=" else _negate(tracked)
        if isinstance(l, VNone) or isinstance(r, VNone):
            both = isinstance(l, VNone) and isinstance(r, VNone)
            if sym in ("==", "!="):
                return VBool(both if sym == "==" else not both)
        if isinstance(l, VInt) and isinstance(r, VInt):
            c = self.facts.compare(l.p, sym, r.p)
            if c is not None:
                return VBool(c)
            a, b = self.facts.norm(l.p), self.facts.norm(r.p)
            key = f"{a!r} {sym} {b!r}"
            vb = VBool(None, key, *_int_fact_installers(sym, a, b))
            if sym in ("==", "!="):
                vb.rel = (sym, a, b)
            vb.cmp = (sym, a, b)      # re-examined when the condition is finally branched on: facts learnt in between may decide it
            return vb
        if isinstance(l, VBool) and isinstance(r, VBool) and sym in ("==", "!="):
            a, b = self.truth(l), self.truth(r)
            return VBool((a == b) if sym == "==" else (a != b))
        if isinstance(l, VStr) and isinstance(r, VStr) and sym in ("==", "!="):
            return VBool((l.s == r.s) if sym == "==" else (l.s != r.s))
        if sym in ("==", "!="):
            sq = self.seq_compare(l, r)
            if sq is not None:
                return _negate(sq) if sym == "!=" else sq
        if isinstance(l, VScalar) or isinstance(r, VScalar):
            o = r if isinstance(l, VScalar) else l
            if isinstance(o, (VInt, VFloat)) and sym in ("==", "!="):
                z = o.p.const_value() if isinstance(o, VInt) else o.x
                if z == 0:
                    s = l if isinstance(l, VScalar) else r
                    if s.coef.c == 0:
                        return VBool(sym == "==")
                    key = "scalar == 0"
                    return VBool(None, key) if sym == "==" else _negate(VBool(None, key))
        if isinstance(l, VOpaque) and isinstance(r, VOpaque) and sym in ("==", "!="):
            return VBool((l.tag == r.tag) == (sym == "=="))
        if isinstance(l, (VTT, VTensor, VList, VTuple, VSymList, VSeq)) and isinstance(r, VOpaque) and sym in ("==", "!="):
            return VBool(sym == "!=")
        if isinstance(l, VOpaque) and sym in ("==", "!="):
            return VBool(sym == "!=")
        if isinstance(l, VFloat) and isinstance(r, VInt) and r.p.const_value() is not None:
            r = VFloat(float(r.p.const_value()))
        if isinstance(l, VInt) and isinstance(r, VFloat) and l.p.const_value() is not None:
            l = VFloat(float(l.p.const_value()))
        if (isinstance(l, VInt) and isinstance(r, (VFloat, VScalar)) or isinstance(l, (VFloat, VScalar)) and isinstance(r, VInt)
                or isinstance(l, VScalar) and isinstance(r, VFloat) or isinstance(l, VFloat) and isinstance(r, VScalar)):
            def show(v):
                return repr(self.facts.norm(v.p)) if isinstance(v, VInt) else (repr(v.x) if isinstance(v, VFloat) else v.coef.show())
            return VBool(None, f"{show(l)} {sym} {show(r)}")
        if isinstance(l, VFloat) and isinstance(r, VFloat):
            return VBool({"==": l.x == r.x, "!=": l.x != r.x, "<": l.x < r.x, "<=": l.x <= r.x, ">": l.x > r.x, ">=": l.x >= r.x}[sym])
        for v in (l, r):
            if isinstance(v, VFunc) and v.dotted not in self.model.functions and v.dotted not in self.model.classes \
                    and any(v.dotted.startswith(c + ".") for c in self.model.classes):
                # an attribute of a repository class that is neither a method nor a nested class (a class-level constant, an enum member): unknown
                raise Unmodelled(f"comparison with the class attribute {v.dotted}")
        if sym in ("==", "!=") and type(l) is not type(r) and isinstance(l, (VSlice, VNone, VOpaque, VStr, VTuple, VList, VInt)) \
                and isinstance(r, (VSlice, VNone, VOpaque, VStr, VTuple, VList, VInt, VFunc)):
            # values of different kinds are never equal (slice vs Ellipsis, int vs None, ...)
            if not ((isinstance(l, VOpaque) and l.tag.startswith("user")) or (isinstance(r, VOpaque) and r.tag.startswith("user"))) \
                    or isinstance(l, (VSlice, VNone)) or isinstance(r, (VSlice, VNone)) or (isinstance(r, VOpaque) and r.tag == "Ellipsis") \
                    or (isinstance(l, VOpaque) and l.tag == "Ellipsis"):
                return VBool(sym == "!=")
        raise Unmodelled(f"comparison {sym} of {type(l).__name__} and {type(r).__name__}")

    def seq_compare(self, l, r):
        """Equality of two integer sequences (N == other.N, list(shape)[-d:], slices)."""
        a, b = _as_seq(self, l), _as_seq(self, r)
        if a is None or b is None:
            return None
        (na, la, ga, ida), (nb, lb, gb, idb) = a, b
        if ida is not None and ida == idb:
            return VBool(True)
        la, lb = self.facts.norm(la), self.facts.norm(lb)
        ca, cb = la.const_value(), lb.const_value()
        if ca is not None and cb is not None:
            if ca != cb:
                return VBool(False)
            res_unknown = []
            for k in range(int(ca)):
                x, y = ga(P.const(k)), gb(P.const(k))
                if isinstance(x, VInt) and isinstance(y, VInt):
                    c = self.facts.compare(x.p, "==", y.p)
                    if c is False:
                        return VBool(False)
                    if c is None:
                        res_unknown.append((x.p, y.p))
                else:
                    raise Unmodelled("comparison of non-integer sequences")
            if not res_unknown:
                return VBool(True)
            key = " and ".join(f"{self.facts.norm(x)!r} == {self.facts.norm(y)!r}" for x, y in res_unknown)

            def on_true(f, pairs=res_unknown):
                for x, y in pairs:
                    f.assume_eq(x, y, "sequence equality")
            return VBool(None, key, on_true, None)
        key = f"seq {na} == seq {nb}"
        sla, slb = _slice_info(l), _slice_info(r)

        def on_true(f, na=na, nb=nb, la=la, lb=lb, ida=ida, idb=idb, sla=sla, slb=slb):
            f.assume_eq(la, lb, f"{key}: lengths")
            if sla is not None and slb is not None and f.eq(sla[1], slb[1]) and (ida is None or idb is None):
                # equal slices of two mode sequences: elementwise equality on that index range
                f.add_partial(slb[0], sla[0], sla[1], sla[1] + la, key)
            if ida is not None and idb is not None:
                ra, rb = f.seq_rep(ida), f.seq_rep(idb)
                if ra != rb:
                    f.seq[rb] = ra
                    f.log.append(f"seq {rb} := {ra}")
        return VBool(None, key, on_true, None)

    def membership(self, op, l, r, node):
        neg = isinstance(op, ast.NotIn)
        if isinstance(r, VConstDict):
            ok, key = self.literal_key(l)
            if not ok:
                raise Unmodelled("membership of a non-literal key in a table")
            return VBool((r.lookup(key) is not None or any(type(k) is type(key) and k == key for k, _ in r.items)) != neg)
        if isinstance(r, (VList, VTuple)) and isinstance(l, (VNone, VStr)) and all(isinstance(x, (VNone, VStr, VInt, VFloat, VBool)) for x in r.items):
            hit = any((isinstance(l, VNone) and isinstance(x, VNone)) or (isinstance(l, VStr) and isinstance(x, VStr) and l.s == x.s) for x in r.items)
            return VBool(hit != neg)
        if isinstance(r, (VList, VTuple)) and isinstance(l, VInt) and all(isinstance(x, VInt) for x in r.items):
            any_unknown = False
            for x in r.items:
                c = self.facts.compare(l.p, "==", x.p)
                if c is True:
                    return VBool(not neg)
                if c is None:
                    any_unknown = True
            if not any_unknown:
                return VBool(neg)
            raise Unmodelled("membership with undecidable element equality")
        if isinstance(r, VOpaque) and isinstance(l, VInt):
            key = f"{self.facts.norm(l.p)!r} in {r.tag}"
            b = VBool(None, key)
            return _negate(b) if neg else b
        raise Unmodelled(f"membership test in {type(r).__name__}")

    def ev_ListComp(self, e, fr):
        if len(e.generators) > 1:
            # [f(x, y) for x in xs for y in g(x)] over concrete sequences: the concatenation of the inner comprehensions
            g0 = e.generators[0]
            outer = self.ev(g0.iter, fr)
            if not isinstance(outer, (VList, VTuple)):
                raise Unmodelled("nested comprehension over a symbolic sequence")
            inner = ast.copy_location(ast.ListComp(elt=e.elt, generators=e.generators[1:]), e)
            out = []
            for x in outer.items:
                fr2 = Frame(fr.f, dict(fr.env))
                self.assign(g0.target, x, fr2)
                if all(self.truth(self.ev(c, fr2)) for c in g0.ifs):
                    part = self.ev_ListComp(inner, fr2)
                    if not isinstance(part, VList):
                        raise Unmodelled("nested comprehension with a symbolic inner sequence")
                    out += part.items
            v = VList(out)
            if self.class_ctx:
                self.class_ctx[-1].local_lists.add(id(v))
            return v
        g = e.generators[0]
        it = self.ev(g.iter, fr)
        if isinstance(it, VSymList) and not g.ifs:
            return self.map_symlist(it, g.target, e.elt, fr)
        sl = self.sym_length(it) if not isinstance(it, (VList, VTuple)) else None
        if sl is not None:
            n, getter = sl
            mode = self.position_classes(n, f"comprehension over `{norm(g.iter)[:40]}`")
            if mode == "empty":
                return VList([])
            if mode == "classes":
                iv = self.fresh_atom(_target_name(g.target))
                entries = []
                base = self.facts
                for label, k in (("first", ZERO), ("interior", P.atom(iv)), ("last", n - 1)):
                    self.facts = base.copy()
                    self.sp.facts = self.facts
                    if label == "interior":
                        self.facts.lb[iv] = 1
                        _install_ge(self.facts, n - 2 - P.atom(iv), 0)
                    fr2 = Frame(fr.f, dict(fr.env))
                    self.assign(g.target, getter(k), fr2)
                    ok = all(self.truth(self.ev(c, fr2)) for c in g.ifs)
                    if g.ifs:
                        raise Unmodelled("filtered comprehension over a symbolic range")
                    entries.append(ClassEntry(label, k, [self.ev(e.elt, fr2)], [], self.facts))
                self.facts = base
                self.sp.facts = base
                seg = Segment("loop", n, entries, iv)
                env_snapshot = dict(fr.env)

                def regen(p, g=g, e=e, getter=getter, env_snapshot=env_snapshot, f=fr.f):
                    fr3 = Frame(f, dict(env_snapshot))
                    self.assign(g.target, getter(self.facts.norm(P.of(p))), fr3)
                    return self.ev(e.elt, fr3)
                seg.regen = regen
                return VSymList([seg])
            it = self.ev(g.iter, fr)
        out = []
        for x in self.iter_concrete(it):
            fr2 = Frame(fr.f, dict(fr.env))
            self.assign(g.target, x, fr2)
            if all(self.truth(self.ev(c, fr2)) for c in g.ifs):
                out.append(self.ev(e.elt, fr2))
        v = VList(out)
        if self.class_ctx:
            self.class_ctx[-1].local_lists.add(id(v))
        return v

    ev_GeneratorExp = ev_ListComp

    def ev_GeneratorExp(self, e, fr):
        return self.ev_ListComp(e, fr)

    def map_symlist(self, lst: VSymList, target, elt, fr):
        """[f(c) for c in <list built in a symbolic loop>]: map every position class."""
        segs = []
        base = self.facts
        overrides = list(getattr(lst, "overrides", []) or [])
        off = ZERO
        for sgm in lst.segments:
            if sgm.kind == "concrete":
                items = []
                for k, x in enumerate(sgm.entries):
                    for o_idx, v in reversed(overrides):
                        if base.eq(o_idx, off + k):
                            x = v
                            break
                    fr2 = Frame(fr.f, dict(fr.env))
                    self.assign(target, x, fr2)
                    items.append(self.ev(elt, fr2))
                segs.append(Segment("concrete", sgm.length, items))
            else:
                ents = []
                for ent in sgm.entries:
                    if ent.raised:
                        ents.append(ent)
                        continue
                    self.facts = ent.facts.copy() if ent.facts is not None else base.copy()
                    outs = []
                    for x in ent.items:
                        for o_idx, v in reversed(overrides):
                            if self.facts.eq(o_idx, off + ent.index):
                                x = v
                                break
                        fr2 = Frame(fr.f, dict(fr.env))
                        self.assign(target, x, fr2)
                        outs.append(self.ev(elt, fr2))
                    ents.append(ClassEntry(ent.label, ent.index, outs, list(ent.decisions), self.facts))
                    self.facts = base
                segs.append(Segment("loop", sgm.length, ents, sgm.var))
            off = off + sgm.length
        return VSymList(segs)

    def ev_Slice(self, e, fr):
        return VSlice(self.ev(e.lower, fr) if e.lower else None, self.ev(e.upper, fr) if e.upper else None,
                      self.ev(e.step, fr) if e.step else None)

    def ev_Attribute(self, e, fr):
        base = self.ev(e.value, fr)
        from .torchmodel import attribute
        return attribute(self, base, e.attr, fr, e)

    def ev_Subscript(self, e, fr):
        base = self.ev(e.value, fr)
        idx = self.ev(e.slice, fr)
        from .torchmodel import subscript
        return subscript(self, base, idx, fr, e)

    def ev_Call(self, e, fr):
        from .torchmodel import call
        return call(self, e, fr)

    def eval_global(self, gv, fr, depth=0):
        """value of a module-level table bound once: displays (nested) of literals, of names of classes / functions (`(int, float, tn.Tensor)`),
        dictionaries with literal keys; None when the expression is anything else"""
        if depth > 3:
            return None
        if isinstance(gv, ast.Constant):
            return None if depth == 0 else self.const(gv.value)       # plain constants are handled by the caller
        if isinstance(gv, (ast.Tuple, ast.List)):
            items = [self.eval_global(x, fr, depth + 1) for x in gv.elts]
            if any(x is None for x in items) or not items:
                return None
            return VTuple(tuple(items)) if isinstance(gv, ast.Tuple) else VList(items)
        if isinstance(gv, ast.Dict):
            items = []
            for k, v in zip(gv.keys, gv.values):
                if isinstance(k, ast.Constant):
                    key = k.value
                elif isinstance(k, ast.Tuple) and all(isinstance(x, ast.Constant) for x in k.elts):
                    key = tuple(x.value for x in k.elts)         # ('AB', True): a tuple of literals
                else:
                    return None
                val = self.eval_global(v, fr, depth + 1)
                if val is None:
                    return None
                items.append((key, val))
            return VConstDict(items)
        if isinstance(gv, (ast.Name, ast.Attribute)) and depth > 0:
            r = self.model.resolve(fr.f.module, gv)
            return VFunc(r) if r is not None else None
        if isinstance(gv, ast.UnaryOp) and isinstance(gv.op, ast.USub) and isinstance(gv.operand, ast.Constant) and depth > 0:
            return self.const(-gv.operand.value)
        return None

    @staticmethod
    def literal_key(v):
        """(True, python value) for a literal dictionary key, else (False, None)"""
        if isinstance(v, VTuple):
            parts = [Interp.literal_key(x) for x in v.items]
            if all(ok for ok, _ in parts):
                return True, tuple(val for _, val in parts)
            return False, None
        if isinstance(v, VNone):
            return True, None
        if isinstance(v, VStr):
            return True, v.s
        if isinstance(v, VBool) and v.v is not None:
            return True, bool(v.v)
        if isinstance(v, VInt) and v.p.const_value() is not None:
            return True, int(v.p.const_value())
        return False, None

    def ev_Dict(self, e, fr):
        items = []
        for k, v in zip(e.keys, e.values):
            if k is None:
                raise Unmodelled("dictionary unpacking in a display")
            ok, key = self.literal_key(self.ev(k, fr))
            if not ok:
                raise Unmodelled("dictionary with a key that is not a literal")
            items.append((key, self.ev(v, fr)))
        return VConstDict(items)

    def ev_Lambda(self, e, fr):
        # a lambda is a closure whose body is one return
        fn = ast.FunctionDef(name="<lambda>", args=e.args, body=[ast.copy_location(ast.Return(value=e.body), e)], decorator_list=[], returns=None, type_comment=None,
                             type_params=[])
        ast.copy_location(fn, e)
        ast.fix_missing_locations(fn)
        return VClosure(Func(f"{fr.f.qual}.<locals>.<lambda>", fr.f.module, fn, None), fr.env)

    def ev_Starred(self, e, fr):
        raise Unmodelled("starred expression")

    # ------------------------------------------------------------------ methods on TT values
    def call_method(self, recv: VTT, name: str, args, kwargs, fr, node):
        q = f"torchtt._tt_base.TT.{name}"
        f = self.model.functions.get(q)
        if f is None:
            raise Raised("AttributeError", name)
        hook = self.hooks.get(("method", name))
        if hook is not None:
            return hook(self, recv, args, kwargs, fr, node)
        return self.call_function(f, args, kwargs, recv=recv)

    def tensor_setitem(self, base: VTensor, sl, v, fr):
        from .torchmodel import setitem
        setitem(self, base, sl, v, fr)


@dataclass
class Frame:
    f: Func
    env: dict


class ClassCtx:
    def __init__(self, label, k):
        self.label, self.k = label, k
        self.appended = {}
        self.stores = []
        self.local_lists = set()


# --------------------------------------------------------------------------- small helpers

def _read_before_write(body, name):
    """may `name` be read in the loop body before it is assigned in the same iteration?"""
    from ..flow import DefAssign
    fn = ast.FunctionDef(name="_body", args=ast.arguments(posonlyargs=[], args=[], kwonlyargs=[], kw_defaults=[], defaults=[]),
                         body=list(body), decorator_list=[], lineno=1, col_offset=0)
    bad = DefAssign(fn, {}, set()).run()
    return any(u.name == name for u in bad)


def _as_vtensor(x):
    return x if isinstance(x, VTensor) else VTensor(x, "acc")


def _load(t):
    import copy
    t2 = copy.copy(t)
    t2.ctx = ast.Load()
    return t2


def _target_name(t):
    if isinstance(t, ast.Name):
        return t.id
    if isinstance(t, ast.Tuple):
        return "_".join(_target_name(x) for x in t.elts)
    return "it"


def _loop_ordinal(f: Func, s):
    k = 0
    for n in ast.walk(f.node):
        if isinstance(n, ast.For):
            if n is s:
                return k
            k += 1
    return -1


def _scale(val, c: Coef):
    return val.scale(c)


def _as_coef(v):
    if isinstance(v, VScalar):
        return v.coef
    if isinstance(v, VInt):
        c = v.p.const_value()
        if c is not None:
            return Coef(c)
        from .net import _size_coef
        sc = _size_coef(v.p)
        return sc if sc is not None else Coef.sym("(" + repr(v.p) + ")")
    if isinstance(v, VFloat):
        from fractions import Fraction
        return Coef(Fraction(v.x).limit_denominator(10 ** 12))
    return None


def _tensor_as_coef(sp, v):
    if not isinstance(v, VTensor):
        return None
    try:
        d = v.dense()
    except Unmodelled:
        return None
    if len(d.terms) != 1:
        return None
    t = d.terms[0]
    if t.atoms:
        # a 0-dim / unit tensor made of a single scalar-like atom
        if all(a.name.startswith("scalar:") for a in t.atoms) and all(not [w for w in ax if not sp.is_unit(w)] for ax in t.out):
            c = t.coef
            for a in t.atoms:
                c = c * Coef.sym(a.name[len("scalar:"):])
            return c
        return None
    if all(not [w for w in ax if not sp.is_unit(w)] for ax in t.out):
        return t.coef
    return None


def _negate(b: VBool):
    if b.v is not None:
        return VBool(not b.v)
    if isinstance(b, _NegBool):
        return b.inner
    return _NegBool(b)


class _NegBool(VBool):
    """negation of an unknown condition that shares the decision with the positive form"""

    def __init__(self, b: VBool):
        super().__init__(None, b.key, None, None)
        self.inner = b


# truth() must understand _NegBool: patch in by wrapping Interp.truth
_orig_truth = Interp.truth


def _truth(self, v, ctxnode=None):
    if isinstance(v, _NegBool):
        return not _orig_truth(self, v.inner)
    return _orig_truth(self, v, ctxnode)


Interp.truth = _truth


def _install_ge(facts: Facts, p: P, bound: int):
    """record p >= bound as a relation usable by sign tests: some atom with coefficient +1 := (rest) + bound + fresh>=0"""
    p = facts.norm(P.of(p))
    for k, v in p.t.items():
        if len(k) == 1 and k[0][1] == 1 and v == 1:
            a = k[0][0]
            rest = p - P.atom(a)
            if a in rest.atoms():
                continue
            fresh = "~g%d" % (len(facts.rel) + 1)
            facts.lb[fresh] = 0
            facts.rel.append((a, P.const(bound) + P.atom(fresh) - rest))
            facts.log.append(f"{p!r} >= {bound}")
            return True
    # c - atom >= bound  <=>  atom - (c - bound) <= 0 : pins the atom when its lower bound is reached
    _pin_if_tight(facts, P.const(bound) - p)
    return False


def _pin_if_tight(facts: Facts, p: P):
    """p <= 0 with p = atom - c and lower bound of the atom equal to c: the atom is pinned to c"""
    p = facts.norm(P.of(p))
    atoms = list(p.atoms())
    if len(atoms) != 1:
        return
    a = atoms[0]
    rest = p - P.atom(a)
    c = rest.const_value()
    if c is None:
        return
    if facts.lower(a) == -c:
        facts.set_sub(a, P.const(-c), "pinned by bounds")


def _solve_eq(facts: Facts, p: P, value: int):
    p = facts.norm(P.of(p))
    for k, v in p.t.items():
        if len(k) == 1 and k[0][1] == 1 and abs(v) == 1:
            a = k[0][0]
            rest = p - P({k: v})
            if a in rest.atoms():
                continue
            facts.set_sub(a, (P.const(value) - rest) * int(v), "solved")
            return True
    return False


def _int_fact_installers(sym, a: P, b: P):
    def eq(f):
        if not f.assume_eq(a, b, "guard"):
            _solve_eq(f, a - b, 0)

    def ge(x, y, strict):
        def g(f):
            _install_ge(f, x - y, 1 if strict else 0)
        return g
    if sym == "==":
        return eq, None
    if sym == "!=":
        return None, eq
    if sym == "<":
        return ge(b, a, True), ge(a, b, False)
    if sym == "<=":
        return ge(b, a, False), ge(a, b, True)
    if sym == ">":
        return ge(a, b, True), ge(b, a, False)
    if sym == ">=":
        return ge(a, b, False), ge(b, a, True)
    return None, None


def _as_seq(it: Interp, v):
    """(name, length, getter, identity) for integer sequences"""
    if isinstance(v, VSeq):
        ident = it.facts.seq_rep(v.name) if v.lo == ZERO and v.name.startswith(("N_", "M_", "R_")) and getattr(v, "full", True) else None
        return (v.name, v.length, lambda k, v=v: v.get(it.facts.norm(v.lo + k)), ident if getattr(v, "whole", True) else None)
    if isinstance(v, (VList, VTuple)):
        items = list(v.items)
        if all(isinstance(x, VInt) for x in items):
            return ("list", P.const(len(items)), lambda k, items=items: items[int(k.const_value())], None)
        return None
    return None


def _slice_info(v):
    """(base sequence name, offset) for (slices of) mode-size sequences"""
    if isinstance(v, VSeq):
        base = getattr(v, "base", v.name)
        if base.startswith(("N_", "M_")):
            return base, v.lo
    return None


def _concat_lists(l, r):
    def segs(v):
        if isinstance(v, VList):
            return [Segment("concrete", P.const(len(v.items)), list(v.items))] if v.items else []
        return list(v.segments)
    if isinstance(l, VList) and isinstance(r, VList):
        return VList(l.items + r.items)
    return VSymList(segs(l) + segs(r))


def _concat_seq(it, l, r):
    raise Unmodelled("concatenation of a tuple with a symbolic sequence")
