"""Specification helpers: building expected abstract values and comparing them with computed ones."""
from __future__ import annotations

from dataclasses import dataclass, field
from fractions import Fraction

from . import net
from .net import Dense, Block, Coef, COEF1, Term, Atom, Space, Unmodelled, TypeViolation
from .sym import P, ONE, ZERO, Facts
from .values import *
from .torchmodel import core_atom, rank_atom, mode_atom


class SpecIt:
    """Minimal interpreter-like context (space + facts) for building expected values."""

    def __init__(self, sp: Space, facts: Facts):
        self.sp = sp
        sp.facts = facts
        self.info = []

    @property
    def facts(self):
        return self.sp.facts

    def core(self, tt: VTT, k, conj=False) -> Dense:
        d = core_atom(self, tt, P.of(k)).dense()
        return d.conj() if conj else d


def expr(it, operands, out_groups, coef: Coef = COEF1) -> Dense:
    """operands: list of (Dense, 'letters'); out_groups: list of letter strings, each one output axis (merged, row-major).
    The wiring is written from the mathematical definition of the operation."""
    subs = ",".join(l for _, l in operands)
    flat = "".join(out_groups)
    d = net.einsum(it.sp, subs + "->" + flat, [t for t, _ in operands])
    ts = []
    for term in d.terms:
        out, pos = [], 0
        for g in out_groups:
            ax = ()
            for _ in g:
                ax = ax + tuple(term.out[pos])
                pos += 1
            out.append(ax)
        ts.append(Term(term.coef * coef, term.atoms, out))
    return Dense(it.sp, ts)


def diag_block(it, items, nmodes: int, share_left: bool, share_right: bool) -> Block:
    """Sum-strand core (Lemma 2): items = list of Dense cores (axes: left bond, modes..., right bond), placed block
    diagonally on the bond axes; mode axes are shared.  With share_left the left bonds (all of size 1) coincide."""
    sp = it.sp
    n = nmodes + 2
    blocks = {}
    parts = [[] for _ in range(n)]
    for j, d in enumerate(items):
        shp = d.shape()
        key = []
        for ax in range(n):
            if ax == 0:
                if share_left:
                    if j == 0:
                        parts[0].append(shp[0])
                    key.append(0)
                else:
                    parts[0].append(shp[0])
                    key.append(j)
            elif ax == n - 1:
                if share_right:
                    if j == 0:
                        parts[ax].append(shp[ax])
                    key.append(0)
                else:
                    parts[ax].append(shp[ax])
                    key.append(j)
            else:
                if j == 0:
                    parts[ax].append(shp[ax])
                key.append(0)
        key = tuple(key)
        if key in blocks:
            blocks[key] = blocks[key].add(d)
        else:
            blocks[key] = d
    return Block(sp, parts, blocks)


def as_block(v) -> Block:
    if isinstance(v, VTensor):
        return v.block()
    if isinstance(v, Block):
        return v
    if isinstance(v, Dense):
        return Block.of_dense(v)
    raise Unmodelled(f"not a tensor: {type(v).__name__}")


def block_terms(sp: Space, b: Block):
    """{block key: sorted list of (coef, canonical net string)} and the partition strings."""
    out = {}
    # segments of size exactly 0 hold no entries: drop them (and the blocks inside) before comparing
    keep = []
    for p_ in b.parts:
        idx = [j for j, x in enumerate(p_) if sp.facts.norm(x) != ZERO]
        keep.append({j: n for n, j in enumerate(idx)})
    if any(len(k) != len(p_) for k, p_ in zip(keep, b.parts)):
        nb = {}
        for key, d in b.blocks.items():
            if all(key[a] in keep[a] for a in range(len(key))):
                nb[tuple(keep[a][key[a]] for a in range(len(key)))] = d
        b = Block(sp, [[x for j, x in enumerate(p_) if j in keep[a]] for a, p_ in enumerate(b.parts)], nb)
    for key, d in b.blocks.items():
        lst = []
        for t in d.terms:
            cf, c = net.canon_term_full(sp, t)
            lst.append((cf, c))
        if lst:
            out[key] = sorted(lst, key=lambda x: x[1])
    parts = [[repr(sp.facts.norm(x)) for x in p] for p in b.parts]
    return parts, out


def compare(sp: Space, actual, expected, up_to_coef=False):
    """Returns (ok, detail, coefs) - coefs: {net string: (actual coef, expected coef)} when structures match."""
    a, e = as_block(actual), as_block(expected)
    pa, ta = block_terms(sp, a)
    pe, te = block_terms(sp, e)
    if pa != pe:
        return False, f"axis partitions differ: computed {pa}, specified {pe}", {}
    def nonzero(tb):
        out = {}
        for key, lst in tb.items():
            acc = {}
            for c, s_ in lst:
                acc[s_] = c if s_ not in acc else net._coef_add(acc[s_], c)
            if any(c.c != 0 for c in acc.values()):
                out[key] = lst
        return out
    ta, te = nonzero(ta), nonzero(te)
    if set(ta) != set(te):
        return False, f"occupied blocks differ: computed {sorted(ta)}, specified {sorted(te)} (partitions {pa})", {}
    coefs = {}
    for key in sorted(ta):
        la, le = ta[key], te[key]
        # merge equal nets
        def merged(lst):
            acc = {}
            for c, s in lst:
                acc[s] = c if s not in acc else net._coef_add(acc[s], c)
            return {s: c for s, c in acc.items() if c.c != 0}
        ma, me = merged(la), merged(le)
        if set(ma) != set(me):
            only_a = sorted(set(ma) - set(me))
            only_e = sorted(set(me) - set(ma))
            return False, (f"block {key}: networks differ.\n      computed : {only_a[:2]}\n      specified: {only_e[:2]}"), {}
        for s in ma:
            coefs[(key, s)] = (ma[s], me[s])
            if not up_to_coef and (ma[s].c != me[s].c or ma[s].syms != me[s].syms):
                return False, f"block {key}: coefficient {ma[s].show()} instead of {me[s].show()} on {s[:120]}", {}
    return True, "", coefs


@dataclass
class Pos:
    label: str          # position class within its segment: only/first/interior/last/concreteK
    ordinal: P          # iteration ordinal within the segment
    pos: P              # absolute position in the result train
    item: object        # VTensor (None when the class raises)
    facts: Facts
    decisions: list
    raised: str | None
    seg: int
    nseg: int


def iter_positions(value, default_facts=None):
    """Yield Pos records over the cores of a result TT / list (symbolic loops: one per position class)."""
    cores = value.cores if isinstance(value, VTT) else value
    overrides = list(getattr(cores, "overrides", []) or [])

    def ov(pos, facts, item):
        for o_idx, v in reversed(overrides):
            f = facts if facts is not None else default_facts
            if f is not None and f.eq(o_idx, pos):
                return v
        return item
    if isinstance(cores, VList):
        n = len(cores.items)
        for k, x in enumerate(cores.items):
            label = "only" if n == 1 else ("first" if k == 0 else ("last" if k == n - 1 else "interior"))
            yield Pos(label, P.const(k), P.const(k), x, default_facts, [], None, 0, 1)
        return
    if isinstance(cores, VSymList):
        off = ZERO
        ns = len(cores.segments)
        for si, s in enumerate(cores.segments):
            if s.kind == "concrete":
                for k, x in enumerate(s.entries):
                    pos = off + k
                    yield Pos(f"concrete{k}", P.const(k), pos, ov(pos, default_facts, x), default_facts, [], None, si, ns)
            else:
                for ent in s.entries:
                    f = ent.facts if ent.facts is not None else default_facts
                    pos = f.norm(off + ent.index) if f is not None else off + ent.index
                    if ent.raised:
                        yield Pos(ent.label, ent.index, pos, None, f, ent.decisions, ent.raised, si, ns)
                        continue
                    if len(ent.items) != 1:
                        raise Unmodelled(f"{len(ent.items)} cores appended per position")
                    yield Pos(ent.label, ent.index, pos, ov(pos, f, ent.items[0]), f, ent.decisions, None, si, ns)
            off = off + s.length
        return
    raise Unmodelled(f"cores of type {type(cores).__name__}")


# --------------------------------------------------------------------------- closed value of a result train (concrete order)

def chain_value(sit, value) -> Block:
    """Contract the cores of a result TT with a concrete number of cores into its dense value: mode axes open in core order
    (for operators: row and column axis of each core, in core order), bonds contracted.  Block-partitioned cores are
    contracted block by block."""
    sp = sit.sp
    cores = value.cores if isinstance(value, VTT) else value
    if not isinstance(cores, VList):
        raise Unmodelled("closed value of a train with a symbolic number of cores")
    items = [as_block(c) for c in cores.items]
    if not items:
        raise Unmodelled("empty train")
    cur = None
    for b in items:
        nm = b.ndim() - 2
        if cur is None:
            # drop the (unit) left bond
            if len(b.parts[0]) != 1 or not sp.facts.eq(b.parts[0][0], ONE):
                raise TypeViolation(f"the first core has left rank {b.parts[0]} instead of 1")
            blocks = {}
            for key, d in b.blocks.items():
                blocks[key[1:]] = net.drop_axis(sp, d, 0)
            cur = Block(sp, [list(p) for p in b.parts[1:]], blocks)
            continue
        # contract last axis of cur with first axis of b
        pa, pb = cur.parts[-1], b.parts[0]
        if len(pa) != len(pb) or any(not sp.facts.eq(x, y) for x, y in zip(pa, pb)):
            raise TypeViolation(f"neighbouring cores disagree on the shared bond: {[repr(sp.facts.norm(x)) for x in pa]} vs "
                                f"{[repr(sp.facts.norm(x)) for x in pb]}")
        blocks = {}
        for ka, da in cur.blocks.items():
            for kb, db in b.blocks.items():
                if ka[-1] != kb[0]:
                    continue
                na, nb = da.ndim(), db.ndim()
                la = "".join(chr(ord("a") + i) for i in range(na))
                lb = la[-1] + "".join(chr(ord("A") + i) for i in range(nb - 1))
                r = net.einsum(sp, f"{la},{lb}->{la[:-1]}{lb[1:]}", [da, db])
                key = ka[:-1] + kb[1:]
                blocks[key] = blocks[key].add(r) if key in blocks else r
        cur = Block(sp, [list(p) for p in cur.parts[:-1]] + [list(p) for p in b.parts[1:]], blocks)
    if len(cur.parts[-1]) != 1 or not sp.facts.eq(cur.parts[-1][0], ONE):
        raise TypeViolation(f"the last core has right rank {cur.parts[-1]} instead of 1")
    blocks = {}
    for key, d in cur.blocks.items():
        blocks[key[:-1]] = net.drop_axis(sp, d, d.ndim() - 1)
    return Block(sp, cur.parts[:-1], blocks)
