"""E5 scenario catalogue, part 3: operations checked through the closed value of the result for concrete small
orders (indexing, partial sums / reduce_dims, mprod, cat, pad, dot along modes).  Sizes stay symbolic."""
from __future__ import annotations

from . import net
from .net import Dense, Block, Coef, COEF1, Unmodelled, TypeViolation, Term, Atom
from .scenarios import scn, chain_check, strand_check, raises_check, _sit, _sub, TT, S
from .scenarios2 import closed_chain_tt, closed_chain_ttm, value_check
from .spec import SpecIt, expr, compare, as_block, chain_value
from .sym import P, ONE, ZERO
from .torchmodel import make_tt, core_atom, rank_atom, mode_atom
from .values import *


def closed_check(expected_fn, what):
    """expected_fn(sit, out) -> expected dense value (Dense/Block) of the returned TT or tensor"""
    def check(out):
        sit = _sit(out, out.facts)
        try:
            if isinstance(out.value, VTT):
                got = chain_value(sit, out.value)
            elif isinstance(out.value, VTensor):
                got = out.value
            else:
                return [("result", False, f"a {type(out.value).__name__} is returned where a TT object or tensor is specified")]
        except TypeViolation as e:
            return [("result", False, f"the returned train is ill-formed: {e}")]
        exp = expected_fn(sit, out)
        if exp is None:
            return [("result", True, "path outside this specification")]
        ok, detail, _ = compare(out.space, got, exp)
        return [("result", ok, f"{what}: dense value and shape match" if ok else f"{what} differs from the dense counterpart: {detail}")]
    return check


# --------------------------------------------------------------------------- __getitem__

def UI(name):
    return VOpaque("userint:" + name)


def US(name):
    return VOpaque("userslice:" + name)


FULL = VSlice(None, None, None)
ELL = VOpaque("Ellipsis")


def _index_expected(ttm, d, spec):
    """spec: per core a tuple describing what happens to its mode axes:
         ('keep',) | ('int', name) | ('slice', name) ; new unit axes are given as ('none',) entries between cores.
       Returns fn(sit, out) building the dense counterpart x.full()[index]."""
    def exp(sit, out):
        x = make_tt(sit, "x", ttm, d)
        L = iter("abcdefghijklmnopqrstuvwxyzABCDEFGHIJKLMNOPQRSTUVWXYZ")
        ops, rows, cols = [], [], []
        bond = next(L)
        k = 0
        outs = []
        for ent in spec:
            if ent[0] == "none":
                outs.append(("", ""))
                continue
            c = sit.core(x, k)
            if ttm:
                m, n, nb = next(L), next(L), next(L)
                ops.append((c, bond + m + n + nb))
                letters = [m, n]
                sizes = [mode_atom(sit, "M", "x", P.const(k)), mode_atom(sit, "N", "x", P.const(k))]
            else:
                m, nb = next(L), next(L)
                ops.append((c, bond + m + nb))
                letters = [m]
                sizes = [mode_atom(sit, "N", "x", P.const(k))]
            res = []
            for j, (l, sz) in enumerate(zip(letters, sizes)):
                act = ent[j] if ttm else ent
                if act[0] == "keep":
                    res.append(l)
                elif act[0] == "int":
                    ops.append((net.atom_tensor(sit.sp, f"e[{act[1]}]", [sz]), l))
                    res.append(None)
                elif act[0] == "slice":
                    from .torchmodel import userslice_is_full
                    if userslice_is_full(sit.facts if hasattr(sit, "facts") else out.facts, act[1]):
                        res.append(l)       # on this path the caller's slice is slice(None, None, None)
                        continue
                    nl = next(L)
                    ops.append((net.atom_tensor(sit.sp, f"sel[{act[1]}]", [P.atom(f"|{act[1]}|"), sz]), nl + l))
                    res.append(nl)
            outs.append(tuple(res))
            bond = nb
            k += 1
        if ttm:
            # closed value of an operator train: (row, column) axis pair of each surviving core, in core order
            groups = []
            for o in outs:
                if o == ("", ""):
                    groups += ["", ""]
                elif o[0] is not None:
                    groups += [o[0], o[1]]
        else:
            groups = []
            for o in outs:
                if o == ("", ""):
                    groups.append("")
                elif o[0] is not None:
                    groups.append(o[0])
        return expr(sit, ops, groups)
    return exp


def _gi(name, ttm, d, index, spec, props=("C08",)):
    scn(name=f"getitem:{name}", func=TT + "__getitem__", props=props,
        args=(lambda: (lambda it: (make_tt(it, "x", ttm, d), [index], {})))(),
        check=closed_check(_index_expected(ttm, d, spec), f"x[{name}]"))


_gi("tt3[a,b,c]", False, 3, VTuple((UI("a"), UI("b"), UI("c"))), [("int", "a"), ("int", "b"), ("int", "c")])
_gi("tt3[s,a,:]", False, 3, VTuple((US("s"), UI("a"), FULL)), [("slice", "s"), ("int", "a"), ("keep",)])
_gi("tt3[:,None,a,s]", False, 3, VTuple((FULL, VNone(), UI("a"), US("s"))), [("keep",), ("none",), ("int", "a"), ("slice", "s")])
_gi("tt3[None,:,:,s]", False, 3, VTuple((VNone(), FULL, FULL, US("s"))), [("none",), ("keep",), ("keep",), ("slice", "s")])
_gi("tt3[...,a]", False, 3, VTuple((ELL, UI("a"))), [("keep",), ("keep",), ("int", "a")])
_gi("tt3[a,...]", False, 3, VTuple((UI("a"), ELL)), [("int", "a"), ("keep",), ("keep",)])
_gi("tt3[None,a,...]", False, 3, VTuple((VNone(), UI("a"), ELL)), [("none",), ("int", "a"), ("keep",), ("keep",)])
_gi("tt3[None,...]", False, 3, VTuple((VNone(), ELL)), [("none",), ("keep",), ("keep",), ("keep",)])
_gi("tt3[...,None]", False, 3, VTuple((ELL, VNone())), [("keep",), ("keep",), ("keep",), ("none",)])
_gi("tt3[a,b,s]", False, 3, VTuple((UI("a"), UI("b"), US("s"))), [("int", "a"), ("int", "b"), ("slice", "s")])
_gi("tt3[a,b,:]", False, 3, VTuple((UI("a"), UI("b"), FULL)), [("int", "a"), ("int", "b"), ("keep",)])
_gi("tt3[s,t,u]", False, 3, VTuple((US("s"), US("t"), US("u"))), [("slice", "s"), ("slice", "t"), ("slice", "u")])
_gi("tt1[s]", False, 1, US("s"), [("slice", "s")])
_gi("tt1[a]", False, 1, UI("a"), [("int", "a")])
_gi("tt2[a,s]", False, 2, VTuple((UI("a"), US("s"))), [("int", "a"), ("slice", "s")])
_gi("ttm2[s,a,t,b]", True, 2, VTuple((US("s"), UI("a"), US("t"), UI("b"))), [(("slice", "s"), ("slice", "t")), (("int", "a"), ("int", "b"))])
_gi("ttm2[a,s,b,t]", True, 2, VTuple((UI("a"), US("s"), UI("b"), US("t"))), [(("int", "a"), ("int", "b")), (("slice", "s"), ("slice", "t"))])
scn(name="getitem:tt3[a,b] too few", func=TT + "__getitem__", props=("C18",), must_raise=True, min_returns=0,
    args=lambda it: (make_tt(it, "x", False, 3), [VTuple((UI("a"), UI("b")))], {}), check=raises_check)
scn(name="getitem:tt3[...,...]", func=TT + "__getitem__", props=("C18",), must_raise=True, min_returns=0,
    args=lambda it: (make_tt(it, "x", False, 3), [VTuple((ELL, ELL))], {}), check=raises_check)
scn(name="getitem:tt3[a] int on d>1", func=TT + "__getitem__", props=("C18",), must_raise=True, min_returns=0,
    args=lambda it: (make_tt(it, "x", False, 3), [UI("a")], {}), check=raises_check)


# --------------------------------------------------------------------------- partial sums (and reduce_dims)

def _sum_expected(ttm, d, summed):
    def exp(sit, out):
        x = make_tt(sit, "x", ttm, d)
        L = iter("abcdefghijklmnopqrstuvwxyzABCDEFGHIJKLMNOPQRSTUVWXYZ")
        ops, rows, cols = [], [], []
        bond = next(L)
        for k in range(d):
            if ttm:
                m, n, nb = next(L), next(L), next(L)
                ops.append((sit.core(x, k), bond + m + n + nb))
                if k not in summed:
                    rows.append(m)
                    cols.append(n)
            else:
                m, nb = next(L), next(L)
                ops.append((sit.core(x, k), bond + m + nb))
                if k not in summed:
                    rows.append(m)
            bond = nb
        if ttm:
            inter = []
            for r_, c_ in zip(rows, cols):
                inter += [r_, c_]
            return expr(sit, ops, inter)
        return expr(sit, ops, rows)
    return exp


for _d, _idx in ((3, [0]), (3, [1]), (3, [2]), (3, [0, 2]), (3, [1, 2]), (3, [0, 1, 2]), (2, [1]), (1, [0])):
    scn(name=f"sum:tt{_d}{_idx}", func=TT + "sum", props=("C07",),
        args=(lambda d, ix: (lambda it: (make_tt(it, "x", False, d), [VList([VInt(P.const(i)) for i in ix])], {})))(_d, _idx),
        check=closed_check(_sum_expected(False, _d, set(_idx)), f"sum({_idx})"))
for _d, _idx in ((2, [0]), (2, [1]), (3, [1])):
    scn(name=f"sum:ttm{_d}{_idx}", func=TT + "sum", props=("C07",),
        args=(lambda d, ix: (lambda it: (make_tt(it, "x", True, d), [VList([VInt(P.const(i)) for i in ix])], {})))(_d, _idx),
        check=closed_check(_sum_expected(True, _d, set(_idx)), f"sum({_idx}) of a TT matrix"))
scn(name="sum:int-index", func=TT + "sum", props=("C07",),
    args=lambda it: (make_tt(it, "x", False, 3), [VInt(P.const(1))], {}), check=closed_check(_sum_expected(False, 3, {1}), "sum(1)"))
scn(name="sum:out-of-range", func=TT + "sum", props=("C18",), must_raise=True, min_returns=0,
    args=lambda it: (make_tt(it, "x", False, 3), [VList([VInt(P.const(5))])], {}), check=raises_check)
scn(name="sum:negative", func=TT + "sum", props=("C18",), must_raise=True, min_returns=0,
    args=lambda it: (make_tt(it, "x", False, 3), [VList([VInt(P.const(-1))])], {}), check=raises_check)


# --------------------------------------------------------------------------- mprod

def _mprod_expected(d, modes):
    def exp(sit, out):
        x = make_tt(sit, "x", False, d)
        L = iter("abcdefghijklmnopqrstuvwxyzABCDEFGHIJKLMNOPQRSTUVWXYZ")
        ops, outs = [], []
        bond = next(L)
        for k in range(d):
            m, nb = next(L), next(L)
            ops.append((sit.core(x, k), bond + m + nb))
            if k in modes:
                l = next(L)
                f = net.atom_tensor(sit.sp, f"F{modes.index(k)}", [P.atom(f"L{modes.index(k)}"), mode_atom(sit, "N", "x", P.const(k))])
                ops.append((f, l + m))     # (F x)_l = sum_m F[l, m] x_m
                outs.append(l)
            else:
                outs.append(m)
            bond = nb
        return expr(sit, ops, outs)
    return exp


def _factor(it, j, k):
    return VTensor(net.atom_tensor(it.sp, f"F{j}", [P.atom(f"L{j}"), mode_atom(it, "N", "x", P.const(k))], tags=["new", "mode"]), "dtype:F")


scn(name="mprod:single", func=TT + "mprod", props=("C09", "C18"),
    args=lambda it: (make_tt(it, "x", False, 3), [_factor(it, 0, 1), VInt(P.const(1))], {}),
    check=closed_check(_mprod_expected(3, [1]), "mprod(F, 1)"))
scn(name="mprod:list", func=TT + "mprod", props=("C09", "C18"),
    args=lambda it: (make_tt(it, "x", False, 3), [VList([_factor(it, 0, 0), _factor(it, 1, 2)]), VList([VInt(ZERO), VInt(P.const(2))])], {}),
    check=closed_check(_mprod_expected(3, [0, 2]), "mprod([F0, F1], [0, 2])"))
scn(name="mprod:list-nonincreasing", func=TT + "mprod", props=("C09", "C18"),
    args=lambda it: (make_tt(it, "x", False, 3), [VList([_factor(it, 0, 2), _factor(it, 1, 0)]), VList([VInt(P.const(2)), VInt(ZERO)])], {}),
    check=closed_check(_mprod_expected(3, [2, 0]), "mprod([F0, F1], [2, 0])"))
scn(name="mprod:ttm", func=TT + "mprod", props=("C18",), must_raise=True, min_returns=0,
    args=lambda it: (make_tt(it, "x", True, 2), [_factor(it, 0, 1), VInt(P.const(1))], {}), check=raises_check)


# positions outside 0..d-1: some exception, never a result (C18, "out-of-range axis/index")
scn(name="mprod:mode-out-of-range", func=TT + "mprod", props=("C18",), must_raise=True, any_exception=True, min_returns=0,
    args=lambda it: (make_tt(it, "x", False, 3), [_factor(it, 0, 1), VInt(P.const(3))], {}), check=raises_check)
scn(name="mprod:list-mode-out-of-range", func=TT + "mprod", props=("C18",), must_raise=True, any_exception=True, min_returns=0,
    args=lambda it: (make_tt(it, "x", False, 3), [VList([_factor(it, 0, 0), _factor(it, 1, 2)]), VList([VInt(ZERO), VInt(P.const(4))])], {}), check=raises_check)
scn(name="set_core:k-out-of-range", func=TT + "set_core", props=("C18",), must_raise=True, any_exception=True, min_returns=0,
    args=lambda it: (make_tt(it, "x", False, 3), [VInt(P.const(3)), VTensor(net.atom_tensor(it.sp, "new", [rank_atom(it, "x", P.const(2), P.const(3)), mode_atom(it, "N", "x", P.const(2)), ONE]), "dtype:x")], {}),
    check=raises_check)
scn(name="permute:dims-out-of-range", func="_extras.permute", props=("C18",), must_raise=True, any_exception=True, min_returns=0,
    args=lambda it: (None, [make_tt(it, "x", False, 3), VList([VInt(ZERO), VInt(P.const(1)), VInt(P.const(5))])], {}), check=raises_check)
scn(name="permute:dims-repeated", func="_extras.permute", props=("C18",), must_raise=True, any_exception=True, min_returns=0,
    args=lambda it: (None, [make_tt(it, "x", False, 3), VList([VInt(ZERO), VInt(P.const(1)), VInt(P.const(1))])], {}), check=raises_check)
scn(name="dot:axis-out-of-range", func="_extras.dot", props=("C18",), must_raise=True, any_exception=True, min_returns=0,
    args=lambda it: (None, [make_tt(it, "a", False, 3), make_tt(it, "b", False, 1), VList([VInt(P.const(5))])], {}), check=raises_check)


# --------------------------------------------------------------------------- cat

def _cat_expected(d, dim, names):
    def exp(sit, out):
        blocks = {}
        parts = None
        for j, nm in enumerate(names):
            t = make_tt(sit, nm, False, d)
            val = closed_chain_tt(sit, t, d)
            shp = val.shape()
            if parts is None:
                parts = [[s] for s in shp]
                parts[dim] = []
            parts[dim].append(shp[dim])
            key = tuple(j if a == dim else 0 for a in range(d))
            blocks[key] = val
        return Block(sit.sp, parts, blocks)
    return exp


for _d, _dim, _n in ((3, 0, 2), (3, 1, 2), (3, 2, 3), (2, 1, 2), (1, 0, 2)):
    scn(name=f"cat:d{_d}.dim{_dim}.n{_n}", func="_extras.cat", props=("C09", "C18"),
        args=(lambda d, dim, n: (lambda it: (None, [VTuple(tuple(make_tt(it, f"t{j}", False, d) for j in range(n))), VInt(P.const(dim))], {})))(_d, _dim, _n),
        check=closed_check(_cat_expected(_d, _dim, [f"t{j}" for j in range(_n)]), f"cat(dim={_dim})"))
scn(name="cat:dim-out-of-range", func="_extras.cat", props=("C18",), must_raise=True, min_returns=0,
    args=lambda it: (None, [VTuple((make_tt(it, "t0", False, 3), make_tt(it, "t1", False, 3))), VInt(P.const(7))], {}), check=raises_check)
scn(name="cat:ttm", func="_extras.cat", props=("C18",), must_raise=True, min_returns=0,
    args=lambda it: (None, [VTuple((make_tt(it, "t0", True, 2), make_tt(it, "t1", True, 2))), VInt(ZERO)], {}), check=raises_check)


# --------------------------------------------------------------------------- pad

def _pad_tt_expected(d, npad, value_coef):
    """dense constant padding of the trailing `npad` modes: x embedded + value on everything else"""
    def exp(sit, out):
        x = make_tt(sit, "x", False, d)
        val = closed_chain_tt(sit, x, d)
        b = Block.of_dense(val)
        pads = []
        for k in range(d):
            if k >= d - npad:
                j = k - (d - npad)
                pads.append((P.atom(f"lo{j}"), P.atom(f"hi{j}")))
            else:
                pads.append((ZERO, ZERO))
        return b.pad(pads, value_coef)
    return exp


def _pad_args(d, n, value):
    def mk(it):
        for j in range(n):
            it.facts.lb[f"lo{j}"] = 0      # padding widths may be zero
            it.facts.lb[f"hi{j}"] = 0
        return None, [make_tt(it, "x", False, d), _padding(n)], {"value": value}
    return mk


def _padding(npad):
    return VTuple(tuple(VTuple((VInt(P.atom(f"lo{j}")), VInt(P.atom(f"hi{j}")))) for j in range(npad)))


for _d, _np in ((3, 3), (3, 1), (3, 2), (1, 1)):
    scn(name=f"pad:tt{_d}.p{_np}.zero", func="_extras.pad", props=("C09",),
        args=_pad_args(_d, _np, VFloat(0.0)),
        check=closed_check(_pad_tt_expected(_d, _np, None), "pad(x, 0)"))
    scn(name=f"pad:tt{_d}.p{_np}.value", func="_extras.pad", props=("C09",),
        args=_pad_args(_d, _np, VScalar(Coef.sym("v"), "float")),
        presets={"scalar == 0": False}, check=closed_check(_pad_tt_expected(_d, _np, Coef.sym("v")), "pad(x, value)"))
def _pad_ttm_expected(d, npad, value_coef):
    """block-diagonal padding of the trailing `npad` mode pairs of an operator: the original block kept, the leading corner (every padded
    row and column index in its leading strip) and the trailing corner hold value * identity, everything else is zero.  Axes: (m_1, n_1,
    ..., m_d, n_d).  With a mode that is not padded the two corners are empty."""
    def exp(sit, out):
        sp = sit.sp
        A = make_tt(sit, "A", True, d)
        ops, outs = [], []
        letters = iter("abcdefghijklmnopqrstuvwxyzABCDEFGH")
        bond = next(letters)
        for k in range(d):
            m, n, nb = next(letters), next(letters), next(letters)
            ops.append((sit.core(A, k), bond + m + n + nb))
            outs += [m, n]
            bond = nb
        centre = expr(sit, ops, outs)
        parts, ckey = [], []
        for k in range(d):
            j = k - (d - npad)
            for ax in (2 * k, 2 * k + 1):
                if j >= 0:
                    parts.append([P.atom(f"lo{j}"), centre.axis_size(ax), P.atom(f"hi{j}")])
                    ckey.append(1)
                else:
                    parts.append([centre.axis_size(ax)])
                    ckey.append(0)
        blocks = {tuple(ckey): centre}
        if npad == d and value_coef is not None:
            for side, nm in ((0, "lo"), (2, "hi")):
                eyes = [(net.eye_tensor(sp, P.atom(f"{nm}{j}")), "abcdefghijklmnop"[2 * j:2 * j + 2]) for j in range(d)]
                blocks[tuple([side] * (2 * d))] = expr(sit, eyes, list("abcdefghijklmnop"[:2 * d]), value_coef)
        return Block(sp, parts, blocks)
    return exp


def _pad_ttm_args(d, n, value):
    def mk(it):
        for j in range(n):
            it.facts.lb[f"lo{j}"] = 0
            it.facts.lb[f"hi{j}"] = 0
        return None, [make_tt(it, "A", True, d), _padding(n)], {"value": value}
    return mk


for _d, _np, _tier in ((1, 1, "quick"), (2, 2, "quick"), (3, 3, "thorough"), (2, 1, "quick"), (3, 2, "thorough"), (3, 1, "thorough")):
    scn(name=f"pad:ttm{_d}.p{_np}.value", func="_extras.pad", props=("C09",), tier=_tier,
        args=_pad_ttm_args(_d, _np, VScalar(Coef.sym("v"), "float")),
        presets={"scalar == 0": False}, check=closed_check(_pad_ttm_expected(_d, _np, Coef.sym("v")), "pad(A, value) of an operator"))
    scn(name=f"pad:ttm{_d}.p{_np}.zero", func="_extras.pad", props=("C09",), tier=_tier,
        args=_pad_ttm_args(_d, _np, VFloat(0.0)), check=closed_check(_pad_ttm_expected(_d, _np, None), "pad(A, 0) of an operator"))
scn(name="pad:too-many", func="_extras.pad", props=("C18",), must_raise=True, min_returns=0,
    args=lambda it: (None, [make_tt(it, "x", False, 2), _padding(3)], {}), check=raises_check)


# --------------------------------------------------------------------------- grad_list: gradients of exactly the listed cores, grouped per tensor (C15)

def _grads_expected(all_in_one, orders):
    def check(out):
        v = out.value

        def tags(lst):
            return [x.tag if isinstance(x, VOpaque) else f"<{type(x).__name__}>" for x in lst]
        want = []
        for j, dd in enumerate(orders):
            want.append([f"t{j}", dd])
        if not isinstance(v, VList):
            return [("result", False, f"a {type(v).__name__} is returned where a list is specified")]
        if all_in_one:
            got = tags(v.items)
            ok = len(got) == sum(orders) and all(g.startswith("grad:") for g in got)
            pos = 0
            for j, dd in enumerate(orders):
                for i in range(dd):
                    ok = ok and pos < len(got) and f"t{j}" in got[pos] and f"[{i}]" in got[pos].replace("cores_", "")
                    pos += 1
            return [("result", ok, "one flat list: the gradients of all cores of all tensors in order" if ok else
                     f"grad_list(all_in_one=True) must return the gradients of all cores of all tensors in order; got {got}")]
        ok = len(v.items) == len(orders) and all(isinstance(x, VList) for x in v.items)
        shown = [tags(x.items) if isinstance(x, VList) else f"<{type(x).__name__}>" for x in v.items]
        if ok:
            for j, (dd, x) in enumerate(zip(orders, v.items)):
                got = tags(x.items)
                ok = ok and len(got) == dd and all(g.startswith("grad:") and f"t{j}" in g for g in got)
        return [("result", ok, "one list per tensor holding the gradients of that tensor's cores" if ok else
                 f"grad_list(all_in_one=False) must return one list per tensor with the gradients of exactly that tensor's cores (orders {list(orders)}); got {shown}")]
    return check


for _aio in (True, False):
    for _orders in ((2, 3), (3, 1), (2, 2)):
        scn(name=f"grad_list:all_in_one={_aio},orders={_orders}", func="grad.grad_list", props=("C15",),
            args=(lambda o, a: (lambda it: (None, [VOpaque("val"), VList([make_tt(it, f"t{j}", False, dd) for j, dd in enumerate(o)]), VBool(a)], {})))(_orders, _aio),
            check=_grads_expected(_aio, _orders))


# --------------------------------------------------------------------------- thorough tier: the same closed-value specifications at order 4

for _d, _idx in ((4, [0]), (4, [1, 2]), (4, [0, 3]), (4, [3]), (4, [0, 1, 2, 3])):
    scn(name=f"sum:tt{_d}{_idx}", func=TT + "sum", props=("C07",), tier="thorough",
        args=(lambda d, ix: (lambda it: (make_tt(it, "x", False, d), [VList([VInt(P.const(i)) for i in ix])], {})))(_d, _idx),
        check=closed_check(_sum_expected(False, _d, set(_idx)), f"sum({_idx})"))
for _d, _dim, _n in ((4, 0, 2), (4, 2, 2), (4, 3, 3)):
    scn(name=f"cat:d{_d}.dim{_dim}.n{_n}", func="_extras.cat", props=("C09",), tier="thorough",
        args=(lambda d, dim, n: (lambda it: (None, [VTuple(tuple(make_tt(it, f"t{j}", False, d) for j in range(n))), VInt(P.const(dim))], {})))(_d, _dim, _n),
        check=closed_check(_cat_expected(_d, _dim, [f"t{j}" for j in range(_n)]), f"cat(dim={_dim})"))
for _d, _np in ((4, 4), (4, 2)):
    scn(name=f"pad:tt{_d}.p{_np}.zero", func="_extras.pad", props=("C09",), tier="thorough",
        args=_pad_args(_d, _np, VFloat(0.0)), check=closed_check(_pad_tt_expected(_d, _np, None), "pad(x, 0)"))
    scn(name=f"pad:tt{_d}.p{_np}.value", func="_extras.pad", props=("C09",), tier="thorough",
        args=_pad_args(_d, _np, VScalar(Coef.sym("v"), "float")),
        presets={"scalar == 0": False}, check=closed_check(_pad_tt_expected(_d, _np, Coef.sym("v")), "pad(x, value)"))


def _gi4(name, index, spec):
    scn(name=f"getitem:{name}", func=TT + "__getitem__", props=("C08",), tier="thorough",
        args=(lambda: (lambda it: (make_tt(it, "x", False, 4), [index], {})))(),
        check=closed_check(_index_expected(False, 4, spec), f"x[{name}]"))


_gi4("tt4[a,b,:,s]", VTuple((UI("a"), UI("b"), FULL, US("s"))), [("int", "a"), ("int", "b"), ("keep",), ("slice", "s")])
_gi4("tt4[s,a,b,:]", VTuple((US("s"), UI("a"), UI("b"), FULL)), [("slice", "s"), ("int", "a"), ("int", "b"), ("keep",)])
_gi4("tt4[:,a,:,b]", VTuple((FULL, UI("a"), FULL, UI("b"))), [("keep",), ("int", "a"), ("keep",), ("int", "b")])
_gi4("tt4[...,a,b]", VTuple((ELL, UI("a"), UI("b"))), [("keep",), ("keep",), ("int", "a"), ("int", "b")])
_gi4("tt4[None,a,...]", VTuple((VNone(), UI("a"), ELL)), [("none",), ("int", "a"), ("keep",), ("keep",), ("keep",)])
_gi4("tt4[a,b,c,e]", VTuple((UI("a"), UI("b"), UI("c"), UI("e"))), [("int", "a"), ("int", "b"), ("int", "c"), ("int", "e")])


# a single-element sequence is validated like any other
scn(name="cat:dim-out-of-range.n1", func="_extras.cat", props=("C18",), must_raise=True, min_returns=0,
    args=lambda it: (None, [VTuple((make_tt(it, "t0", False, 3),)), VInt(P.const(7))], {}), check=raises_check)
scn(name="cat:ttm.n1", func="_extras.cat", props=("C18",), must_raise=True, min_returns=0,
    args=lambda it: (None, [VTuple((make_tt(it, "t0", True, 2),)), VInt(ZERO)], {}), check=raises_check)
scn(name="cat:d3.dim1.n1", func="_extras.cat", props=("C09",),
    args=lambda it: (None, [VTuple((make_tt(it, "t0", False, 3),)), VInt(ONE)], {}),
    check=closed_check(_cat_expected(3, 1, ["t0"]), "cat of a single tensor"))


# --------------------------------------------------------------------------- grad / watch / unwatch: exactly the requested cores, after backward() (C15)

def _chk_grad(d, want):
    def check(out):
        v = out.value
        if not isinstance(v, (VList, VTuple)):
            return [("result", False, f"grad() returns a {type(v).__name__} where a list of core gradients is specified")]
        got = [x.tag if isinstance(x, VOpaque) else f"<{type(x).__name__}>" for x in v.items]
        ok = len(got) == len(want) and all(g.startswith("grad:") and f"t@{k}" in g for g, k in zip(got, want))
        back = ("call", "val.backward") in getattr(out, "trace", [])
        return [("result", ok, "the gradients of exactly the requested cores, in order" if ok else
                 f"grad() must return c.grad of the cores {list(want)} of the given tensor, in that order; got {got}"),
                ("backward", back, "val.backward() runs before the gradients are read" if back else "grad() does not call val.backward(): the .grad fields are stale or None")]
    return check


for _d, _idx in ((3, None), (3, [1]), (3, [2, 0]), (1, None), (2, [1, 1])):
    scn(name=f"grad:d{_d},cores={_idx}", func="grad.grad", props=("C15",),
        args=(lambda d, ix: (lambda it: (None, [VOpaque("val"), make_tt(it, "t", False, d)] + ([VList([VInt(P.const(i)) for i in ix])] if ix is not None else []), {})))(_d, _idx),
        check=_chk_grad(_d, list(range(_d)) if _idx is None else _idx))


def _chk_watch(want, flag):
    def check(out):
        ev = [(w, f) for k, w, f in [t for t in getattr(out, "trace", []) if t[0] == "requires_grad_"]]
        got = sorted(w for w, f in ev if f is flag)
        wrong = [w for w, f in ev if f is not flag]
        ok = got == sorted(f"t@{k}" for k in want) and not wrong
        return [("watched", ok, f"requires_grad_({flag}) on exactly the requested cores of the operand" if ok else
                 f"requires_grad_({flag}) must be switched on the cores {sorted(want)} of the operand itself; switched: {ev}")]
    return check


for _d, _idx in ((3, None), (3, [1]), (3, [0, 2])):
    scn(name=f"watch:d{_d},cores={_idx}", func="grad.watch", props=("C15",),
        args=(lambda d, ix: (lambda it: (None, [make_tt(it, "t", False, d)] + ([VList([VInt(P.const(i)) for i in ix])] if ix is not None else []), {})))(_d, _idx),
        check=_chk_watch(list(range(_d)) if _idx is None else _idx, True))
scn(name="unwatch:d3", func="grad.unwatch", props=("C15",), args=lambda it: (None, [make_tt(it, "t", False, 3)], {}), check=_chk_watch([0, 1, 2], False))


# --------------------------------------------------------------------------- added after round 3 of the seeded campaign
# x.sum(0): the bare integer 0 is a mode index like any other (a falsy value must not be mistaken for "no index")
scn(name="sum:int-index-0", func=TT + "sum", props=("C07",),
    args=lambda it: (make_tt(it, "x", False, 3), [VInt(P.const(0))], {}), check=closed_check(_sum_expected(False, 3, {0}), "sum(0)"))
scn(name="sum:int-index-0.ttm", func=TT + "sum", props=("C07",),
    args=lambda it: (make_tt(it, "x", True, 2), [VInt(P.const(0))], {}), check=closed_check(_sum_expected(True, 2, {0}), "sum(0) of a TT matrix"))
# every mode fixed by an integer plus one new axis: the result keeps that axis (shape (1,)), it is not the bare entry
_gi("tt3[None,a,b,c]", False, 3, VTuple((VNone(), UI("a"), UI("b"), UI("c"))), [("none",), ("int", "a"), ("int", "b"), ("int", "c")])
_gi("tt3[a,b,c,None]", False, 3, VTuple((UI("a"), UI("b"), UI("c"), VNone())), [("int", "a"), ("int", "b"), ("int", "c"), ("none",)])
_gi("tt2[a,None,b]", False, 2, VTuple((UI("a"), VNone(), UI("b"))), [("int", "a"), ("none",), ("int", "b")])


# --------------------------------------------------------------------------- boundary instantiations of index arguments (first mode, repeated mode, empty selection)

def _mprod_twice_expected(sit, out):
    """mprod([F0, F1], [1, 1]) on an order-3 tensor: both factors act on mode 1, one after the other: (F1 F0 x)"""
    x = make_tt(sit, "x", False, 3)
    f0 = net.atom_tensor(sit.sp, "F0", [P.atom("L0"), mode_atom(sit, "N", "x", P.const(1))])
    f1 = net.atom_tensor(sit.sp, "F1", [P.atom("L1"), P.atom("L0")])
    return expr(sit, [(sit.core(x, 0), "amb"), (sit.core(x, 1), "bnc"), (sit.core(x, 2), "cpd"), (f0, "ln"), (f1, "kl")], ["m", "k", "p"])


scn(name="mprod:single-mode0", func=TT + "mprod", props=("C09",),
    args=lambda it: (make_tt(it, "x", False, 3), [_factor(it, 0, 0), VInt(ZERO)], {}),
    check=closed_check(_mprod_expected(3, [0]), "mprod(F, 0)"))
scn(name="mprod:repeated-mode", func=TT + "mprod", props=("C09",),
    args=lambda it: (make_tt(it, "x", False, 3),
                     [VList([_factor(it, 0, 1), VTensor(net.atom_tensor(it.sp, "F1", [P.atom("L1"), P.atom("L0")], tags=["new", "mode"]), "dtype:F")]),
                      VList([VInt(P.const(1)), VInt(P.const(1))])], {}),
    check=closed_check(_mprod_twice_expected, "mprod([F0, F1], [1, 1])"))
scn(name="sum:empty-list", func=TT + "sum", props=("C07",),
    args=lambda it: (make_tt(it, "x", False, 3), [VList([])], {}), check=closed_check(_sum_expected(False, 3, set()), "sum([])"))
