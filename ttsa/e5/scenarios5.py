"""E5 scenario catalogue, part 5: the local problems of the AMEn solvers (C12, C13).

One linear operator, several formulations.  For generic, pairwise independent sizes
    Phi_left : l x s x r     (row-side rank, operator rank, column-side rank at the left interface)
    A_k      : s x m x n x S (solver)   /   s x m x S (division: diagonal in the mode)
    Phi_right: L x S x R
    x        : r x n x R
the projected local operator is, by definition of the Galerkin projection,
    (A_loc x)[l, m, L] = sum  Phi_left[l,s,r] A_k[s,m,n,S] Phi_right[L,S,R] x[r,n,R].
Every formulation in the repository (einsum, chain of tensordots, fused preconditioned contraction, preconditioner
followed by the plain product) must have this canonical network; the interface recursions must be adjoint to it:
    <y, A_loc x> = <Phi_right, fwd(Phi_left, y, A_k, x)> = <Phi_left, bck(Phi_right, y, A_k, x)>      (same for the rhs).
A transposed letter, a swapped axis list or a wrong argument order changes the network or identifies two independent
sizes - both are reported.  The Jacobi preconditioners are specified as the inverse (over the mode pair / the mode-and-
right-rank pair) of the matching diagonal blocks of A_loc."""
from __future__ import annotations

from . import net
from .net import Dense, Term, Atom, COEF1, TypeViolation, Unmodelled
from .scenarios import scn
from .spec import SpecIt, expr, compare
from .sym import P, ONE
from .values import *


def _sz(name):
    return P.atom(name)


def operands(it, diagonal=False, square=False):
    """generic local operands; `square`: row-side and column-side sizes coincide (needed where the code inverts blocks)"""
    sp = it.sp
    l, r = _sz("r_row"), (_sz("r_row") if square else _sz("r_col"))
    L, R = _sz("r'_row"), (_sz("r'_row") if square else _sz("r'_col"))
    s, S = _sz("R_A"), _sz("R'_A")
    m, n = _sz("m_row"), (_sz("m_row") if (square or diagonal) else _sz("n_col"))
    for a in ("r_row", "r_col", "r'_row", "r'_col", "R_A", "R'_A", "m_row", "n_col"):
        it.facts.lb[a] = 1
    x = net.atom_tensor(sp, "x_k", [r, n, R], tags=["column rank (left)", "column mode", "column rank (right)"])
    xt = x.terms[0]
    xvec = Dense(sp, [Term(COEF1, xt.atoms, [tuple(w for ax in xt.out for w in ax), ()])])      # tn.reshape(x, [-1, 1])
    ops = {
        "PhiL": VTensor(net.atom_tensor(sp, "Phi_left", [l, s, r], tags=["row rank (left)", "operator rank (left)", "column rank (left)"])),
        "PhiR": VTensor(net.atom_tensor(sp, "Phi_right", [L, S, R], tags=["row rank (right)", "operator rank (right)", "column rank (right)"])),
        "A": VTensor(net.atom_tensor(sp, "A_k", [s, m, S] if diagonal else [s, m, n, S],
                                     tags=["operator rank (left)", "mode"] + ([] if diagonal else ["column mode"]) + ["operator rank (right)"])),
        "x": VTensor(x),
        "xvec": VTensor(xvec),
        "y": VTensor(net.atom_tensor(sp, "y_k", [l, m, L], tags=["row rank (left)", "mode", "row rank (right)"])),
        "shape": VList([VInt(r), VInt(n), VInt(R)]),
    }
    return ops


def _pack(val, ops):
    return VTuple((val, VObj("_operands", ops)))


def _unpack(out):
    v = out.value
    if not (isinstance(v, VTuple) and len(v.items) == 2 and isinstance(v.items[1], VObj)):
        return None, None
    return v.items[0], v.items[1].attrs


def a_loc(sit, ops, x: Dense, diagonal=False, out=("l", "m", "L")) -> Dense:
    """the specified local operator applied to x (axes r,n,R)"""
    if diagonal:
        return expr(sit, [(ops["PhiL"].dense(), "lsr"), (ops["A"].dense(), "smS"), (ops["PhiR"].dense(), "LSR"), (x, "rmR")], list(out))
    return expr(sit, [(ops["PhiL"].dense(), "lsr"), (ops["A"].dense(), "smnS"), (ops["PhiR"].dense(), "LSR"), (x, "rnR")], list(out))


def _vec(sit, d: Dense) -> Dense:
    """column vector (merged axis, unit axis) of a 3-axis tensor"""
    ts = []
    for t in d.terms:
        ax = ()
        for o in t.out:
            ax = ax + tuple(o)
        ts.append(Term(t.coef, t.atoms, [ax, ()]))
    return Dense(sit.sp, ts)


def _cmp(out, got, exp, what):
    if not isinstance(got, VTensor):
        return [("result", False, f"{what}: a {type(got).__name__} is produced where a tensor is specified")]
    ok, detail, _ = compare(out.space, got, exp)
    return [("result", ok, f"{what} is the specified local network" if ok else f"{what} differs from the specified local network: {detail}")]


def _call(it, model, short, args, kwargs=None):
    from .torchmodel import function
    f = model.func(short)
    return function(it, f.qual, args, kwargs or {}, None, None)


# --------------------------------------------------------------------------- interface layouts are the code's choice

import itertools


def _perm(v: VTensor, perm) -> VTensor:
    return VTensor(v.dense().permute(list(perm)), v.dtype)


def _fits(it, thunk):
    """run thunk(); True when it makes no identification of two different generic sizes (the attempt leaves no trace otherwise)"""
    sp = it.sp
    n0 = len(sp.obligations)
    try:
        val = thunk()
    except Unmodelled as u:
        del sp.obligations[n0:]
        it.layout_unmodelled = str(u)        # the recursion could not be evaluated at all: not a question of axis order
        return None
    except TypeViolation:
        del sp.obligations[n0:]
        return None
    bad = [ob for ob in sp.obligations[n0:] if not ob["ok"] and ob["a"] != ob["b"]]
    del sp.obligations[n0:]
    return None if bad else val


def infer_layout(it, nax, call_with, what):
    """The axis order in which an interface array is kept is the code's own choice (any consistent order is correct).  It is
    read off the forward recursion: the one permutation of the canonical axes (row rank, operator rank, column rank) under
    which the recursion makes no identification of two independent sizes."""
    it.layout_unmodelled = None
    for perm in itertools.permutations(range(nax)):
        if _fits(it, lambda: call_with(perm)) is not None:
            return perm
    if getattr(it, "layout_unmodelled", None):
        raise Unmodelled(f"{what}: the interface recursion leaves the modelled fragment ({it.layout_unmodelled})")
    raise TypeViolation(f"{what}: under no axis order of the incoming interface does the recursion contract matching sizes only "
                        "(each axis of the interface must meet the like-named bond of exactly one core)")


def layouts(it, model, mod, prefix, diagonal):
    key = (mod, diagonal)
    memo = it.__dict__.setdefault("_layouts", {})
    if key in memo:
        return memo[key]
    ops = operands(it, diagonal)
    piA = infer_layout(it, 3, lambda pm: _call(it, model, f"{mod}.{prefix}compute_phi_fwd_A", [_perm(ops["PhiL"], pm), ops["y"], ops["A"], ops["x"]]),
                       f"{mod}.{prefix}compute_phi_fwd_A")
    rops = _rhs_operands(it)
    pib = infer_layout(it, 2, lambda pm: _call(it, model, f"{mod}.{prefix}compute_phi_fwd_rhs", [_perm(rops["PhibL"], pm), rops["b"], rops["x"]]),
                       f"{mod}.{prefix}compute_phi_fwd_rhs")
    memo[key] = (piA, pib)
    return memo[key]


MODS = {"solvers": ("solvers", "_", False), "division": ("_division", "", True)}

# --------------------------------------------------------------------------- local product (einsum form)

def _drv_local_product(mod, fn, diagonal):
    def drv(it, model):
        piA, _ = layouts(it, model, mod, "_" if mod == "solvers" else "", diagonal)
        ops = operands(it, diagonal)
        args = [_perm(ops["PhiR"], piA), _perm(ops["PhiL"], piA), ops["A"], ops["x"], ops["shape"]]
        return _pack(_call(it, model, f"{mod}.{fn}", args), ops)
    return drv


def _chk_local_product(diagonal):
    def check(out):
        got, ops = _unpack(out)
        sit = SpecIt(out.space, out.facts)
        return _cmp(out, got, a_loc(sit, ops, ops["x"].dense(), diagonal), "local product")
    return check


scn(name="solvers._local_product", func="solvers._local_product", props=("C12",), args=None, driver=_drv_local_product("solvers", "_local_product", False),
    check=_chk_local_product(False), strict_sizes=True)
scn(name="division.local_product", func="_division.local_product", props=("C13",), args=None, driver=_drv_local_product("_division", "local_product", True),
    check=_chk_local_product(True), strict_sizes=True)


# --------------------------------------------------------------------------- _LinearOp.matvec (all branches)

def _jacobi_c(sit, ops, diagonal):
    """central Jacobi blocks: J[d, D, m, n] = sum_s,S Phi_left[d,s,d] A[s,m,n,S] Phi_right[D,S,D]  (inverse over (m, n))"""
    if diagonal:
        j = expr(sit, [(ops["PhiL"].dense(), "dsd"), (ops["A"].dense(), "smS"), (ops["PhiR"].dense(), "DSD")], ["d", "m", "D"])
        return net.recip_atom(sit.sp, j)
    j = expr(sit, [(ops["PhiL"].dense(), "dsd"), (ops["A"].dense(), "smnS"), (ops["PhiR"].dense(), "DSD")], ["d", "D", "m", "n"])
    return net.inv_atom(sit.sp, j)


def _jacobi_r(sit, ops):
    """right Jacobi blocks: J[d, (m L), (n R)] = sum_s,S Phi_left[d,s,d] A[s,m,n,S] Phi_right[L,S,R]  (inverse over ((m,L),(n,R)))"""
    j = expr(sit, [(ops["PhiL"].dense(), "dsd"), (ops["A"].dense(), "smnS"), (ops["PhiR"].dense(), "LSR")], ["d", "mL", "nR"])
    ji = net.inv_atom(sit.sp, j)
    # un-merge to d, m, L, n, R
    ts = []
    for t in ji.terms:
        o = t.out
        ts.append(Term(t.coef, t.atoms, [o[0], (o[1][0],), (o[1][1],), (o[2][0],), (o[2][1],)]))
    return Dense(sit.sp, ts)


def precond(sit, ops, prec, x: Dense, diagonal) -> Dense:
    if prec is None:
        return x
    if prec == "c":
        if diagonal:
            return expr(sit, [(x, "rmR"), (_jacobi_c(sit, ops, True), "rmR")], ["r", "m", "R"])
        return expr(sit, [(x, "rnR"), (_jacobi_c(sit, ops, False), "rRmn")], ["r", "m", "R"])
    return expr(sit, [(x, "rnR"), (_jacobi_r(sit, ops), "rmLnR")], ["r", "m", "L"])


def _drv_matvec(cls, prec, diagonal, apply_prec=True, method="matvec"):
    def drv(it, model):
        mod = cls.split(".")[1]
        piA, _ = layouts(it, model, mod, "_" if mod == "solvers" else "", diagonal)
        ops = operands(it, diagonal, square=prec is not None)
        pv = VNone() if prec is None else VStr(prec)
        cargs = [_perm(ops["PhiL"], piA), _perm(ops["PhiR"], piA), ops["A"], ops["shape"], pv]
        from .torchmodel import function
        op = function(it, cls, cargs, {}, None, None)
        from .torchmodel import method as call_method
        if method == "matvec":
            val = call_method(it, op, "matvec", [ops["xvec"]] + ([] if apply_prec else [VBool(False)]), {}, None, None)
        else:
            val = call_method(it, op, "apply_prec", [ops["x"]], {}, None, None)
        return _pack(val, ops)
    return drv


def _chk_matvec(prec, diagonal, apply_prec=True, method="matvec"):
    def check(out):
        got, ops = _unpack(out)
        sit = SpecIt(out.space, out.facts)
        x = ops["x"].dense()
        if method == "apply_prec":
            return _cmp(out, got, precond(sit, ops, prec, x, diagonal), f"apply_prec('{prec}')")
        px = precond(sit, ops, prec if apply_prec else None, x, diagonal)
        exp = _vec(sit, a_loc(sit, ops, px, diagonal))
        return _cmp(out, got, exp, f"matvec(prec={prec!r}, apply_prec={apply_prec})")
    return check


for _prec in (None, "c", "r"):
    for _ap in (True, False):
        scn(name=f"solvers._LinearOp.matvec:prec={_prec},apply={_ap}", func="solvers._LinearOp.matvec", props=("C12",), args=None,
            driver=_drv_matvec("torchtt.solvers._LinearOp", _prec, False, _ap), check=_chk_matvec(_prec, False, _ap), strict_sizes=True)
    if _prec:
        scn(name=f"solvers._LinearOp.apply_prec:prec={_prec}", func="solvers._LinearOp.apply_prec", props=("C12",), args=None,
            driver=_drv_matvec("torchtt.solvers._LinearOp", _prec, False, True, "apply_prec"), check=_chk_matvec(_prec, False, True, "apply_prec"),
            strict_sizes=True)
for _prec in (None, "c"):
    for _ap in (True, False):
        scn(name=f"division.LinearOp.matvec:prec={_prec},apply={_ap}", func="_division.LinearOp.matvec", props=("C13",), args=None,
            driver=_drv_matvec("torchtt._division.LinearOp", _prec, True, _ap), check=_chk_matvec(_prec, True, _ap), strict_sizes=True)
scn(name="division.LinearOp.apply_prec:prec=c", func="_division.LinearOp.apply_prec", props=("C13",), args=None,
    driver=_drv_matvec("torchtt._division.LinearOp", "c", True, True, "apply_prec"), check=_chk_matvec("c", True, True, "apply_prec"), strict_sizes=True)


# --------------------------------------------------------------------------- band-diagonal operator: every attribute read is assigned

def _drv_band(prec):
    def drv(it, model):
        ops = operands(it, False, square=True)
        pv = VNone() if prec is None else VStr(prec)
        from .torchmodel import function, method as call_method
        op = function(it, "torchtt.solvers._LinearOp", [ops["PhiL"], ops["PhiR"], ops["A"], ops["shape"], pv, VInt(P.atom("band"))], {}, None, None)
        return _pack(call_method(it, op, "matvec", [ops["xvec"]], {}, None, None), ops)
    return drv


# --------------------------------------------------------------------------- interface recursions: adjoint to the local operator

def _drv_phi(mod, prefix, diagonal):
    def drv(it, model):
        piA, _ = layouts(it, model, mod, prefix, diagonal)
        ops = operands(it, diagonal)
        fwd = _call(it, model, f"{mod}.{prefix}compute_phi_fwd_A", [_perm(ops["PhiL"], piA), ops["y"], ops["A"], ops["x"]])
        bck = _call(it, model, f"{mod}.{prefix}compute_phi_bck_A", [_perm(ops["PhiR"], piA), ops["y"], ops["A"], ops["x"]])
        ops["pi"] = piA
        return _pack(VTuple((fwd, bck)), ops)
    return drv


def _chk_phi(diagonal):
    def check(out):
        got, ops = _unpack(out)
        sit = SpecIt(out.space, out.facts)
        fwd, bck = got.items
        res = []
        a = "smS" if diagonal else "smnS"
        xs = "rmR" if diagonal else "rnR"
        exp_f = expr(sit, [(ops["PhiL"].dense(), "lsr"), (ops["y"].dense(), "lmL"), (ops["A"].dense(), a), (ops["x"].dense(), xs)], ["L", "S", "R"])
        exp_b = expr(sit, [(ops["PhiR"].dense(), "LSR"), (ops["y"].dense(), "lmL"), (ops["A"].dense(), a), (ops["x"].dense(), xs)], ["l", "s", "r"])
        pi = list(ops["pi"])
        for nm, g, e in (("forward", fwd, exp_f), ("backward", bck, exp_b)):
            r = _cmp(out, g, e.permute(pi), f"{nm} interface of <y, A x> (the local operator with the core contracted on the "
                                            f"{'left' if nm == 'forward' else 'right'}; interface kept in axis order {pi} of (row rank, operator rank, column rank))")
            res.append((nm, r[0][1], r[0][2]))
        return res
    return check


scn(name="solvers.compute_phi_A", func="solvers._compute_phi_fwd_A", props=("C12",), args=None, driver=_drv_phi("solvers", "_", False),
    check=_chk_phi(False), strict_sizes=True)
scn(name="division.compute_phi_A", func="_division.compute_phi_fwd_A", props=("C13",), args=None, driver=_drv_phi("_division", "", True),
    check=_chk_phi(True), strict_sizes=True)


def _rhs_operands(it):
    sp = it.sp
    b, B, r, R, n = _sz("R_b"), _sz("R'_b"), _sz("r_col"), _sz("r'_col"), _sz("n_col")
    for a in ("R_b", "R'_b", "r_col", "r'_col", "n_col"):
        it.facts.lb[a] = 1
    return {"PhibL": VTensor(net.atom_tensor(sp, "Phib_left", [b, r], tags=["rhs rank (left)", "solution rank (left)"])),
            "PhibR": VTensor(net.atom_tensor(sp, "Phib_right", [B, R], tags=["rhs rank (right)", "solution rank (right)"])),
            "b": VTensor(net.atom_tensor(sp, "b_k", [b, n, B], tags=["rhs rank (left)", "mode", "rhs rank (right)"])),
            "x": VTensor(net.atom_tensor(sp, "x_k", [r, n, R], tags=["solution rank (left)", "mode", "solution rank (right)"]))}


def _drv_phi_rhs(mod, prefix):
    def drv(it, model):
        _, pib = layouts(it, model, mod, prefix, mod == "_division")
        ops = _rhs_operands(it)
        fwd = _call(it, model, f"{mod}.{prefix}compute_phi_fwd_rhs", [_perm(ops["PhibL"], pib), ops["b"], ops["x"]])
        bck = _call(it, model, f"{mod}.{prefix}compute_phi_bck_rhs", [_perm(ops["PhibR"], pib), ops["b"], ops["x"]])
        ops["pi"] = pib
        return _pack(VTuple((fwd, bck)), ops)
    return drv


def _chk_phi_rhs(out):
    got, ops = _unpack(out)
    sit = SpecIt(out.space, out.facts)
    fwd, bck = got.items
    exp_f = expr(sit, [(ops["PhibL"].dense(), "br"), (ops["b"].dense(), "bnB"), (ops["x"].dense(), "rnR")], ["B", "R"])
    exp_b = expr(sit, [(ops["PhibR"].dense(), "BR"), (ops["b"].dense(), "bnB"), (ops["x"].dense(), "rnR")], ["b", "r"])
    res = []
    pi = list(ops["pi"])
    for nm, g, e in (("forward", fwd, exp_f), ("backward", bck, exp_b)):
        r = _cmp(out, g, e.permute(pi), f"{nm} right-hand-side interface <x, b> (kept in axis order {pi} of (rhs rank, solution rank))")
        res.append((nm, r[0][1], r[0][2]))
    return res


scn(name="solvers.compute_phi_rhs", func="solvers._compute_phi_fwd_rhs", props=("C12",), args=None, driver=_drv_phi_rhs("solvers", "_"),
    check=_chk_phi_rhs, strict_sizes=True)
scn(name="division.compute_phi_rhs", func="_division.compute_phi_fwd_rhs", props=("C13",), args=None, driver=_drv_phi_rhs("_division", ""),
    check=_chk_phi_rhs, strict_sizes=True)


# --------------------------------------------------------------------------- AMEn matrix product (C11): local right-hand side and interfaces

def _mm_operands(it):
    sp = it.sp
    names = ("r_x", "r'_x", "R_A", "R'_A", "R_B", "R'_B", "m_row", "k_mid", "n_col")
    for a in names:
        it.facts.lb[a] = 1
    r, R, a, A, b, B, m, k, n = (_sz(x) for x in names)
    return {"PhiL": VTensor(net.atom_tensor(sp, "Phi_left", [r, a, b], tags=["result rank (left)", "rank of A (left)", "rank of B (left)"])),
            "PhiR": VTensor(net.atom_tensor(sp, "Phi_right", [R, A, B], tags=["result rank (right)", "rank of A (right)", "rank of B (right)"])),
            "A": VTensor(net.atom_tensor(sp, "A_k", [a, m, k, A], tags=["rank of A (left)", "row mode", "contracted mode", "rank of A (right)"])),
            "B": VTensor(net.atom_tensor(sp, "B_k", [b, k, n, B], tags=["rank of B (left)", "contracted mode", "column mode", "rank of B (right)"])),
            "x": VTensor(net.atom_tensor(sp, "x_k", [r, m, n, R], tags=["result rank (left)", "row mode", "column mode", "result rank (right)"]))}


def _drv_mm(it, model):
    ops = _mm_operands(it)
    pi = infer_layout(it, 3, lambda pm: _call(it, model, "_amen._compute_phi_fwd_AB", [_perm(ops["PhiL"], pm), ops["A"], ops["B"], ops["x"]]),
                      "_amen._compute_phi_fwd_AB")
    ops["pi"] = pi
    loc = _call(it, model, "_amen._local_AB", [_perm(ops["PhiL"], pi), _perm(ops["PhiR"], pi), ops["A"], ops["B"]])
    fwd = _call(it, model, "_amen._compute_phi_fwd_AB", [_perm(ops["PhiL"], pi), ops["A"], ops["B"], ops["x"]])
    bck = _call(it, model, "_amen._compute_phi_bck_AB", [_perm(ops["PhiR"], pi), ops["A"], ops["B"], ops["x"]])
    return _pack(VTuple((loc, fwd, bck)), ops)


def _chk_mm(out):
    got, ops = _unpack(out)
    sit = SpecIt(out.space, out.facts)
    loc, fwd, bck = got.items
    base = [(ops["A"].dense(), "amkA"), (ops["B"].dense(), "bknB")]
    exp_loc = expr(sit, [(ops["PhiL"].dense(), "rab")] + base + [(ops["PhiR"].dense(), "RAB")], ["r", "m", "n", "R"])
    exp_fwd = expr(sit, [(ops["PhiL"].dense(), "rab")] + base + [(ops["x"].dense(), "rmnR")], ["R", "A", "B"])
    exp_bck = expr(sit, [(ops["PhiR"].dense(), "RAB")] + base + [(ops["x"].dense(), "rmnR")], ["r", "a", "b"])
    res = []
    pi = list(ops["pi"])
    for nm, g, e in (("local", loc, exp_loc), ("forward", fwd, exp_fwd.permute(pi)), ("backward", bck, exp_bck.permute(pi))):
        r = _cmp(out, g, e, f"{nm} projection of the product core (A_k B_k contracted over the middle mode)")
        res.append((nm, r[0][1], r[0][2]))
    return res


scn(name="amen_mm.local_AB+interfaces", func="_amen._local_AB", props=("C11",), args=None, driver=_drv_mm, check=_chk_mm, strict_sizes=True)


def _drv_mm_x(it, model):
    sp = it.sp
    names = ("r_y", "r'_y", "r_x", "r'_x", "m_row", "n_col")
    for a in names:
        it.facts.lb[a] = 1
    l, L, r, R, m, n = (_sz(x) for x in names)
    ops = {"PhiL": VTensor(net.atom_tensor(sp, "Phi_left", [l, r])), "PhiR": VTensor(net.atom_tensor(sp, "Phi_right", [L, R])),
           "y": VTensor(net.atom_tensor(sp, "y_k", [l, m, n, L])), "x": VTensor(net.atom_tensor(sp, "x_k", [r, m, n, R]))}
    pi = infer_layout(it, 2, lambda pm: _call(it, model, "_amen._compute_phi_fwd_x", [_perm(ops["PhiL"], pm), ops["y"], ops["x"]]), "_amen._compute_phi_fwd_x")
    ops["pi"] = pi
    fwd = _call(it, model, "_amen._compute_phi_fwd_x", [_perm(ops["PhiL"], pi), ops["y"], ops["x"]])
    bck = _call(it, model, "_amen._compute_phi_bck_x", [_perm(ops["PhiR"], pi), ops["y"], ops["x"]])
    return _pack(VTuple((fwd, bck)), ops)


def _chk_mm_x(out):
    got, ops = _unpack(out)
    sit = SpecIt(out.space, out.facts)
    fwd, bck = got.items
    exp_f = expr(sit, [(ops["PhiL"].dense(), "lr"), (ops["y"].dense(), "lmnL"), (ops["x"].dense(), "rmnR")], ["L", "R"])
    exp_b = expr(sit, [(ops["PhiR"].dense(), "LR"), (ops["y"].dense(), "lmnL"), (ops["x"].dense(), "rmnR")], ["l", "r"])
    res = []
    pi = list(ops["pi"])
    for nm, g, e in (("forward", fwd, exp_f.permute(pi)), ("backward", bck, exp_b.permute(pi))):
        r = _cmp(out, g, e, f"{nm} Gram interface <y, x>")
        res.append((nm, r[0][1], r[0][2]))
    return res


scn(name="amen_mm.gram_interfaces", func="_amen._compute_phi_fwd_x", props=("C11",), args=None, driver=_drv_mm_x, check=_chk_mm_x, strict_sizes=True)
