"""One iteration of a sweep as a function.

The truncation / swap sweeps of the library (`for i in range(d-1, 0, -1): ...`, `while inversions: for i in range(d-1): if <inversion>: ...`)
are loops whose *iterations* have a simple contract (what the two touched cores are afterwards), while the loop as a whole is outside the
modelled fragment (run-time ranks, data-dependent trip counts).  `step_function` turns the statements of one iteration - read from the
analysed tree on every run - into a synthetic function

    def <name>__step(<free names, sorted>):
        <the statements, with `continue` replaced by `return <carried>`>
        return <carried>

that the E5 interpreter evaluates path by path like any other function: a fast path that leaves the iteration early is one more path,
and the iteration's contract is checked on it too.  The factorisations are modelled by their shape laws through hooks (`factor_hooks`):
SVD(A) = (U, S, V) with fresh atoms svdU/svdS/svdV[<canonical form of A>] of sizes m x p, p, p x n for a fresh rank p >= 1; QR alike;
rank_chop returns a fresh positive integer."""
from __future__ import annotations

import ast
import copy

from ..model import Func, Model
from . import net
from .net import TypeViolation, Unmodelled
from .sym import P, ONE
from .values import *


class _ContinueToReturn(ast.NodeTransformer):
    def __init__(self, ret):
        self.ret = ret

    def visit_For(self, n):      # a `continue` of an inner loop stays what it is
        return n

    visit_While = visit_For

    def visit_Continue(self, n):
        return ast.copy_location(ast.Return(value=copy.deepcopy(self.ret)), n)


def step_function(model: Model, f: Func, stmts: list, carried: list[str], name: str):
    """(synthetic Func, parameter names)"""
    local_names = set(f.params()) | {n.id for n in ast.walk(f.node) if isinstance(n, ast.Name) and isinstance(n.ctx, ast.Store)}
    loaded = []
    for s in stmts:
        for n in ast.walk(s):
            if isinstance(n, ast.Name) and n.id in local_names and n.id not in loaded:
                loaded.append(n.id)
    params = sorted(loaded)
    ret = ast.Tuple(elts=[ast.Name(id=c, ctx=ast.Load()) for c in carried], ctx=ast.Load())
    body = [_ContinueToReturn(ret).visit(copy.deepcopy(s)) for s in stmts]
    body.append(ast.Return(value=copy.deepcopy(ret)))
    node = ast.FunctionDef(name=name, args=ast.arguments(posonlyargs=[], args=[ast.arg(arg=p) for p in params], kwonlyargs=[], kw_defaults=[], defaults=[]),
                           body=body, decorator_list=[], returns=None, type_comment=None)
    ast.copy_location(node, stmts[0])
    ast.fix_missing_locations(node)
    return Func(f"{f.qual}#{name}", f.module, node, None), params


def _axis_sizes(sp, d, k):
    ws = [w for w in d.terms[0].out[k] if not sp.is_unit(w)]
    tot = ONE
    for w in ws:
        tot = tot * sp.sz(w)
    return tot, [sp.sz(w) for w in ws]


def _factor(it, args, kind):
    if not args or not isinstance(args[0], VTensor):
        raise Unmodelled(f"{kind} of a value that is not a tensor")
    d = args[0].dense()
    if d.ndim() != 2:
        raise TypeViolation(f"{kind} of a tensor with {d.ndim()} axes (a matrix is needed)")
    if not d.terms:
        raise Unmodelled(f"{kind} of the zero tensor")
    sp = it.sp
    pn = it.fresh_atom("p")
    it.facts.lb[pn] = 1
    p = P.atom(pn)
    canon = d.canon()
    m, mparts = _axis_sizes(sp, d, 0)
    n, nparts = _axis_sizes(sp, d, 1)
    left = net.atom_tensor(sp, f"{kind}{'U' if kind == 'svd' else 'Q'}[{canon}]", [m, p], merged={0: mparts} if len(mparts) > 1 else None)
    right = net.atom_tensor(sp, f"{kind}{'V' if kind == 'svd' else 'R'}[{canon}]", [p, n], merged={1: nparts} if len(nparts) > 1 else None)
    if kind == "svd":
        s = net.atom_tensor(sp, f"svdS[{canon}]", [p])
        return VTuple((VTensor(left, args[0].dtype), VTensor(s, args[0].dtype), VTensor(right, args[0].dtype)))
    return VTuple((VTensor(left, args[0].dtype), VTensor(right, args[0].dtype)))


def factor_hooks():
    def svd(it, args, kwargs, fr, node):
        return _factor(it, args, "svd")

    def qr(it, args, kwargs, fr, node):
        return _factor(it, args, "qr")

    def rank_chop(it, args, kwargs, fr, node):
        rn = it.fresh_atom("r_kept")
        it.facts.lb[rn] = 1
        return VInt(P.atom(rn))
    return {("function", "torchtt._decomposition.SVD"): svd, ("function", "torchtt._decomposition.QR"): qr,
            ("function", "torchtt._decomposition.rank_chop"): rank_chop}
