"""E5 scenario catalogue, part 7: the contract of ONE ITERATION of the truncation sweep of round_tt (C02) and of the core exchange of
permute (C10).  The iteration bodies are read from the analysed tree on every run (ttsa/e5/stepfn.py) and evaluated on every path.

round_tt, iteration i (carried matrix W = the part of the tensor to the right of bond i, cores 0..i-1 left-orthogonal):
    afterwards cores[i] is the kept right singular factor of W (an isometry: this is what makes the next truncation measure the error of
    the whole tensor), of shape R[i] x n_i x R[i+1] with the *new* R[i]; cores[i-1] is the old core times the kept U S; the carried
    matrix is that product.  An iteration that ends without storing the singular factor (a shortcut "nothing is cut here") leaves a
    non-orthogonal core behind and every later truncation is measured in the wrong norm.

permute, exchange of the neighbouring cores i, i+1 (shapes a x n x b and b x m x c):
    afterwards cores[i] is a x m x q and cores[i+1] is q x n x c for one common q.  A shortcut that swaps the two list
    entries is only right when all three bonds are 1."""
from __future__ import annotations

import ast

from . import net
from .net import TypeViolation, Unmodelled
from .scenarios import scn
from .stepfn import step_function, factor_hooks
from .sym import P, ONE
from .values import *


def _sz(name):
    return P.atom(name)


def _train(it, d, ttm, prefix="c"):
    """cores c0..c(d-1) with pairwise independent sizes; boundary ranks 1"""
    sp = it.sp
    ranks = [ONE] + [_sz(f"r{j}") for j in range(1, d)] + [ONE]
    for j in range(1, d):
        it.facts.lb[f"r{j}"] = 1
    cores, modes = [], []
    for j in range(d):
        it.facts.lb[f"n{j}"] = 1
        it.facts.lb[f"m{j}"] = 1
        md = [_sz(f"m{j}"), _sz(f"n{j}")] if ttm else [_sz(f"n{j}")]
        modes.append(md)
        cores.append(VTensor(net.atom_tensor(sp, f"{prefix}{j}", [ranks[j]] + md + [ranks[j + 1]]), "dtype:x"))
    return cores, ranks, modes


def _read_before_write(stmts):
    from ..flow import DefAssign
    fn = ast.FunctionDef(name="_body", args=ast.arguments(posonlyargs=[], args=[], kwonlyargs=[], kw_defaults=[], defaults=[]),
                         body=list(stmts), decorator_list=[], lineno=1, col_offset=0)
    return {u.name for u in DefAssign(fn, {}, set()).run()}


def _stored(stmts):
    return {n.id for s in stmts for n in ast.walk(s) if isinstance(n, ast.Name) and isinstance(n.ctx, ast.Store)}


def _mentions(v, *atoms):
    if not isinstance(v, VTensor):
        return False
    txt = v.dense().canon()
    return all(a in txt for a in atoms)


def _shape_is(out, v, want, what):
    """[(ok, detail)]: every axis of v has provably the wanted size (the sizes are independent atoms: anything else has a counterexample)"""
    if not isinstance(v, VTensor):
        return False, f"{what} is a {type(v).__name__}, not a tensor"
    shp = v.block().shape()
    if len(shp) != len(want):
        return False, f"{what} has {len(shp)} axes where {len(want)} are needed"
    for k, (a, b) in enumerate(zip(shp, want)):
        if out.facts.norm(a) != out.facts.norm(b):
            return False, f"axis {k} of {what} has size {out.facts.norm(a)!r} where {out.facts.norm(b)!r} is needed"
    return True, ""


# --------------------------------------------------------------------------- round_tt: one truncation step

def _round_loop(model):
    f = model.func("_decomposition.round_tt")
    for s in f.node.body:
        if isinstance(s, ast.For) and isinstance(s.target, ast.Name) and any(
                isinstance(c, ast.Call) and (model.resolve(f.module, c.func) or "").endswith("_decomposition.SVD") for c in ast.walk(s)):
            return f, s
    raise Unmodelled("the truncating sweep of round_tt (a for loop calling SVD) was not found")


def _drv_round_step(i, ttm):
    def drv(it, model):
        f, lp = _round_loop(model)
        carried = sorted(_read_before_write(lp.body) & _stored(lp.body))
        if len(carried) != 1:
            raise Unmodelled(f"round_tt: expected one loop-carried matrix, found {carried}")
        fn, params = step_function(model, f, lp.body, carried, "round_step")
        d = 4
        cores, ranks, modes = _train(it, d, ttm)
        w = VTensor(net.atom_tensor(it.sp, "W", [ranks[i]] + modes[i] + [ranks[i + 1]]), "dtype:x")
        cl, rl = VList(list(cores)), VList([VInt(r) for r in ranks])
        fp = f.params()
        vals = {lp.target.id: VInt(P.const(i)), fp[0]: cl, fp[1]: rl, fp[2]: VScalar(net.Coef.sym("eps")), carried[0]: w}
        if len(fp) > 3:
            for j in range(d + 1):
                it.facts.lb[f"rmax{j}"] = 1
            vals[fp[3]] = VList([VInt(_sz(f"rmax{j}")) for j in range(d + 1)])
        if len(fp) > 4:
            vals[fp[4]] = VBool(ttm)
        from ..rules import order_names
        for o in order_names(f.node):
            vals.setdefault(o, VInt(P.const(d)))
        res = it.call_function(fn, [vals.get(p, VOpaque("free:" + p)) for p in params], {})
        return VTuple((res, VObj("_state", {"cores": cl, "R": rl, "i": VInt(P.const(i)), "ranks": VList([VInt(r) for r in ranks]),
                                            "modes": VList([VList([VInt(x) for x in md]) for md in modes])})))
    return drv


def _chk_round_step(out):
    v = out.value
    if not (isinstance(v, VTuple) and len(v.items) == 2 and isinstance(v.items[1], VObj)):
        return [("result", False, "the iteration could not be evaluated")]
    st = v.items[1].attrs
    i = int(st["i"].p.const_value())
    cores, R = st["cores"].items, st["R"].items
    ranks = [x.p for x in st["ranks"].items]
    modes = [[x.p for x in md.items] for md in st["modes"].items]
    res = []
    new_r = R[i].p if isinstance(R[i], VInt) else None
    ok = _mentions(cores[i], "svdV[")
    res.append(("orthogonal-factor", ok, "cores[i] is the kept right singular factor of the carried matrix" if ok else
                "an iteration of the truncating sweep ends with cores[i] not being the right singular factor of the carried matrix: the core is left "
                "non-orthogonal, so the truncations at the bonds to its left are not measured in the norm of the whole tensor and eps is not met"))
    ok2 = _mentions(cores[i - 1], "svdU[", "svdS[", f"c{i - 1}")
    res.append(("carry", ok2, "cores[i-1] is the old core times the kept U S" if ok2 else
                "an iteration of the truncating sweep ends without multiplying the kept U S into cores[i-1]: the product of the cores is no longer the tensor"))
    if new_r is None:
        res.append(("shape", False, "R[i] is not an integer after the iteration"))
        return res
    a, why = _shape_is(out, cores[i], [new_r] + modes[i] + [ranks[i + 1]], "cores[i]")
    b, why2 = _shape_is(out, cores[i - 1], [ranks[i - 1]] + modes[i - 1] + [new_r], "cores[i-1]")
    res.append(("shape", a and b, "both cores agree with the updated rank list" if a and b else f"after the iteration {why or why2}: the rank list no longer describes the cores"))
    carried = v.items[0].items[0] if isinstance(v.items[0], VTuple) and v.items[0].items else None
    ok3 = _mentions(carried, "svdU[", f"c{i - 1}")
    res.append(("carried", ok3, "the carried matrix is the updated left neighbour" if ok3 else
                "the matrix carried into the next iteration is not the updated cores[i-1]: the next truncation does not see the part of the tensor to its right"))
    return res


# (the per-iteration scenarios of round_tt were superseded by the evaluation of the whole function at orders 2-4 further down, which also
# covers sweeps written as while loops; the helpers above are kept for the permute exchange)


# --------------------------------------------------------------------------- permute: one exchange of neighbouring cores

def _adjacent_store(s, iv):
    """names of lists of which both entries [iv] and [iv + 1] are stored in statement list s"""
    got = {}
    for st in s:
        for n in ast.walk(st):
            if isinstance(n, ast.Subscript) and isinstance(n.ctx, ast.Store) and isinstance(n.value, ast.Name):
                t = ast.unparse(n.slice).replace(" ", "")
                if t in (iv, f"{iv}+1"):
                    got.setdefault(n.value.id, set()).add(t)
    return {k for k, v in got.items() if len(v) == 2}


def _swap_branch(model):
    """(function, position loop, statements of one exchange): the innermost statement list inside a `for <i> in ...` loop that stores entries
    i and i+1 of two lists (the index list and the core list) - the body of `if <inversion>:` or, with a guard clause `if not <inversion>:
    continue`, the loop body itself"""
    f = model.func("_extras.permute")
    best = None
    for lp in ast.walk(f.node):
        if not (isinstance(lp, ast.For) and isinstance(lp.target, ast.Name)):
            continue
        blocks = [lp.body]
        for n in ast.walk(lp):
            if isinstance(n, ast.If):
                blocks += [n.body, n.orelse]
        for blk in blocks:
            if blk and len(_adjacent_store(blk, lp.target.id)) >= 2:
                size = sum(1 for st in blk for _ in ast.walk(st))
                if best is None or size < best[0]:
                    best = (size, lp, blk)
    if best is None:
        raise Unmodelled("the exchange of permute (statements storing entries i and i+1 of the index list and of the core list) was not found")
    return f, best[1], best[2]


def _drv_swap(i, ttm):
    def drv(it, model):
        f, lp, stmts = _swap_branch(model)
        fn, params = step_function(model, f, stmts, [], "swap_step")
        d = 3
        cores, ranks, modes = _train(it, d, ttm)
        cl, rl = VList(list(cores)), VList([VInt(r) for r in ranks])
        fp = f.params()
        # the orthogonalised core list and its rank list: targets of `X, Y = rl_orthogonal(...)`
        cname = rname = None
        for n in ast.walk(f.node):
            if isinstance(n, ast.Assign) and isinstance(n.targets[0], ast.Tuple) and len(n.targets[0].elts) == 2 and isinstance(n.value, ast.Call) \
                    and (model.resolve(f.module, n.value.func) or "").endswith("rl_orthogonal") and all(isinstance(x, ast.Name) for x in n.targets[0].elts):
                cname, rname = n.targets[0].elts[0].id, n.targets[0].elts[1].id
        if cname is None:
            raise Unmodelled("permute: the orthogonalised core list (`cores, R = rl_orthogonal(...)`) was not found")
        ints = _adjacent_store(stmts, lp.target.id) - {cname}
        vals = {lp.target.id: VInt(P.const(i)), cname: cl, rname: rl, fp[0]: VObj("operand", {"is_ttm": VBool(ttm)}),
                "eps": VScalar(net.Coef.sym("eps"))}
        for nm in ints:
            vals[nm] = VList([VInt(P.const(j)) for j in range(d)])
        if len(fp) > 1:
            # the requested order: every neighbouring pair of the current order is an inversion (the guard of the exchange is taken)
            vals.setdefault(fp[1], VList([VInt(P.const(j)) for j in reversed(range(d))]))
        from ..rules import order_names
        for o in order_names(f.node):
            vals.setdefault(o, VInt(P.const(d)))
        for p in params:
            if p not in vals:
                # plain integers of the bookkeeping (the two index values, the restart position)
                vals[p] = VInt(P.const(0))
        it.call_function(fn, [vals[p] for p in params], {})
        return VTuple((VNone(), VObj("_state", {"cores": cl, "R": rl, "i": VInt(P.const(i)), "ranks": VList([VInt(r) for r in ranks]),
                                                "modes": VList([VList([VInt(x) for x in md]) for md in modes])})))
    return drv


def _chk_swap(out):
    v = out.value
    if not (isinstance(v, VTuple) and len(v.items) == 2 and isinstance(v.items[1], VObj)):
        return [("result", False, "the exchange could not be evaluated")]
    st = v.items[1].attrs
    i = int(st["i"].p.const_value())
    cores, R = st["cores"].items, st["R"].items
    ranks = [x.p for x in st["ranks"].items]
    modes = [[x.p for x in md.items] for md in st["modes"].items]
    a, b = cores[i], cores[i + 1]
    if not (isinstance(a, VTensor) and isinstance(b, VTensor)):
        return [("shape", False, "the exchanged entries of the core list are not tensors")]
    sa, sb = a.block().shape(), b.block().shape()
    q = sa[-1]
    oka, why = _shape_is(out, a, [ranks[i]] + modes[i + 1] + [q], "cores[i]")
    okb, why2 = _shape_is(out, b, [q] + modes[i] + [ranks[i + 2]], "cores[i+1]")
    # (the local rank list of permute is not read again after the exchange - the result is built from the cores alone - so it is not
    # part of the contract: the operator branch stores a mode size there, which has no effect on the result)
    ok = oka and okb
    detail = why or why2
    return [("shape", ok, "the exchanged cores keep their outer bonds, swap their modes and share the new inner bond" if ok else
             f"after the exchange of cores i and i+1 {detail}: neighbouring cores no longer agree (only a pair whose three bonds are all 1 may simply "
             "change places)")]


for _i in (0, 1):
    for _ttm in (False, True):
        scn(name=f"permute.swap:i={_i},{'ttm' if _ttm else 'tt'}", func="_extras.permute", props=("C10",), args=None,
            driver=_drv_swap(_i, _ttm), check=_chk_swap, hooks=factor_hooks(), strict_sizes=False, min_returns=1)


# --------------------------------------------------------------------------- TT.norm: the QR branch (no autograd tracking), orders 1-3

def _chk_norm_qr(d, squared):
    def check(out):
        v = out.value
        if not isinstance(v, VScalar):
            return [("result", False, f"norm() returns a {type(v).__name__} on the QR branch")]
        syms = dict(v.coef.syms)
        norms = [s for s in syms if s.startswith("norm(")]
        if len(norms) != 1 or len(syms) != 1 or v.coef.c != 1:
            return [("result", False, f"norm() on the QR branch is not a single Frobenius norm (value {v.coef.show()[:160]})")]
        s = norms[0]
        want_pow = 2 if squared else 1
        res = [("power", syms[s] == want_pow, "squared when requested" if syms[s] == want_pow else
                f"norm(squared={squared}) returns the norm to the power {syms[s]}")]
        cores_ok = all(f"x@{k}" in s for k in range(d))
        carried = d == 1 or "qrR[" in s
        no_q = "qrQ[" not in s
        ok = cores_ok and carried and no_q
        res.append(("carried-core", ok, "the norm of the last core with every triangular factor carried into it" if ok else
                    "after the QR sweep the returned value is not the norm of the last core with the triangular factors of all cores to its left carried into "
                    "it (a factor is dropped, an orthogonal factor is measured, or the wrong core is taken as the next one): ||x|| is wrong"))
        return res
    return check


for _d in (1, 2, 3):
    for _ttm in (False, True):
        for _sq in (True, False):
            from .scenarios import make_tt
            scn(name=f"norm:qr.d{_d}.{'ttm' if _ttm else 'tt'}.{'squared' if _sq else 'plain'}", func="_tt_base.TT.norm", props=("C07", "C15"),
                presets={"autograd tracking": False}, hooks=factor_hooks(),
                args=(lambda d, m, q: (lambda it: (make_tt(it, "x", m, d), [], {"squared": VBool(q)})))(_d, _ttm, _sq),
                check=_chk_norm_qr(_d, _sq))


# --------------------------------------------------------------------------- TT.norm: which branch for which tracking state (C15)

def _chk_norm_switch(tracked):
    def check(out):
        v = out.value
        txt = v.coef.show() if isinstance(v, VScalar) else (v.dense().canon() if isinstance(v, VTensor) else type(v).__name__)
        uses_qr = "qrR[" in txt or "qrQ[" in txt or (isinstance(v, VScalar) and any(s.startswith("norm(") for s, _ in v.coef.syms))
        if tracked:
            ok = not uses_qr
            return [("tracked", ok, "a tracked core (leaf or intermediate) selects the differentiable Gram chain" if ok else
                     f"core {tracked} is tracked by autograd and norm() still takes the QR sweep: the value is not differentiated through the Gram chain - "
                     "gradients of that input are wrong or lost")]
        return [("untracked", True, "no core is tracked: either branch gives the norm")]
    return check


# the tracking state is fixed by the scenario (one core tracked as a leaf / as an intermediate result, the others not): whatever the code
# asks about the cores is answered accordingly, and what it does not ask it cannot know
for _ttm in (False, True):
    from .scenarios import make_tt
    for _who, _how in (("x@0", "requires_grad"), ("x@1", "requires_grad"), ("x@0", "grad_fn"), ("x@1", "grad_fn"), ("x@2", "grad_fn"), (None, None)):
        _pre = {f"{_how} of {_who}": True, "autograd tracking": False} if _who else {"autograd tracking": False}
        scn(name=f"norm:switch.d3.{'ttm' if _ttm else 'tt'}.{_how or 'none'}({_who or '-'})", func="_tt_base.TT.norm", props=("C15",), hooks=factor_hooks(),
            presets=_pre, args=(lambda m: (lambda it: (make_tt(it, "x", m, 3), [], {})))(_ttm),
            check=_chk_norm_switch(f"{_who} ({_how})" if _who else None))


# --------------------------------------------------------------------------- round_tt as a whole, concrete orders (C02)

def _drv_round(d, ttm):
    def drv(it, model):
        f = model.func("_decomposition.round_tt")
        cores, ranks, modes = _train(it, d, ttm)
        cl, rl = VList(list(cores)), VList([VInt(r) for r in ranks])
        for j in range(d + 1):
            it.facts.lb[f"rmax{j}"] = 1
        args = [cl, rl, VScalar(net.Coef.sym("eps")), VList([VInt(_sz(f"rmax{j}")) for j in range(d + 1)]), VBool(ttm)]
        res = it.call_function(f, args[:len(f.params())], {})
        return VTuple((res, VObj("_state", {"given": cl, "d": VInt(P.const(d)), "ranks": VList([VInt(r) for r in ranks]),
                                            "modes": VList([VList([VInt(x) for x in md]) for md in modes])})))
    return drv


def _chk_round(out):
    v = out.value
    if not (isinstance(v, VTuple) and len(v.items) == 2 and isinstance(v.items[1], VObj) and isinstance(v.items[0], VTuple) and len(v.items[0].items) == 2):
        return [("result", False, "round_tt does not return (cores, ranks)")]
    st = v.items[1].attrs
    d = int(st["d"].p.const_value())
    modes = [[x.p for x in md.items] for md in st["modes"].items]
    cores, R = v.items[0].items
    if not (isinstance(cores, VList) and len(cores.items) == d and all(isinstance(c, VTensor) for c in cores.items) and isinstance(R, VList) and len(R.items) == d + 1):
        return [("result", False, "round_tt does not return d cores and d+1 ranks")]
    txt = [c.dense().canon() for c in cores.items]
    res = []
    ok1 = all("svdV[" in txt[k] for k in range(1, d))
    res.append(("truncated-factors", ok1, "every core but the first is a kept right singular factor" if ok1 else
                "a core to the right of the first one is not the kept right singular factor of its bond: that bond was not truncated in an orthogonal gauge"))
    # the first truncation (last bond) must see the whole tensor: its matrix carries the triangular factors of the left-to-right sweep
    last = txt[d - 1]
    ok2 = "qrR[" in last and all(f"c{k}" in last for k in range(d))
    res.append(("orthogonalised-first", ok2, "the first truncated matrix carries the R factors of a left-to-right orthogonalisation of all cores" if ok2 else
                "the matrix truncated at the last bond does not carry the triangular factors of a left-to-right orthogonalisation (of every core): the SVD of a "
                "non-orthogonalised core does not measure the error of the whole tensor, so eps is not met for badly conditioned cores"))
    ok3 = "svdU[" not in last.split("svdV[", 1)[0] and (d < 3 or "svdU[" in txt[1])
    res.append(("right-to-left", ok3, "the truncation runs from the last bond to the first, carrying U S to the left" if ok3 else
                "the truncating sweep does not run from the last bond towards the first with the kept U S carried into the left neighbour"))
    ok4 = all(s in txt[0] for s in ("svdU[", "svdS[")) if d > 1 else True
    res.append(("remainder", ok4, "the first core holds the carried remainder" if ok4 else "the first core does not receive the carried U S: the product of the cores is not the tensor"))
    rr = [x.p if isinstance(x, VInt) else None for x in R.items]
    oks = None not in rr
    why = ""
    if oks:
        for k, c in enumerate(cores.items):
            a, why = _shape_is(out, c, [rr[k]] + modes[k] + [rr[k + 1]], f"core {k}")
            if not a:
                oks = False
                break
    res.append(("ranks", bool(oks), "the returned rank list describes the returned cores" if oks else f"returned ranks and cores disagree: {why}"))
    # every interior rank is capped by ITS bond's entry of the cap list: it is that entry, or a selected rank that the path found smaller
    okc, whyc = True, ""
    for i in range(1, d):
        if rr[i] is None:
            continue
        ri = repr(out.facts.norm(rr[i]))
        if ri == f"rmax{i}":
            continue
        smaller = any((k == f"{ri} < rmax{i}" and v) or (k == f"rmax{i} < {ri}" and not v) for k, v in out.decisions)
        if not (ri.startswith("r_kept") and smaller):
            okc, whyc = False, f"rank {i} is {ri}"
            break
    res.append(("cap", okc, "each interior rank is the selected rank or its own bond's cap, whichever is smaller" if okc else
                f"on this path {whyc}, which is not min(selected rank, cap of bond {i}): a rank may exceed the cap given for its bond (per-bond rmax lists)"))
    return res


for _d in (2, 3, 4):
    for _ttm in (False, True):
        scn(name=f"round_tt:d{_d}.{'ttm' if _ttm else 'tt'}", func="_decomposition.round_tt", props=("C02",), args=None,
            driver=_drv_round(_d, _ttm), check=_chk_round, hooks=factor_hooks(), tier="thorough" if _d == 4 else "quick", strict_sizes=True)


# --------------------------------------------------------------------------- to_tt (TT-SVD) as a whole, concrete orders (C01)

def _drv_to_tt(d, scalar_rmax):
    def drv(it, model):
        f = model.func("_decomposition.to_tt")
        sizes = []
        for j in range(d):
            it.facts.lb[f"n{j}"] = 1
            sizes.append(_sz(f"n{j}"))
        A = VTensor(net.atom_tensor(it.sp, "A", sizes), "dtype:x")
        for j in range(d + 1):
            it.facts.lb[f"rmax{j}"] = 1
        it.facts.lb["rmax"] = 1
        rmax = VInt(_sz("rmax")) if scalar_rmax else VList([VInt(ONE)] + [VInt(_sz(f"rmax{j}")) for j in range(1, d)] + [VInt(ONE)])
        res = it.call_function(f, [A, VList([VInt(s) for s in sizes]), VScalar(net.Coef.sym("eps")), rmax], {})
        return VTuple((res, VObj("_state", {"d": VInt(P.const(d)), "sizes": VList([VInt(s) for s in sizes]), "scalar": VBool(scalar_rmax)})))
    return drv


def _chk_to_tt(out):
    v = out.value
    if not (isinstance(v, VTuple) and len(v.items) == 2 and isinstance(v.items[1], VObj) and isinstance(v.items[0], VTuple) and len(v.items[0].items) == 2):
        return [("result", False, "to_tt does not return (cores, ranks)")]
    st = v.items[1].attrs
    d = int(st["d"].p.const_value())
    sizes = [x.p for x in st["sizes"].items]
    scalar = st["scalar"].v
    cores, R = v.items[0].items
    if not (isinstance(cores, VList) and len(cores.items) == d and all(isinstance(c, VTensor) for c in cores.items) and isinstance(R, VList) and len(R.items) == d + 1):
        return [("result", False, f"to_tt of an order-{d} array does not return {d} cores and {d + 1} ranks")]
    rr = [x.p if isinstance(x, VInt) else None for x in R.items]
    res = []
    okb = None not in rr and out.facts.norm(rr[0]) == ONE and out.facts.norm(rr[-1]) == ONE
    res.append(("boundary", okb, "boundary ranks are 1" if okb else "the boundary ranks of the decomposition are not 1"))
    oks, why = None not in rr, ""
    if oks:
        for k, c in enumerate(cores.items):
            a, why = _shape_is(out, c, [rr[k], sizes[k], rr[k + 1]], f"core {k}")
            if not a:
                oks = False
                break
    res.append(("shape", bool(oks), "core k is r_k x n_k x r_(k+1): the requested shape, described by the returned ranks" if oks else
                f"the cores do not have the requested mode sizes / do not chain with the returned ranks: {why}"))
    txt = [c.dense().canon() for c in cores.items]
    okf = all("svdU[" in txt[k] for k in range(d - 1)) and "A" in txt[0] and "svdV[" in txt[d - 1] and "svdS[" in txt[d - 1]
    res.append(("factors", okf, "cores 0..d-2 are kept left singular factors, the last core the carried S V" if okf else
                "a core is not the kept singular factor of its unfolding (or the remainder S V is not carried to the end): the product of the cores is not the truncated array"))
    okc, whyc = True, ""
    for i in range(1, d):
        if rr[i] is None:
            continue
        ri = repr(out.facts.norm(rr[i]))
        cap = "rmax" if scalar else f"rmax{i}"
        if ri == cap:
            continue
        smaller = any((k == f"{ri} < {cap}" and v_) or (k == f"{cap} < {ri}" and not v_) for k, v_ in out.decisions)
        if not (ri.startswith("r_kept") and smaller):
            okc, whyc = False, f"rank {i} is {ri}"
            break
    res.append(("cap", okc, "each interior rank is min(selected rank, its cap)" if okc else
                f"on this path {whyc}, which is not min(selected rank, {cap}): a rank may exceed rmax" + ("" if scalar else " (per-bond list)")))
    return res


for _d in (2, 3, 4):
    for _sc in (False, True):
        scn(name=f"to_tt:d{_d}.{'rmax-int' if _sc else 'rmax-list'}", func="_decomposition.to_tt", props=("C01",), args=None,
            driver=_drv_to_tt(_d, _sc), check=_chk_to_tt, hooks=factor_hooks(), tier="thorough" if _d == 4 else "quick", strict_sizes=True)
