"""E5 scenario catalogue, part 7: the contract of ONE ITERATION of the truncation sweep of round_tt (C02) and of the core exchange of
permute (C10).  The iteration bodies are read from the analysed tree on every run (ttsa/e5/stepfn.py) and evaluated on every path.

round_tt, iteration i (carried matrix W = the part of the tensor to the right of bond i, cores 0..i-1 left-orthogonal):
    afterwards cores[i] is the kept right singular factor of W (an isometry: this is what makes the next truncation measure the error of
    the whole tensor), of shape R[i] x n_i x R[i+1] with the *new* R[i]; cores[i-1] is the old core times the kept U S; the carried
    matrix is that product.  An iteration that ends without storing the singular factor (a shortcut "nothing is cut here") leaves a
    non-orthogonal core behind and every later truncation is measured in the wrong norm.

permute, exchange of the neighbouring cores i, i+1 (shapes a x n x b and b x m x c):
    afterwards cores[i] is a x m x q and cores[i+1] is q x n x c for one common q.  A shortcut that swaps the two list
    entries is only right when all three bonds are 1."""
from __future__ import annotations

import ast

from . import net
from .net import TypeViolation, Unmodelled
from .scenarios import scn
from .stepfn import step_function, factor_hooks
from .sym import P, ONE
from .values import *


def _sz(name):
    return P.atom(name)


def _train(it, d, ttm, prefix="c"):
    """cores c0..c(d-1) with pairwise independent sizes; boundary ranks 1"""
    sp = it.sp
    ranks = [ONE] + [_sz(f"r{j}") for j in range(1, d)] + [ONE]
    for j in range(1, d):
        it.facts.lb[f"r{j}"] = 1
    cores, modes = [], []
    for j in range(d):
        it.facts.lb[f"n{j}"] = 1
        it.facts.lb[f"m{j}"] = 1
        md = [_sz(f"m{j}"), _sz(f"n{j}")] if ttm else [_sz(f"n{j}")]
        modes.append(md)
        cores.append(VTensor(net.atom_tensor(sp, f"{prefix}{j}", [ranks[j]] + md + [ranks[j + 1]]), "dtype:x"))
    return cores, ranks, modes


def _read_before_write(stmts):
    from ..flow import DefAssign
    fn = ast.FunctionDef(name="_body", args=ast.arguments(posonlyargs=[], args=[], kwonlyargs=[], kw_defaults=[], defaults=[]),
                         body=list(stmts), decorator_list=[], lineno=1, col_offset=0)
    return {u.name for u in DefAssign(fn, {}, set()).run()}


def _stored(stmts):
    return {n.id for s in stmts for n in ast.walk(s) if isinstance(n, ast.Name) and isinstance(n.ctx, ast.Store)}


def _mentions(v, *atoms):
    if not isinstance(v, VTensor):
        return False
    txt = v.dense().canon()
    return all(a in txt for a in atoms)


def _shape_is(out, v, want, what):
    """[(ok, detail)]: every axis of v has provably the wanted size (the sizes are independent atoms: anything else has a counterexample)"""
    if not isinstance(v, VTensor):
        return False, f"{what} is a {type(v).__name__}, not a tensor"
    shp = v.block().shape()
    if len(shp) != len(want):
        return False, f"{what} has {len(shp)} axes where {len(want)} are needed"
    for k, (a, b) in enumerate(zip(shp, want)):
        if out.facts.norm(a) != out.facts.norm(b):
            return False, f"axis {k} of {what} has size {out.facts.norm(a)!r} where {out.facts.norm(b)!r} is needed"
    return True, ""


# --------------------------------------------------------------------------- round_tt: one truncation step

def _round_loop(model):
    f = model.func("_decomposition.round_tt")
    for s in f.node.body:
        if isinstance(s, ast.For) and isinstance(s.target, ast.Name) and any(
                isinstance(c, ast.Call) and (model.resolve(f.module, c.func) or "").endswith("_decomposition.SVD") for c in ast.walk(s)):
            return f, s
    raise Unmodelled("the truncating sweep of round_tt (a for loop calling SVD) was not found")


def _drv_round_step(i, ttm):
    def drv(it, model):
        f, lp = _round_loop(model)
        carried = sorted(_read_before_write(lp.body) & _stored(lp.body))
        if len(carried) != 1:
            raise Unmodelled(f"round_tt: expected one loop-carried matrix, found {carried}")
        fn, params = step_function(model, f, lp.body, carried, "round_step")
        d = 4
        cores, ranks, modes = _train(it, d, ttm)
        w = VTensor(net.atom_tensor(it.sp, "W", [ranks[i]] + modes[i] + [ranks[i + 1]]), "dtype:x")
        cl, rl = VList(list(cores)), VList([VInt(r) for r in ranks])
        fp = f.params()
        vals = {lp.target.id: VInt(P.const(i)), fp[0]: cl, fp[1]: rl, fp[2]: VScalar(net.Coef.sym("eps")), carried[0]: w}
        if len(fp) > 3:
            for j in range(d + 1):
                it.facts.lb[f"rmax{j}"] = 1
            vals[fp[3]] = VList([VInt(_sz(f"rmax{j}")) for j in range(d + 1)])
        if len(fp) > 4:
            vals[fp[4]] = VBool(ttm)
        from ..rules import order_names
        for o in order_names(f.node):
            vals.setdefault(o, VInt(P.const(d)))
        res = it.call_function(fn, [vals.get(p, VOpaque("free:" + p)) for p in params], {})
        return VTuple((res, VObj("_state", {"cores": cl, "R": rl, "i": VInt(P.const(i)), "ranks": VList([VInt(r) for r in ranks]),
                                            "modes": VList([VList([VInt(x) for x in md]) for md in modes])})))
    return drv


def _chk_round_step(out):
    v = out.value
    if not (isinstance(v, VTuple) and len(v.items) == 2 and isinstance(v.items[1], VObj)):
        return [("result", False, "the iteration could not be evaluated")]
    st = v.items[1].attrs
    i = int(st["i"].p.const_value())
    cores, R = st["cores"].items, st["R"].items
    ranks = [x.p for x in st["ranks"].items]
    modes = [[x.p for x in md.items] for md in st["modes"].items]
    res = []
    new_r = R[i].p if isinstance(R[i], VInt) else None
    ok = _mentions(cores[i], "svdV[")
    res.append(("orthogonal-factor", ok, "cores[i] is the kept right singular factor of the carried matrix" if ok else
                "an iteration of the truncating sweep ends with cores[i] not being the right singular factor of the carried matrix: the core is left "
                "non-orthogonal, so the truncations at the bonds to its left are not measured in the norm of the whole tensor and eps is not met"))
    ok2 = _mentions(cores[i - 1], "svdU[", "svdS[", f"c{i - 1}")
    res.append(("carry", ok2, "cores[i-1] is the old core times the kept U S" if ok2 else
                "an iteration of the truncating sweep ends without multiplying the kept U S into cores[i-1]: the product of the cores is no longer the tensor"))
    if new_r is None:
        res.append(("shape", False, "R[i] is not an integer after the iteration"))
        return res
    a, why = _shape_is(out, cores[i], [new_r] + modes[i] + [ranks[i + 1]], "cores[i]")
    b, why2 = _shape_is(out, cores[i - 1], [ranks[i - 1]] + modes[i - 1] + [new_r], "cores[i-1]")
    res.append(("shape", a and b, "both cores agree with the updated rank list" if a and b else f"after the iteration {why or why2}: the rank list no longer describes the cores"))
    carried = v.items[0].items[0] if isinstance(v.items[0], VTuple) and v.items[0].items else None
    ok3 = _mentions(carried, "svdU[", f"c{i - 1}")
    res.append(("carried", ok3, "the carried matrix is the updated left neighbour" if ok3 else
                "the matrix carried into the next iteration is not the updated cores[i-1]: the next truncation does not see the part of the tensor to its right"))
    return res


for _i in (2, 1):
    for _ttm in (False, True):
        scn(name=f"round_tt.step:i={_i},{'ttm' if _ttm else 'tt'}", func="_decomposition.round_tt", props=("C02",), args=None,
            driver=_drv_round_step(_i, _ttm), check=_chk_round_step, hooks=factor_hooks(), strict_sizes=False, min_returns=1)


# --------------------------------------------------------------------------- permute: one exchange of neighbouring cores

def _adjacent_store(s, iv):
    """names of lists of which both entries [iv] and [iv + 1] are stored in statement list s"""
    got = {}
    for st in s:
        for n in ast.walk(st):
            if isinstance(n, ast.Subscript) and isinstance(n.ctx, ast.Store) and isinstance(n.value, ast.Name):
                t = ast.unparse(n.slice).replace(" ", "")
                if t in (iv, f"{iv}+1"):
                    got.setdefault(n.value.id, set()).add(t)
    return {k for k, v in got.items() if len(v) == 2}


def _swap_branch(model):
    f = model.func("_extras.permute")
    for lp in ast.walk(f.node):
        if isinstance(lp, ast.For) and isinstance(lp.target, ast.Name):
            for s in lp.body:
                if isinstance(s, ast.If) and len(_adjacent_store(s.body, lp.target.id)) >= 2:
                    return f, lp, s
    raise Unmodelled("the exchange branch of permute (an `if` storing entries i and i+1 of the index list and of the core list) was not found")


def _drv_swap(i, ttm):
    def drv(it, model):
        f, lp, br = _swap_branch(model)
        fn, params = step_function(model, f, br.body, [], "swap_step")
        d = 3
        cores, ranks, modes = _train(it, d, ttm)
        cl, rl = VList(list(cores)), VList([VInt(r) for r in ranks])
        fp = f.params()
        # the orthogonalised core list and its rank list: targets of `X, Y = rl_orthogonal(...)`
        cname = rname = None
        for n in ast.walk(f.node):
            if isinstance(n, ast.Assign) and isinstance(n.targets[0], ast.Tuple) and len(n.targets[0].elts) == 2 and isinstance(n.value, ast.Call) \
                    and (model.resolve(f.module, n.value.func) or "").endswith("rl_orthogonal") and all(isinstance(x, ast.Name) for x in n.targets[0].elts):
                cname, rname = n.targets[0].elts[0].id, n.targets[0].elts[1].id
        if cname is None:
            raise Unmodelled("permute: the orthogonalised core list (`cores, R = rl_orthogonal(...)`) was not found")
        ints = _adjacent_store(br.body, lp.target.id) - {cname}
        vals = {lp.target.id: VInt(P.const(i)), cname: cl, rname: rl, fp[0]: VObj("operand", {"is_ttm": VBool(ttm)}),
                "eps": VScalar(net.Coef.sym("eps"))}
        for nm in ints:
            vals[nm] = VList([VInt(P.const(j)) for j in range(d)])
        from ..rules import order_names
        for o in order_names(f.node):
            vals.setdefault(o, VInt(P.const(d)))
        for p in params:
            if p not in vals:
                # plain integers of the bookkeeping (the two index values, the restart position)
                vals[p] = VInt(P.const(0))
        it.call_function(fn, [vals[p] for p in params], {})
        return VTuple((VNone(), VObj("_state", {"cores": cl, "R": rl, "i": VInt(P.const(i)), "ranks": VList([VInt(r) for r in ranks]),
                                                "modes": VList([VList([VInt(x) for x in md]) for md in modes])})))
    return drv


def _chk_swap(out):
    v = out.value
    if not (isinstance(v, VTuple) and len(v.items) == 2 and isinstance(v.items[1], VObj)):
        return [("result", False, "the exchange could not be evaluated")]
    st = v.items[1].attrs
    i = int(st["i"].p.const_value())
    cores, R = st["cores"].items, st["R"].items
    ranks = [x.p for x in st["ranks"].items]
    modes = [[x.p for x in md.items] for md in st["modes"].items]
    a, b = cores[i], cores[i + 1]
    if not (isinstance(a, VTensor) and isinstance(b, VTensor)):
        return [("shape", False, "the exchanged entries of the core list are not tensors")]
    sa, sb = a.block().shape(), b.block().shape()
    q = sa[-1]
    oka, why = _shape_is(out, a, [ranks[i]] + modes[i + 1] + [q], "cores[i]")
    okb, why2 = _shape_is(out, b, [q] + modes[i] + [ranks[i + 2]], "cores[i+1]")
    # (the local rank list of permute is not read again after the exchange - the result is built from the cores alone - so it is not
    # part of the contract: the operator branch stores a mode size there, which has no effect on the result)
    ok = oka and okb
    detail = why or why2
    return [("shape", ok, "the exchanged cores keep their outer bonds, swap their modes and share the new inner bond" if ok else
             f"after the exchange of cores i and i+1 {detail}: neighbouring cores no longer agree (only a pair whose three bonds are all 1 may simply "
             "change places)")]


for _i in (0, 1):
    for _ttm in (False, True):
        scn(name=f"permute.swap:i={_i},{'ttm' if _ttm else 'tt'}", func="_extras.permute", props=("C10",), args=None,
            driver=_drv_swap(_i, _ttm), check=_chk_swap, hooks=factor_hooks(), strict_sizes=False, min_returns=1)
