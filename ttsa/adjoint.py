"""ADJOINT: a decomposed matrix is projected onto the basis of one of its SVD / QR factors with the *conjugate* transpose.

For A = U S V (V with orthonormal rows) the identities  A V^H = U S  and  U^H A = S V  hold for real and complex data; with the plain
transpose they hold for real data only.  The properties quantify over complex dtypes, so a product of the decomposed matrix with a
plainly transposed factor (`A @ V.T`, `U.t() @ A`, also through slices `V[:r, :]` of the factor) is reported.  Products of factors
with each other (u @ v.t() after v was itself transposed) are re-compositions, not projections, and are not touched."""
from __future__ import annotations

import ast

from .model import Model, Func, norm
from .report import Ob, OK, VIOLATED, ERROR, INFO

DECOMP = ("SVD", "QR", "svd", "qr")


def _plain_transpose_of(e):
    """name of the matrix when e is a transpose without conjugation: X.T, X.t(), X.mT, X.transpose(0, 1), X.permute(1, 0), tn.transpose(X, 0, 1)"""
    if isinstance(e, ast.Attribute) and e.attr in ("T", "mT") and isinstance(e.value, ast.Name):
        return e.value.id
    if isinstance(e, ast.Call) and isinstance(e.func, ast.Attribute) and e.func.attr in ("t", "transpose", "permute") and isinstance(e.func.value, ast.Name) \
            and e.func.value.id not in ("tn", "torch", "np", "numpy"):
        return e.func.value.id
    if isinstance(e, ast.Call) and isinstance(e.func, ast.Attribute) and e.func.attr in ("transpose", "permute", "t") and e.args and isinstance(e.args[0], ast.Name) \
            and isinstance(e.func.value, ast.Name) and e.func.value.id in ("tn", "torch", "np", "numpy"):
        return e.args[0].id
    return None


def rule_adjoint(model: Model, funcs: list[Func]):
    obs = []
    for f in funcs:
        factors = {}      # factor name -> name of the decomposed matrix
        for n in ast.walk(f.node):
            if isinstance(n, ast.Assign) and isinstance(n.targets[0], ast.Tuple) and isinstance(n.value, ast.Call) and norm(n.value.func).rsplit(".", 1)[-1] in DECOMP \
                    and n.value.args and isinstance(n.value.args[0], ast.Name):
                for t in n.targets[0].elts:
                    if isinstance(t, ast.Name):
                        factors[t.id] = n.value.args[0].id
        # slices of a factor keep its role:  V = V[:r, :]
        for n in ast.walk(f.node):
            if isinstance(n, ast.Assign) and isinstance(n.targets[0], ast.Name) and isinstance(n.value, ast.Subscript) and isinstance(n.value.value, ast.Name) \
                    and n.value.value.id in factors:
                factors.setdefault(n.targets[0].id, factors[n.value.value.id])
        bad = []
        for n in ast.walk(f.node):
            if isinstance(n, ast.BinOp) and isinstance(n.op, ast.MatMult):
                for t, other in ((n.left, n.right), (n.right, n.left)):
                    fn_ = _plain_transpose_of(t)
                    if fn_ in factors and isinstance(other, ast.Name) and other.id == factors[fn_]:
                        bad.append((n, fn_, other.id))
        if bad:
            for n, fac, mat in bad:
                obs.append(Ob("ADJOINT", f"{f.short}:ADJOINT:{norm(n)[:60]}", VIOLATED, model.where(f, n), norm(n)[:100],
                              f"{f.short}: `{norm(n)[:80]}` projects the decomposed matrix `{mat}` on the basis of its factor `{fac}` with a plain transpose; "
                              "for complex data the conjugate transpose is needed (A V^H = U S), so complex operands get wrong cores while real ones stay correct"))
        else:
            obs.append(Ob("ADJOINT", f"{f.short}:ADJOINT", OK, model.where(f), f.short,
                          f"{len(factors)} decomposition factor(s); none is used plainly transposed against the matrix it came from"))
    return obs


def self_fixture():
    src = ("def p(core):\n    U, S, V = SVD(core)\n    V = V[:2, :]\n    return core @ V.T\n"
           "def q(core):\n    U, S, V = SVD(core)\n    return core @ tn.conj(V).T\n")
    tree = ast.parse(src)

    class FM:
        def where(self, f, n=None):
            return "fixture"
    out = {}
    for fn in tree.body:
        f = Func("fixture." + fn.name, None, fn)
        out[fn.name] = rule_adjoint(FM(), [f])
    return out
