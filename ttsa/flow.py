"""Syntax-directed flow analyses on function bodies: definite assignment with guard correlation,
dominating-guard queries, loop trip-count classification.

No CFG library is available; the statement kinds used by the repository (if/elif/else, for, while,
try/except, with, return, raise, break, continue) are handled structurally.
"""
from __future__ import annotations

import ast
import itertools
from dataclasses import dataclass

from .model import norm

TOP = None  # "everything assigned" (abrupt completion)


def _meet(a, b):
    if a is TOP:
        return b
    if b is TOP:
        return a
    return a & b


def _meet_all(xs):
    r = TOP
    for x in xs:
        r = _meet(r, x)
    return r


@dataclass
class UnassignedUse:
    name: str
    node: ast.AST
    assumption: dict


def target_names(t):
    out = []
    if isinstance(t, ast.Name):
        out.append(t.id)
    elif isinstance(t, (ast.Tuple, ast.List)):
        for e in t.elts:
            out += target_names(e)
    elif isinstance(t, ast.Starred):
        out += target_names(t.value)
    return out


def const_bool(test: ast.AST):
    """Constant-false / constant-true guards (`if False and ...`)."""
    if isinstance(test, ast.Constant):
        return bool(test.value)
    if isinstance(test, ast.BoolOp):
        vals = [const_bool(v) for v in test.values]
        if isinstance(test.op, ast.And):
            if any(v is False for v in vals):
                return False
            if all(v is True for v in vals):
                return True
        else:
            if any(v is True for v in vals):
                return True
            if all(v is False for v in vals):
                return False
    if isinstance(test, ast.UnaryOp) and isinstance(test.op, ast.Not):
        v = const_bool(test.operand)
        return None if v is None else (not v)
    return None


def guard_key(test: ast.AST):
    """(key text, polarity) of a test; `not X` shares X's key with negative polarity, `a != b` shares the key of `a == b`."""
    pol = True
    while isinstance(test, ast.UnaryOp) and isinstance(test.op, ast.Not):
        pol = not pol
        test = test.operand
    if isinstance(test, ast.Compare) and len(test.ops) == 1 and isinstance(test.ops[0], (ast.NotEq, ast.IsNot, ast.NotIn)):
        op = {ast.NotEq: ast.Eq, ast.IsNot: ast.Is, ast.NotIn: ast.In}[type(test.ops[0])]()
        test = ast.Compare(left=test.left, ops=[op], comparators=test.comparators)
        pol = not pol
    return norm(test), pol


class LoopInfo:
    """Decides whether a `for` loop may run zero times inside the documented domain (order d >= 1,
    mode-indexed containers non-empty)."""

    def __init__(self, fn: ast.FunctionDef):
        self.lenlike = set()   # names bound to len(...) of something
        for n in ast.walk(fn):
            if isinstance(n, ast.Assign) and len(n.targets) == 1 and isinstance(n.targets[0], ast.Name):
                if self._is_len(n.value):
                    self.lenlike.add(n.targets[0].id)
        # iteration counts: parameters whose default is a positive integer and that are never re-bound (nswp=22, resets=4, nmax=40): the
        # documented domain of every property is "at least one sweep / iteration"
        self.counts = set()
        a = getattr(fn, "args", None)
        if a is not None:
            pos = a.posonlyargs + a.args
            for prm, dflt in list(zip(pos[len(pos) - len(a.defaults):], a.defaults)) + [(k, d) for k, d in zip(a.kwonlyargs, a.kw_defaults) if d is not None]:
                if isinstance(dflt, ast.Constant) and isinstance(dflt.value, int) and not isinstance(dflt.value, bool) and dflt.value >= 1:
                    self.counts.add(prm.arg)
            stored = {n.id for n in ast.walk(fn) if isinstance(n, ast.Name) and isinstance(n.ctx, (ast.Store, ast.Del))}
            self.counts -= stored

    @staticmethod
    def _is_len(e):
        return isinstance(e, ast.Call) and isinstance(e.func, ast.Name) and e.func.id == "len"

    def positive(self, e) -> bool:
        """expression known to be >= 1 under the domain assumption"""
        if self._is_len(e):
            return True
        if isinstance(e, ast.Name) and e.id in self.lenlike:
            return True
        if isinstance(e, ast.Name) and e.id in self.counts:
            return True
        if isinstance(e, ast.Constant) and isinstance(e.value, int) and e.value >= 1:
            return True
        return False

    def at_least_once(self, it: ast.AST) -> bool:
        if isinstance(it, ast.Call) and isinstance(it.func, ast.Name) and it.func.id == "range":
            a = it.args
            if len(a) == 1:
                return self.positive(a[0])
            return False
        if isinstance(it, ast.Call) and isinstance(it.func, ast.Name) and it.func.id in ("enumerate", "zip", "reversed"):
            return all(self.at_least_once(x) for x in it.args) if it.args else False
        if isinstance(it, ast.Attribute) and it.attr in ("cores", "N", "M"):
            return True   # mode-indexed containers of a TT object are non-empty for d >= 1
        if isinstance(it, (ast.List, ast.Tuple)) and it.elts:
            return True
        return False


class DefAssign:
    """Definite-assignment analysis of one function under one guard assumption."""

    def __init__(self, fn: ast.FunctionDef, assume: dict, module_names: set, loopinfo: LoopInfo | None = None):
        self.fn = fn
        self.assume = assume
        self.module_names = module_names
        self.loops = loopinfo or LoopInfo(fn)
        self.locals = self._collect_locals(fn)
        self.bad: list[UnassignedUse] = []
        self.break_states: list[list] = []
        self.cont_states: list[list] = []

    @staticmethod
    def _collect_locals(fn):
        loc = set()
        glob = set()
        for n in ast.walk(fn):
            if isinstance(n, (ast.Global, ast.Nonlocal)):
                glob |= set(n.names)
        for n in ast.walk(fn):
            if isinstance(n, ast.Name) and isinstance(n.ctx, (ast.Store, ast.Del)):
                loc.add(n.id)
            elif isinstance(n, (ast.FunctionDef, ast.ClassDef)) and n is not fn:
                loc.add(n.name)
            elif isinstance(n, (ast.Import, ast.ImportFrom)):
                for a in n.names:
                    loc.add((a.asname or a.name).split(".")[0])
            elif isinstance(n, ast.ExceptHandler) and n.name:
                loc.add(n.name)
        return loc - glob

    def guard_value(self, test):
        """True / False / None for a test under the assumed guards (conjunctions and disjunctions of assumed guards included)"""
        cb = const_bool(test)
        if cb is not None:
            return cb
        k, pol = guard_key(test)
        v = self.assume.get(k)
        if v is not None:
            return v == pol
        if isinstance(test, ast.UnaryOp) and isinstance(test.op, ast.Not):
            w = self.guard_value(test.operand)
            return None if w is None else (not w)
        if isinstance(test, ast.BoolOp):
            vals = [self.guard_value(x) for x in test.values]
            if isinstance(test.op, ast.And):
                if any(x is False for x in vals):
                    return False
                if all(x is True for x in vals):
                    return True
            else:
                if any(x is True for x in vals):
                    return True
                if all(x is False for x in vals):
                    return False
        return None

    def run(self):
        a = self.fn.args
        da = {x.arg for x in a.posonlyargs + a.args + a.kwonlyargs}
        if a.vararg:
            da.add(a.vararg.arg)
        if a.kwarg:
            da.add(a.kwarg.arg)
        self.block(self.fn.body, frozenset(da))
        return self.bad

    # -- expressions
    def use(self, e, da, comp_bound=frozenset()):
        if e is None or da is TOP:
            return
        if isinstance(e, ast.Name):
            if isinstance(e.ctx, ast.Load) and e.id in self.locals and e.id not in da and e.id not in comp_bound:
                self.bad.append(UnassignedUse(e.id, e, dict(self.assume)))
            return
        if isinstance(e, (ast.ListComp, ast.SetComp, ast.GeneratorExp, ast.DictComp)):
            bound = set(comp_bound)
            for g in e.generators:
                self.use(g.iter, da, frozenset(bound))
                bound |= set(target_names(g.target))
                for c in g.ifs:
                    self.use(c, da, frozenset(bound))
            if isinstance(e, ast.DictComp):
                self.use(e.key, da, frozenset(bound))
                self.use(e.value, da, frozenset(bound))
            else:
                self.use(e.elt, da, frozenset(bound))
            return
        if isinstance(e, ast.Lambda):
            bound = set(comp_bound) | {x.arg for x in e.args.args}
            self.use(e.body, da, frozenset(bound))
            return
        if isinstance(e, ast.IfExp):
            self.use(e.test, da, comp_bound)
            k, pol = guard_key(e.test)
            v = self.assume.get(k)
            if v is None or (v == pol):
                self.use(e.body, da, comp_bound)
            if v is None or (v != pol):
                self.use(e.orelse, da, comp_bound)
            return
        if isinstance(e, ast.BoolOp):
            # short circuit: later operands are evaluated with the same DA set (no assignments in exprs)
            for v in e.values:
                self.use(v, da, comp_bound)
            return
        for c in ast.iter_child_nodes(e):
            if isinstance(c, ast.expr) or isinstance(c, (ast.keyword, ast.comprehension, ast.Slice)):
                self.use(c, da, comp_bound)
            elif isinstance(c, ast.AST) and not isinstance(c, (ast.expr_context, ast.operator, ast.cmpop,
                                                                ast.boolop, ast.unaryop)):
                self.use(c, da, comp_bound)

    # -- statements
    def block(self, stmts, da):
        for s in stmts:
            if da is TOP:
                break
            da = self.stmt(s, da)
        return da

    def stmt(self, s, da):
        if isinstance(s, ast.Assign):
            self.use(s.value, da)
            for t in s.targets:
                self._use_target_subexprs(t, da)
            names = set()
            for t in s.targets:
                names |= set(target_names(t))
            return da | names
        if isinstance(s, ast.AugAssign):
            self.use(s.value, da)
            if isinstance(s.target, ast.Name):
                self.use(ast.Name(id=s.target.id, ctx=ast.Load(), lineno=s.lineno, col_offset=s.col_offset), da)
                return da | {s.target.id}
            self._use_target_subexprs(s.target, da)
            return da
        if isinstance(s, ast.AnnAssign):
            if s.value is not None:
                self.use(s.value, da)
                return da | set(target_names(s.target))
            return da
        if isinstance(s, ast.Expr):
            self.use(s.value, da)
            return da
        if isinstance(s, ast.Return):
            self.use(s.value, da)
            return TOP
        if isinstance(s, ast.Raise):
            self.use(s.exc, da)
            self.use(s.cause, da)
            return TOP
        if isinstance(s, ast.Break):
            if self.break_states:
                self.break_states[-1].append(da)
            return TOP
        if isinstance(s, ast.Continue):
            if self.cont_states:
                self.cont_states[-1].append(da)
            return TOP
        if isinstance(s, (ast.Pass, ast.Global, ast.Nonlocal)):
            return da
        if isinstance(s, (ast.Import, ast.ImportFrom)):
            return da | {(a.asname or a.name).split(".")[0] for a in s.names}
        if isinstance(s, (ast.FunctionDef, ast.AsyncFunctionDef, ast.ClassDef)):
            return da | {s.name}
        if isinstance(s, ast.Delete):
            return da
        if isinstance(s, ast.Assert):
            self.use(s.test, da)
            return da
        if isinstance(s, ast.If):
            self.use(s.test, da)
            cb = self.guard_value(s.test)
            if cb is True:
                return self.block(s.body, da)
            if cb is False:
                return self.block(s.orelse, da)
            a = self.block(s.body, da)
            b = self.block(s.orelse, da)
            return _meet(a, b)
        if isinstance(s, (ast.For, ast.AsyncFor)):
            self.use(s.iter, da)
            self._use_target_subexprs(s.target, da)
            self.break_states.append([])
            self.cont_states.append([])
            body_in = da | set(target_names(s.target))
            body_out = self.block(s.body, body_in)
            brk = self.break_states.pop()
            cont = self.cont_states.pop()
            body_end = _meet_all([body_out] + cont)
            if self.loops.at_least_once(s.iter):
                exhausted = body_end
            else:
                exhausted = _meet(da, body_end) if body_end is not TOP else da
            if exhausted is not TOP and s.orelse:
                exhausted = self.block(s.orelse, exhausted)
            return _meet_all([exhausted] + brk)
        if isinstance(s, ast.While):
            self.use(s.test, da)
            cb = const_bool(s.test)
            self.break_states.append([])
            self.cont_states.append([])
            body_out = self.block(s.body, da)
            brk = self.break_states.pop()
            cont = self.cont_states.pop()
            if cb is True:
                return _meet_all(brk) if brk else TOP
            body_end = _meet_all([body_out] + cont)
            exhausted = _meet(da, body_end) if body_end is not TOP else da
            if s.orelse:
                exhausted = self.block(s.orelse, exhausted)
            return _meet_all([exhausted] + brk)
        if isinstance(s, ast.Try):
            body_out = self.block(s.body, da)
            outs = []
            if body_out is not TOP and s.orelse:
                body_out = self.block(s.orelse, body_out)
            outs.append(body_out)
            for h in s.handlers:
                hin = da | ({h.name} if h.name else set())
                outs.append(self.block(h.body, hin))
            out = _meet_all(outs)
            if s.finalbody:
                out = self.block(s.finalbody, out if out is not TOP else da) if out is not TOP else TOP
            return out
        if isinstance(s, (ast.With, ast.AsyncWith)):
            for it in s.items:
                self.use(it.context_expr, da)
                if it.optional_vars is not None:
                    da = da | set(target_names(it.optional_vars))
            return self.block(s.body, da)
        if isinstance(s, ast.Match):
            self.use(s.subject, da)
            outs = [self.block(c.body, da) for c in s.cases]
            return _meet_all(outs + [da])
        return da

    def _use_target_subexprs(self, t, da):
        if isinstance(t, ast.Subscript):
            self.use(t.value, da)
            self.use(t.slice, da)
        elif isinstance(t, ast.Attribute):
            self.use(t.value, da)
        elif isinstance(t, (ast.Tuple, ast.List)):
            for e in t.elts:
                self._use_target_subexprs(e, da)
        elif isinstance(t, ast.Starred):
            self._use_target_subexprs(t.value, da)


def correlated_keys(fn: ast.FunctionDef, limit=4):
    """Guard expressions tested at least twice in the function (the classic path-insensitive false-positive source)."""
    cnt = {}
    for n in ast.walk(fn):
        test = None
        if isinstance(n, (ast.If, ast.IfExp, ast.While)):
            test = n.test
        if test is None or const_bool(test) is not None:
            continue
        k, _ = guard_key(test)
        cnt[k] = cnt.get(k, 0) + 1
    keys = [k for k, c in sorted(cnt.items(), key=lambda kv: -kv[1]) if c >= 2]
    return keys[:limit] if limit else keys


def definite_assignment(fn: ast.FunctionDef, domain: dict | None = None):
    """Uses of locals that are unassigned on some path of the guard-correlated flow graph.
    A use is reported only if it is unassigned under at least one consistent assignment of the correlated guards.
    `domain`: guards whose truth value is fixed by the property's quantifier (e.g. {'verbose': False}: progress output is outside every property)."""
    domain = domain or {}
    keys = [k for k in correlated_keys(fn) if k not in domain]
    loops = LoopInfo(fn)

    def explore(ks):
        out = {}
        for combo in itertools.product([True, False], repeat=len(ks)):
            assume = dict(zip(ks, combo))
            assume.update(domain)
            for u in DefAssign(fn, assume, set(), loops).run():
                out.setdefault((u.name, u.node.lineno, u.node.col_offset), u)
        return out
    found = explore(keys)
    if found:
        # a function with more repeated guards than the enumeration budget: a use stays reported only if it is also unassigned when each
        # further repeated guard is held consistent (one at a time) - the guard that pairs the definition with the use may be any of them
        for extra in [k for k in correlated_keys(fn, limit=0) if k not in keys and k not in domain]:
            more = explore(keys + [extra])
            found = {k: v for k, v in found.items() if k in more}
            if not found:
                break
    return list(found.values())


# --------------------------------------------------------------------------- dominating guards

def walk_with_guards(fn: ast.FunctionDef):
    """Yield (stmt, guards) for every statement, where guards is the list of (test, polarity) of enclosing
    if-branches plus *preceding raise-guards in the same or an enclosing block* (`if c: raise` before the
    statement contributes (c, False))."""
    def rec(stmts, guards):
        cur = list(guards)
        for s in stmts:
            yield s, list(cur)
            if isinstance(s, ast.If):
                yield from rec(s.body, cur + [(s.test, True)])
                yield from rec(s.orelse, cur + [(s.test, False)])
                if _always_abrupt(s.body) and not _always_abrupt(s.orelse):
                    cur.append((s.test, False))
                elif s.orelse and _always_abrupt(s.orelse) and not _always_abrupt(s.body):
                    cur.append((s.test, True))
            elif isinstance(s, (ast.For, ast.While, ast.AsyncFor)):
                yield from rec(s.body, cur)
                yield from rec(s.orelse, cur)
            elif isinstance(s, ast.Try):
                yield from rec(s.body, cur)
                for h in s.handlers:
                    yield from rec(h.body, cur)
                yield from rec(s.orelse, cur)
                yield from rec(s.finalbody, cur)
            elif isinstance(s, (ast.With, ast.AsyncWith)):
                yield from rec(s.body, cur)
    yield from rec(fn.body, [])


def _always_abrupt(stmts) -> bool:
    if not stmts:
        return False
    last = stmts[-1]
    if isinstance(last, (ast.Raise, ast.Return, ast.Break, ast.Continue)):
        return True
    if isinstance(last, ast.If):
        return _always_abrupt(last.body) and _always_abrupt(last.orelse)
    return False


def raises_in(stmts):
    """Raise statements directly terminating a block (not nested in further conditionals)."""
    return [s for s in stmts if isinstance(s, ast.Raise)]


# --------------------------------------------------------------------------- name-independent identification of a local

def var_signature(fn: ast.AST, name: str) -> str:
    """How a local is bound, reduced to the kind of each binding (callee of a call, loop range, operator kind) with every local name
    masked: stable under renaming of locals, under re-lettered einsum strings and under unrelated edits.  Used to key exceptions
    ("this variable is only read in the verbose report") by what the variable *is* instead of what it is called."""
    import copy
    from .model import norm
    a = fn.args
    params = {x.arg for x in a.posonlyargs + a.args + a.kwonlyargs}
    locs = {n.id for n in ast.walk(fn) if isinstance(n, ast.Name) and isinstance(n.ctx, ast.Store)} | params

    def mask(e):
        class M(ast.NodeTransformer):
            def visit_Name(s, n):
                return ast.copy_location(ast.Name(id="_", ctx=n.ctx), n) if n.id in locs else n
        return norm(M().visit(copy.deepcopy(e)))

    def kind(v):
        if isinstance(v, ast.Call):
            return "call:" + mask(v.func)
        if isinstance(v, ast.Constant):
            return "const"
        if isinstance(v, ast.BinOp):
            return "binop"
        if isinstance(v, ast.Attribute):
            return "attr"
        if isinstance(v, ast.Subscript):
            return "item"
        return type(v).__name__
    sigs = set()
    for n in ast.walk(fn):
        if isinstance(n, ast.Assign):
            for t in n.targets:
                if isinstance(t, ast.Name) and t.id == name:
                    sigs.add("=" + kind(n.value))
                elif isinstance(t, (ast.Tuple, ast.List)):
                    for i, el in enumerate(t.elts):
                        if isinstance(el, ast.Name) and el.id == name:
                            sigs.add(f"unpack[{i}/{len(t.elts)}]=" + kind(n.value))
        elif isinstance(n, ast.AugAssign) and isinstance(n.target, ast.Name) and n.target.id == name:
            sigs.add("aug" + type(n.op).__name__)
        elif isinstance(n, ast.For):
            it, tg = n.iter, n.target
            if isinstance(it, ast.Call) and isinstance(it.func, ast.Name) and it.func.id == "enumerate" and it.args and isinstance(tg, ast.Tuple) and len(tg.elts) == 2:
                # the element of `for i, x in enumerate(X)` is bound exactly as the x of `for x in X`
                if any(isinstance(el, ast.Name) and el.id == name for el in ast.walk(tg.elts[0])):
                    sigs.add("for:index:" + mask(it.args[0])[:50])
                it, tg = it.args[0], tg.elts[1]
            for el in ast.walk(tg):
                if isinstance(el, ast.Name) and el.id == name:
                    sigs.add("for:" + mask(it)[:50])
        elif isinstance(n, ast.comprehension):
            for el in ast.walk(n.target):
                if isinstance(el, ast.Name) and el.id == name:
                    sigs.add("comp:" + mask(n.iter)[:50])
    return " | ".join(sorted(sigs))


# --------------------------------------------------------------------------- straight-line paths of a function body

def simple_paths(stmts, limit=512):
    """Every path through a statement list as (list of simple statements in execution order, exit) with exit in {'fall', 'return', 'raise',
    'break', 'continue'}.  `if` forks (constant tests are folded), loop bodies are taken zero times and once, `try` takes its body (and each
    handler after it), `with` is transparent.  Enough for must-pass-through rules over functions without deep loop nests; more than `limit` paths
    raise ValueError (the caller reports the function as not analysable instead of guessing)."""
    out = []

    def go(todo, acc):
        if len(out) > limit:
            raise ValueError("too many paths")
        if not todo:
            out.append((acc, "fall"))
            return
        s, rest = todo[0], todo[1:]
        if isinstance(s, ast.If):
            cb = const_bool(s.test)
            if cb is not False:
                go(list(s.body) + rest, acc + [s.test])
            if cb is not True:
                go(list(s.orelse) + rest, acc + [s.test])
            return
        if isinstance(s, (ast.For, ast.While)):
            go(rest, acc + [s.iter if isinstance(s, ast.For) else s.test])
            inner = []
            try:
                for p, ex in simple_paths(list(s.body), limit):
                    inner.append((p, ex))
            except ValueError:
                raise
            for p, ex in inner:
                if ex in ("fall", "continue", "break"):
                    go(rest, acc + [s.iter if isinstance(s, ast.For) else s.test] + p)
                else:
                    out.append((acc + p, ex))
            return
        if isinstance(s, ast.With):
            go(list(s.body) + rest, acc + [i.context_expr for i in s.items])
            return
        if isinstance(s, ast.Try):
            go(list(s.body) + list(s.orelse) + list(s.finalbody) + rest, acc)
            for h in s.handlers:
                go(list(h.body) + list(s.finalbody) + rest, acc)
            return
        if isinstance(s, ast.Return):
            out.append((acc + [s], "return"))
            return
        if isinstance(s, ast.Raise):
            out.append((acc + [s], "raise"))
            return
        if isinstance(s, ast.Break):
            out.append((acc, "break"))
            return
        if isinstance(s, ast.Continue):
            out.append((acc, "continue"))
            return
        go(rest, acc + [s])

    go(list(stmts), [])
    return out


def quantifier_domain(fn: ast.FunctionDef) -> dict:
    """Guards fixed by every property's quantifier, recognised by what they are rather than by how they are called:
       - a verbosity flag: a parameter tested by an `if` whose body prints (progress output is outside every property) -> False;
       - `<parameter> == 'fro'`: the undocumented truncation option of the AMEn routines -> False."""
    a = fn.args
    params = {x.arg for x in a.posonlyargs + a.args + a.kwonlyargs}
    dom = {}
    for n in ast.walk(fn):
        if isinstance(n, ast.If):
            t = n.test
            names = [t] if isinstance(t, ast.Name) else ([v for v in t.values if isinstance(v, ast.Name)] if isinstance(t, ast.BoolOp) and isinstance(t.op, ast.And) else [])
            prints = any(isinstance(x, ast.Call) and isinstance(x.func, ast.Name) and x.func.id == "print" for st in n.body for x in ast.walk(st))
            for nm in names:
                if nm.id in params and prints:
                    dom[nm.id] = False
            # a local that carries the flag (`verbose = options.verbose`): every `if <name>:` of the function only reports (prints, takes times)
            if prints and isinstance(t, ast.Name) and t.id not in params and not n.orelse:
                def reporting(body):
                    for st in body:
                        if isinstance(st, ast.Expr) and isinstance(st.value, ast.Call) and isinstance(st.value.func, ast.Name) and st.value.func.id == "print":
                            continue
                        if isinstance(st, ast.Assign) and any(isinstance(x, ast.Call) and norm(x.func).rsplit(".", 1)[-1] in ("now", "perf_counter", "time")
                                                              for x in ast.walk(st.value)):
                            continue
                        if isinstance(st, ast.If) and not st.orelse and reporting(st.body):
                            continue
                        return False
                    return True
                same = [m for m in ast.walk(fn) if isinstance(m, ast.If) and isinstance(m.test, ast.Name) and m.test.id == t.id]
                if all(not m.orelse and reporting(m.body) for m in same):
                    dom[t.id] = False
            # the same flag carried in an options record: `if opts.verbose: print(...)` (an attribute of a parameter or of a local record)
            if prints and isinstance(t, ast.Attribute) and isinstance(t.value, ast.Name) and all(
                    isinstance(st, (ast.Expr, ast.Assign)) for st in n.body) and not n.orelse:
                dom[norm(t)] = False
        if isinstance(n, ast.Compare) and len(n.ops) == 1 and isinstance(n.ops[0], (ast.Eq, ast.NotEq)) and isinstance(n.left, (ast.Name, ast.Attribute)) \
                and isinstance(n.comparators[0], ast.Constant) and n.comparators[0].value == "fro":
            # (the option may arrive as a parameter, as a local copy of one or as a field of an options record)
            dom[norm(ast.Compare(left=n.left, ops=[ast.Eq()], comparators=n.comparators))] = False
    return dom
