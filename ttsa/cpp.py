"""E6 - tolerant reader for the C++ backend (cpp/*.h, cpp/cpp_ext.cpp).

Not a C++ front end: it recognises exactly what the checks need -
  * function definitions at namespace / class scope (return type, name, parameter list with types, body text, line),
  * the PYBIND11_MODULE export table,
  * #define constants,
  * the statements of a body (split at `;` on brace depth 0 of the body; nested blocks are kept as text), and
  * a small expression grammar (calls with qualified names, method chains, brace lists, indexing, * + - /, strings, numbers)
which is enough for the tensor-algebra helper functions (chains of at::tensordot / permute / reshape / einsum / diagonal /
linalg_inv / linalg_matmul).  Anything else raises CppUnmodelled and the check reports an analysis error - never a verdict."""
from __future__ import annotations

import os
import re
from dataclasses import dataclass, field


class CppUnmodelled(Exception):
    pass


def strip_comments(src: str) -> str:
    out = []
    i, n = 0, len(src)
    while i < n:
        c = src[i]
        if src.startswith("//", i):
            j = src.find("\n", i)
            j = n if j < 0 else j
            i = j
        elif src.startswith("/*", i):
            j = src.find("*/", i + 2)
            j = n if j < 0 else j + 2
            out.append("".join(ch if ch == "\n" else " " for ch in src[i:j]))
            i = j
        elif c == '"':
            j = i + 1
            while j < n and src[j] != '"':
                j += 2 if src[j] == "\\" else 1
            out.append(src[i:j + 1])
            i = j + 1
        else:
            out.append(c)
            i += 1
    return "".join(out)


@dataclass
class CppFunc:
    name: str
    ret: str
    params: list            # [(type text, name)]
    body: str
    line: int
    file: str
    cls: str | None = None


def _match(src, i, open_c, close_c):
    depth = 0
    n = len(src)
    j = i
    while j < n:
        c = src[j]
        if c == '"':
            j += 1
            while j < n and src[j] != '"':
                j += 2 if src[j] == "\\" else 1
        elif c == open_c:
            depth += 1
        elif c == close_c:
            depth -= 1
            if depth == 0:
                return j
        j += 1
    return -1


_FUNC_HEAD = re.compile(r"([A-Za-z_][\w:<>\s\*&,]*?)\b([A-Za-z_]\w*)\s*\(")
_KEYWORDS = {"if", "for", "while", "switch", "return", "else", "catch", "sizeof", "delete", "new"}


def _split_top(s, sep=","):
    parts, depth, cur = [], 0, []
    i = 0
    while i < len(s):
        c = s[i]
        if c == '"':
            j = i + 1
            while j < len(s) and s[j] != '"':
                j += 2 if s[j] == "\\" else 1
            cur.append(s[i:j + 1])
            i = j + 1
            continue
        if c in "([{<" and not (c == "<" and (i == 0 or not (s[i - 1].isalnum() or s[i - 1] in "_:"))):
            depth += 1
        elif c in ")]}>" and depth > 0 and not (c == ">" and i > 0 and s[i - 1] == "-"):
            depth -= 1
        if c == sep and depth == 0:
            parts.append("".join(cur))
            cur = []
        else:
            cur.append(c)
        i += 1
    if "".join(cur).strip():
        parts.append("".join(cur))
    return [p.strip() for p in parts]


def parse_functions(src: str, file: str) -> list[CppFunc]:
    """function definitions (with a body) at brace depth 0 or directly inside a class/template class body"""
    src = strip_comments(src)
    out = []

    def scan(text, base_off, cls):
        i, n = 0, len(text)
        while i < n:
            m = _FUNC_HEAD.search(text, i)
            if not m:
                break
            name = m.group(2)
            popen = m.end() - 1
            pclose = _match(text, popen, "(", ")")
            if pclose < 0:
                break
            # skip to what follows the parameter list
            j = pclose + 1
            while j < n and text[j] in " \t\r\n":
                j += 1
            # constructor initialiser lists / const qualifiers
            k = j
            while k < n and text[k] not in "{;":
                k += 1
            ret = m.group(1).strip()
            if k < n and text[k] == "{" and name not in _KEYWORDS and not ret.endswith(("return", "else", "=")) and "=" not in ret \
                    and brace_depth(text, m.start()) == 0 and (ret or cls):
                bclose = _match(text, k, "{", "}")
                if bclose < 0:
                    break
                params = []
                for p in _split_top(text[popen + 1:pclose]):
                    if not p:
                        continue
                    p = p.split("=")[0].strip()
                    mm = re.match(r"(.*?)([A-Za-z_]\w*)\s*$", p, re.S)
                    if mm:
                        params.append((" ".join(mm.group(1).split()), mm.group(2)))
                line = src.count("\n", 0, base_off + m.start(2)) + 1
                out.append(CppFunc(name, " ".join(ret.split()), params, text[k + 1:bclose], line, file, cls))
                i = bclose + 1
            else:
                i = m.end()
        return

    def brace_depth(text, pos):
        d = 0
        j = 0
        while j < pos:
            c = text[j]
            if c == '"':
                j += 1
                while j < pos and text[j] != '"':
                    j += 2 if text[j] == "\\" else 1
            elif c == "{":
                d += 1
            elif c == "}":
                d -= 1
            j += 1
        return d

    # classes first: scan their bodies separately, then blank them out for the top-level scan
    top = src
    for m in re.finditer(r"\bclass\s+([A-Za-z_]\w*)\s*(?::[^{]*)?\{", src):
        close = _match(src, m.end() - 1, "{", "}")
        if close < 0:
            continue
        body = src[m.end():close]
        scan(body, m.end(), m.group(1))
        top = top[:m.end()] + "".join(ch if ch == "\n" else " " for ch in body) + top[close:]
    scan(top, 0, None)
    return out


def pybind_exports(src: str):
    src = strip_comments(src)
    return [(m.group(1), m.group(2)) for m in re.finditer(r'm\.def\(\s*"(\w+)"\s*,\s*&\s*(\w+)', src)]


def defines(src: str) -> dict:
    """named integer constants: #define NAME value, and (static) const / constexpr int NAME = value;"""
    src = strip_comments(src)
    out = {m.group(1): m.group(2) for m in re.finditer(r"^\s*#define\s+(\w+)\s+(\S+)\s*$", src, re.M)}
    for m in re.finditer(r"^\s*(?:static\s+|inline\s+)*(?:constexpr|const)\s+(?:static\s+)?(?:u?int\d*_t|int|long|unsigned|auto)\s+(\w+)\s*=\s*(-?\d+)\s*;", src, re.M):
        out[m.group(1)] = m.group(2)
    return out


def kind_of_type(t: str) -> str:
    t = t.replace(" ", "")
    if "vector<at::Tensor>" in t or "vector<torch::Tensor>" in t:
        return "tensors"
    if re.search(r"vector<(u?int\d*_t|int|long|size_t)>", t):
        return "ints"
    if "Tensor" in t:
        return "tensor"
    if t.replace("&", "") in ("double", "float"):
        return "float"
    if t.replace("&", "") == "bool":
        return "bool"
    if re.fullmatch(r"(const)?(u?int\d*_t|int|long|size_t|unsigned)&?", t):
        return "int"
    return "?"


# --------------------------------------------------------------------------- expressions

_TOK = re.compile(r'\s*(?:(\d+\.\d*|\d+)|("(?:[^"\\]|\\.)*")|([A-Za-z_]\w*(?:::[A-Za-z_]\w*)*)|(->|[{}()\[\],.*+\-/<>=!&|?:;]))')


def tokenize(s: str):
    out, i = [], 0
    s = s.strip()
    while i < len(s):
        m = _TOK.match(s, i)
        if not m:
            raise CppUnmodelled(f"cannot tokenise `{s[i:i + 20]}`")
        if m.group(1) is not None:
            out.append(("num", m.group(1)))
        elif m.group(2) is not None:
            out.append(("str", m.group(2)[1:-1]))
        elif m.group(3) is not None:
            out.append(("id", m.group(3)))
        else:
            out.append(("op", m.group(4)))
        i = m.end()
    return out


class _P:
    def __init__(self, toks):
        self.t, self.i = toks, 0

    def peek(self, k=0):
        return self.t[self.i + k] if self.i + k < len(self.t) else ("eof", "")

    def eat(self, kind=None, val=None):
        tok = self.peek()
        if (kind and tok[0] != kind) or (val is not None and tok[1] != val):
            raise CppUnmodelled(f"expected {val or kind}, found {tok[1]!r}")
        self.i += 1
        return tok

    def expr(self):
        return self.addsub()

    def addsub(self):
        l = self.muldiv()
        while self.peek() in (("op", "+"), ("op", "-")):
            op = self.eat()[1]
            l = ("binop", op, l, self.muldiv())
        return l

    def muldiv(self):
        l = self.unary()
        while self.peek() in (("op", "*"), ("op", "/")):
            op = self.eat()[1]
            l = ("binop", op, l, self.unary())
        return l

    def unary(self):
        if self.peek() == ("op", "-"):
            self.eat()
            return ("neg", self.unary())
        if self.peek() == ("op", "*") or self.peek() == ("op", "&"):
            self.eat()
            return self.unary()
        return self.postfix()

    def args(self, close):
        out = []
        if self.peek() == ("op", close):
            self.eat()
            return out
        while True:
            out.append(self.expr())
            if self.peek() == ("op", ","):
                self.eat()
                continue
            self.eat("op", close)
            return out

    def postfix(self):
        tok = self.peek()
        if tok[0] == "num":
            self.eat()
            e = ("num", tok[1])
        elif tok[0] == "str":
            self.eat()
            e = ("str", tok[1])
        elif tok == ("op", "{"):
            self.eat()
            e = ("list", self.args("}"))
        elif tok == ("op", "("):
            self.eat()
            e = self.expr()
            self.eat("op", ")")
        elif tok[0] == "id":
            self.eat()
            name = tok[1]
            # template arguments: name<...>(
            if self.peek() == ("op", "<"):
                j = self.i
                depth = 0
                while j < len(self.t):
                    if self.t[j] == ("op", "<"):
                        depth += 1
                    elif self.t[j] == ("op", ">"):
                        depth -= 1
                        if depth == 0:
                            break
                    elif self.t[j][0] == "op" and self.t[j][1] in "(){};":
                        break
                    j += 1
                if j < len(self.t) and self.t[j] == ("op", ">") and j + 1 < len(self.t) and self.t[j + 1] == ("op", "("):
                    self.i = j + 1
            if self.peek() == ("op", "("):
                self.eat()
                e = ("call", name, self.args(")"))
            elif self.peek() == ("op", "{") and name.split("::")[-1] in ("IntArrayRef",):
                self.eat()
                e = ("list", self.args("}"))
            else:
                e = ("id", name)
        else:
            raise CppUnmodelled(f"unexpected token {tok[1]!r}")
        while True:
            tok = self.peek()
            if tok == ("op", ".") or tok == ("op", "->"):
                self.eat()
                nm = self.eat("id")[1]
                if self.peek() == ("op", "<"):
                    # data_ptr<T>() and friends
                    while self.peek() != ("op", ">"):
                        self.eat()
                    self.eat()
                if self.peek() == ("op", "("):
                    self.eat()
                    e = ("method", e, nm, self.args(")"))
                else:
                    e = ("attr", e, nm)
            elif tok == ("op", "["):
                self.eat()
                idx = self.expr()
                self.eat("op", "]")
                e = ("index", e, idx)
            else:
                return e


def parse_expr(s: str):
    p = _P(tokenize(s))
    e = p.expr()
    if p.peek()[0] != "eof":
        raise CppUnmodelled(f"trailing tokens after expression: {p.peek()[1]!r} in `{s[:60]}`")
    return e


def statements(body: str):
    """top-level statements of a body: (text, kind) with kind in simple | block (if/for/while with nested braces)"""
    out, depth, cur, i = [], 0, [], 0
    n = len(body)
    while i < n:
        c = body[i]
        if c == '"':
            j = i + 1
            while j < n and body[j] != '"':
                j += 2 if body[j] == "\\" else 1
            cur.append(body[i:j + 1])
            i = j + 1
            continue
        if c in "({[":
            depth += 1
        elif c in ")}]":
            depth -= 1
        cur.append(c)
        if depth == 0 and c == ";":
            out.append("".join(cur).strip())
            cur = []
        elif depth == 0 and c == "}":
            out.append("".join(cur).strip())
            cur = []
        i += 1
    if "".join(cur).strip():
        out.append("".join(cur).strip())
    return [s for s in out if s and s != ";"]


_ASSIGN = re.compile(r"^(?:(?:const\s+)?(?:auto|at::Tensor|torch::Tensor|u?int\d*_t|int|long|size_t|double|float|bool|at::IntArrayRef|c10::IntArrayRef)\s*&?\s+)?"
                     r"([A-Za-z_]\w*(?:->\w+|\.\w+)?)\s*=\s*(?!=)(.*);$", re.S)
_DECL = re.compile(r"^(?:at::Tensor|torch::Tensor)\s+[A-Za-z_]\w*\s*;$")


def simple_statement(s: str):
    """('assign', target, expr-text) | ('return', expr-text) | ('decl',) | None"""
    s = s.strip()
    if _DECL.match(s):
        return ("decl",)
    if s.startswith("return"):
        return ("return", s[len("return"):].rstrip(";").strip())
    m = _ASSIGN.match(s)
    if m and not s.startswith(("if", "for", "while")):
        return ("assign", m.group(1).replace("this->", ""), m.group(2).strip())
    return None


class CppUnit:
    """all sources under <repo>/cpp"""

    def __init__(self, repo):
        self.dir = os.path.join(repo, "cpp")
        self.files = {}
        if os.path.isdir(self.dir):
            for fn in sorted(os.listdir(self.dir)):
                if fn.endswith((".h", ".cpp", ".hpp")):
                    with open(os.path.join(self.dir, fn), encoding="utf-8", errors="replace") as f:
                        self.files[fn] = f.read()
        self.funcs = {}
        for fn, src in self.files.items():
            for f in parse_functions(src, fn):
                self.funcs.setdefault((fn, f.cls, f.name), f)

    def func(self, file, name, cls=None):
        f = self.funcs.get((file, cls, name))
        if f is None:
            raise CppUnmodelled(f"C++ function {cls + '::' if cls else ''}{name} not found in cpp/{file}")
        return f

    def where(self, f: CppFunc, off_line=0):
        return f"cpp/{f.file}:{f.line + off_line}"
