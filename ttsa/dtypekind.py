"""NARROW: operand data is never converted to a fixed real / integer dtype on a path that complex data can reach.

C01-C04 quantify over real *and complex* dtypes.  A conversion of data derived from an operand to a fixed dtype
(`x.astype(np.float64)`, `x.to(tn.float32)`, `x.double()`, `tn.tensor(x, dtype=tn.float64)`, `x.real`) drops the imaginary part
(numpy and torch only warn).  Such a conversion is admissible only under a guard that is *false for complex data*.  Guards are
evaluated in the four-point kind domain {bool, int, float, complex} with three-valued logic over the predicates the two
libraries offer (np.issubdtype(d, np.floating | np.integer | np.complexfloating | np.number | np.inexact | np.bool_),
x.is_complex(), tn.is_complex(x), x.is_floating_point(), d.kind in '...', d == <dtype>).  Definitely reachable for complex ->
violation; definitely not -> fine; an unknown predicate -> analysis error.  Conversions whose target dtype is a variable (the
operand's own dtype, a dtype parameter) are not narrowing."""
from __future__ import annotations

import ast

from .model import Model, Func, norm
from .report import Ob, OK, VIOLATED, ERROR, INFO

REAL_FIXED = {"torch.float16", "torch.float32", "torch.float64", "torch.bfloat16", "torch.half", "torch.float", "torch.double",
              "numpy.float16", "numpy.float32", "numpy.float64", "numpy.single", "numpy.double", "numpy.half", "builtins.float",
              "torch.int8", "torch.int16", "torch.int32", "torch.int64", "torch.long", "torch.int", "torch.uint8", "torch.bool",
              "numpy.int8", "numpy.int16", "numpy.int32", "numpy.int64", "numpy.uint8", "numpy.bool_", "builtins.int", "builtins.bool"}
REAL_STRINGS = {"float16", "float32", "float64", "f2", "f4", "f8", "d", "f", "e", "double", "single", "half", "int", "int32", "int64", "i4", "i8", "bool"}
CAST_METHODS_NOARG = {"double", "float", "half", "bfloat16", "int", "long", "short", "bool"}
SUBDTYPE = {"numpy.floating": {"float"}, "numpy.integer": {"int"}, "numpy.signedinteger": {"int"}, "numpy.unsignedinteger": {"int"},
            "numpy.complexfloating": {"complex"}, "numpy.number": {"int", "float", "complex"}, "numpy.inexact": {"float", "complex"},
            "numpy.bool_": {"bool"}, "numpy.generic": {"bool", "int", "float", "complex"}}
KIND_CHARS = {"b": "bool", "i": "int", "u": "int", "f": "float", "c": "complex"}


def _fixed_real(model: Model, f: Func, e) -> bool:
    if isinstance(e, ast.Constant) and isinstance(e.value, str):
        return e.value in REAL_STRINGS
    r = model.resolve(f.module, e) if isinstance(e, (ast.Name, ast.Attribute)) else None
    return r in REAL_FIXED


def _casts(model: Model, f: Func, params: set):
    """(node, description) of conversions of non-literal data to a fixed real dtype"""
    out = []
    for n in ast.walk(f.node):
        if isinstance(n, ast.Call) and isinstance(n.func, ast.Attribute):
            a = n.func.attr
            kw = {k.arg: k.value for k in n.keywords}
            if a in ("astype", "type", "to", "view") and (n.args or "dtype" in kw):
                t = kw.get("dtype", n.args[0] if n.args else None)
                if t is not None and _fixed_real(model, f, t):
                    out.append((n, f".{a}({norm(t)})"))
            elif a in CAST_METHODS_NOARG and not n.args and not n.keywords:
                out.append((n, f".{a}()"))
        if isinstance(n, ast.Call):
            r = model.resolve(f.module, n.func)
            if r in ("torch.tensor", "torch.as_tensor", "numpy.array", "numpy.asarray", "numpy.ascontiguousarray"):
                kw = {k.arg: k.value for k in n.keywords}
                if "dtype" in kw and _fixed_real(model, f, kw["dtype"]) and n.args and not isinstance(n.args[0], (ast.Constant, ast.List, ast.Tuple)):
                    out.append((n, f"{r.split('.')[-1]}(..., dtype={norm(kw['dtype'])})"))
            if r in ("torch.real", "numpy.real"):
                out.append((n, f"{r}()"))
        if isinstance(n, ast.Attribute) and n.attr == "real" and isinstance(n.ctx, ast.Load):
            out.append((n, ".real"))
    return out


def _kind_truth(model: Model, f: Func, test, kind: str):
    """three-valued truth (True / False / None) of a guard for data of the given kind"""
    if isinstance(test, ast.BoolOp):
        vals = [_kind_truth(model, f, v, kind) for v in test.values]
        if isinstance(test.op, ast.And):
            return False if any(v is False for v in vals) else (None if any(v is None for v in vals) else True)
        return True if any(v is True for v in vals) else (None if any(v is None for v in vals) else False)
    if isinstance(test, ast.UnaryOp) and isinstance(test.op, ast.Not):
        v = _kind_truth(model, f, test.operand, kind)
        return None if v is None else (not v)
    if isinstance(test, ast.Call):
        r = model.resolve(f.module, test.func)
        if r == "numpy.issubdtype" and len(test.args) == 2:
            t = model.resolve(f.module, test.args[1]) if isinstance(test.args[1], (ast.Name, ast.Attribute)) else None
            if t in SUBDTYPE:
                return kind in SUBDTYPE[t]
            return None
        if r in ("torch.is_complex", "numpy.iscomplexobj"):
            return kind == "complex"
        if r == "torch.is_floating_point":
            return kind == "float"
        if isinstance(test.func, ast.Attribute) and not test.args:
            if test.func.attr == "is_complex":
                return kind == "complex"
            if test.func.attr == "is_floating_point":
                return kind == "float"
        return None
    if isinstance(test, ast.Attribute):
        if test.attr == "is_complex":
            return kind == "complex"
        if test.attr == "is_floating_point":
            return kind == "float"
        return None
    if isinstance(test, ast.Compare) and len(test.ops) == 1:
        l, r, op = test.left, test.comparators[0], test.ops[0]
        if isinstance(l, ast.Attribute) and l.attr == "kind" and isinstance(r, ast.Constant) and isinstance(r.value, str):
            ks = {KIND_CHARS.get(c) for c in r.value}
            if isinstance(op, ast.In) or isinstance(op, ast.Eq):
                return kind in ks
            if isinstance(op, (ast.NotIn, ast.NotEq)):
                return kind not in ks
        if isinstance(l, ast.Attribute) and l.attr == "dtype" and isinstance(op, (ast.Eq, ast.NotEq, ast.In, ast.NotIn)):
            elts = r.elts if isinstance(r, (ast.Tuple, ast.List, ast.Set)) else [r]
            names = [model.resolve(f.module, x) if isinstance(x, (ast.Name, ast.Attribute)) else None for x in elts]
            if all(x is not None for x in names):
                is_cplx = [("complex" in x) or x.endswith(("cfloat", "cdouble")) for x in names]
                member = any(is_cplx) if kind == "complex" else None
                if kind == "complex":
                    if not any(is_cplx):
                        member = False
                    elif all(is_cplx):
                        member = None      # some complex dtype: may or may not match
                    if member is None:
                        return None
                    return member if isinstance(op, (ast.Eq, ast.In)) else (not member)
        return None
    if isinstance(test, ast.Constant) and isinstance(test.value, bool):
        return test.value
    return None


def _path_guards(f: Func, node):
    """[(test, polarity)] of the if-statements / conditional expressions enclosing node"""
    parents = {}
    for n in ast.walk(f.node):
        for c in ast.iter_child_nodes(n):
            parents[id(c)] = n
    out = []
    cur = node
    while id(cur) in parents:
        p = parents[id(cur)]
        if isinstance(p, ast.If):
            if any(cur is s or any(cur is x for x in ast.walk(s)) for s in p.body):
                out.append((p.test, True))
            elif any(cur is s or any(cur is x for x in ast.walk(s)) for s in p.orelse):
                out.append((p.test, False))
        elif isinstance(p, ast.IfExp):
            if cur is p.body or any(cur is x for x in ast.walk(p.body)):
                out.append((p.test, True))
            elif cur is p.orelse or any(cur is x for x in ast.walk(p.orelse)):
                out.append((p.test, False))
        cur = p
    return out


def rule_narrow(model: Model, funcs: list[Func], exceptions: dict | None = None):
    obs = []
    exceptions = exceptions or {}
    for f in funcs:
        casts = _casts(model, f, set(f.params()))
        if not casts:
            obs.append(Ob("NARROW", f"{f.short}:NARROW", OK, model.where(f), f.short, "no conversion of operand data to a fixed real / integer dtype"))
            continue
        seen = {}
        for n, what in casts:
            text = norm(n)[:80]
            i = seen.get(text, 0)
            seen[text] = i + 1
            k = f"{f.short}:NARROW:{text}:{i}"
            if (f.short, text) in exceptions:
                obs.append(Ob("NARROW", k, OK, model.where(f, n), text, "named exception: " + exceptions[(f.short, text)]))
                continue
            verdict = True      # reachable for complex unless some enclosing guard is false for complex
            for test, pol in _path_guards(f, n):
                v = _kind_truth(model, f, test, "complex")
                if v is None:
                    # guards that do not speak about the dtype do not restrict the kind
                    speaks = any(isinstance(x, ast.Attribute) and x.attr in ("dtype", "kind", "is_complex", "is_floating_point") for x in ast.walk(test)) or \
                        any(isinstance(x, ast.Call) and norm(x.func).endswith(("issubdtype", "is_complex", "is_floating_point", "iscomplexobj")) for x in ast.walk(test))
                    if speaks and verdict is True:
                        verdict = None
                    continue
                if v != pol:
                    verdict = False
                    break
            if verdict is False:
                obs.append(Ob("NARROW", k, OK, model.where(f, n), text, f"{what}: guarded by a dtype test that is false for complex data"))
            elif verdict is None:
                obs.append(Ob("NARROW", k, ERROR, model.where(f, n), text, f"{what}: guarded by a dtype predicate the kind analysis does not model"))
            else:
                obs.append(Ob("NARROW", k, VIOLATED, model.where(f, n), text,
                              f"{f.short}: `{text}` converts operand data to a fixed real / integer dtype ({what}) on a path that complex data reaches: "
                              "the imaginary part is discarded (numpy / torch only warn), so the decomposition / result of a complex operand is that of its real part"))
    return obs


def self_fixture():
    """positive example that must match on every run (the rule's expected count on the repository is zero)"""
    src = ("import numpy as np\n"
           "def f(source):\n"
           "    if not np.issubdtype(source.dtype, np.floating):\n"
           "        source = source.astype(np.float64)\n"
           "    return source\n"
           "def g(source):\n"
           "    if np.issubdtype(source.dtype, np.integer):\n"
           "        source = source.astype(np.float64)\n"
           "    return source\n")
    tree = ast.parse(src)

    class M:
        imports = {"np": "numpy"}
    class FakeModel:
        def resolve(self, module, e):
            t = norm(e)
            return t.replace("np.", "numpy.") if t.startswith("np.") else None
        def where(self, f, n=None):
            return "fixture"
    out = []
    for fn in tree.body:
        if isinstance(fn, ast.FunctionDef):
            f = Func("fixture." + fn.name, M(), fn)
            f.__dict__["_short"] = fn.name
            out.append((fn.name, rule_narrow(FakeModel(), [f])))
    return out
