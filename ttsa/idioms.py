"""Behaviour-preserving idiom rewrites applied to the whole package (self-test input, like ttsa/alpha.py).

Each rewrite is a syntactic equivalence that holds for every value the library can pass there; the rewritten tree must leave every
check at exit 0.  They stand for the maintenance edits a rule must not depend on:

  methods     tn.reshape(X, s) -> X.reshape(s); likewise permute, squeeze, unsqueeze, conj, numel, clone; tn.linalg.norm(X) -> X.norm()
              (the torch functions accept tensors only, so the receiver is a tensor)
  transpose   X.t() -> X.T
  isinstance  isinstance(a, A) or isinstance(a, B) [or ...] -> isinstance(a, (A, B, ...))   (same plain name `a`)
  catnames    tn.cat(...) -> tn.concatenate(...), tn.concat(...) -> tn.cat(...)            (aliases of one function)
  flipcmp     a == b -> b == a, a < b -> b > a, ... for single comparisons of side-effect free operands
  ifswap      if c: A else: B  ->  if not c: B else: A   (plain two-branch ifs, no elif)
  privnames   every private module-level function / class `_name` is renamed `_name_h` throughout the package
  modern      newer surface syntax wherever it says the same: [a] + X + [b] with list operands -> [a, *X, b]; `a <= k and k < d` (same plain
              middle operand) -> a <= k < d; isinstance(x, (A, B)) -> isinstance(x, A | B); `x = E` directly followed by `if <test reading
              x first>` -> `if (x := E) ...`; an if / elif chain comparing one plain name with string / int literals -> match / case
"""
from __future__ import annotations

import ast
import os

TORCH_ALIASES = ("tn", "torch")
METHODS = {"reshape": 2, "permute": 2, "squeeze": None, "unsqueeze": 2, "conj": 1, "numel": 1, "clone": 1}


def _is_torch_fn(f, name):
    return isinstance(f, ast.Attribute) and f.attr == name and isinstance(f.value, ast.Name) and f.value.id in TORCH_ALIASES


class Methods(ast.NodeTransformer):
    def visit_Call(self, n):
        self.generic_visit(n)
        f = n.func
        for name, nargs in METHODS.items():
            if _is_torch_fn(f, name) and n.args and not any(isinstance(a, ast.Starred) for a in n.args) and (nargs is None or len(n.args) == nargs) \
                    and not (name != "squeeze" and n.keywords):
                return ast.copy_location(ast.Call(func=ast.Attribute(value=n.args[0], attr=name, ctx=ast.Load()), args=n.args[1:], keywords=n.keywords), n)
        if isinstance(f, ast.Attribute) and f.attr == "norm" and isinstance(f.value, ast.Attribute) and f.value.attr == "linalg" \
                and isinstance(f.value.value, ast.Name) and f.value.value.id in TORCH_ALIASES and len(n.args) == 1 and not n.keywords:
            return ast.copy_location(ast.Call(func=ast.Attribute(value=n.args[0], attr="norm", ctx=ast.Load()), args=[], keywords=[]), n)
        return n


class Transpose(ast.NodeTransformer):
    def visit_Call(self, n):
        self.generic_visit(n)
        if isinstance(n.func, ast.Attribute) and n.func.attr == "t" and not n.args and not n.keywords:
            return ast.copy_location(ast.Attribute(value=n.func.value, attr="T", ctx=ast.Load()), n)
        return n


class IsInstance(ast.NodeTransformer):
    def visit_BoolOp(self, n):
        self.generic_visit(n)
        if isinstance(n.op, ast.Or) and len(n.values) >= 2 and all(
                isinstance(v, ast.Call) and isinstance(v.func, ast.Name) and v.func.id == "isinstance" and len(v.args) == 2 and not v.keywords
                and isinstance(v.args[0], ast.Name) and not isinstance(v.args[1], ast.Tuple) for v in n.values) \
                and len({v.args[0].id for v in n.values}) == 1:
            return ast.copy_location(ast.Call(func=ast.Name(id="isinstance", ctx=ast.Load()),
                                              args=[n.values[0].args[0], ast.Tuple(elts=[v.args[1] for v in n.values], ctx=ast.Load())], keywords=[]), n)
        return n


class CatNames(ast.NodeTransformer):
    def visit_Call(self, n):
        self.generic_visit(n)
        if _is_torch_fn(n.func, "cat"):
            n.func.attr = "concatenate"
        elif _is_torch_fn(n.func, "concat"):
            n.func.attr = "cat"
        return n


_FLIP = {ast.Eq: ast.Eq, ast.NotEq: ast.NotEq, ast.Lt: ast.Gt, ast.Gt: ast.Lt, ast.LtE: ast.GtE, ast.GtE: ast.LtE}


def _pure(e):
    return all(isinstance(x, (ast.Name, ast.Attribute, ast.Constant, ast.Subscript, ast.BinOp, ast.UnaryOp, ast.operator, ast.unaryop, ast.expr_context,
                              ast.Load, ast.Tuple, ast.List, ast.Slice)) or (isinstance(x, ast.Call) and isinstance(x.func, ast.Name) and x.func.id == "len")
               for x in ast.walk(e))


class FlipCmp(ast.NodeTransformer):
    def visit_Compare(self, n):
        self.generic_visit(n)
        if len(n.ops) == 1 and type(n.ops[0]) in _FLIP and _pure(n.left) and _pure(n.comparators[0]):
            return ast.copy_location(ast.Compare(left=n.comparators[0], ops=[_FLIP[type(n.ops[0])]()], comparators=[n.left]), n)
        return n


class IfSwap(ast.NodeTransformer):
    def visit_If(self, n):
        self.generic_visit(n)
        if n.orelse and not (len(n.orelse) == 1 and isinstance(n.orelse[0], ast.If)):
            test = n.test.operand if isinstance(n.test, ast.UnaryOp) and isinstance(n.test.op, ast.Not) else ast.UnaryOp(op=ast.Not(), operand=n.test)
            return ast.copy_location(ast.If(test=test, body=n.orelse, orelse=n.body), n)
        return n


class PrivNames(ast.NodeTransformer):
    """every module-level private function / class `_name` of the package becomes `_name_h` (definitions, references, imports, attribute uses)"""
    names: set = set()

    def _r(self, x):
        return x + "_h" if x in self.names else x

    def visit_FunctionDef(self, n):
        n.name = self._r(n.name)
        return self.generic_visit(n)

    visit_ClassDef = visit_AsyncFunctionDef = visit_FunctionDef

    def visit_Name(self, n):
        n.id = self._r(n.id)
        return n

    def visit_Attribute(self, n):
        n.attr = self._r(n.attr)
        return self.generic_visit(n)

    def visit_ImportFrom(self, n):
        for a in n.names:
            a.name = self._r(a.name)
        return n


def _private_defs(pkgdir):
    out = set()
    for root, _, files in os.walk(pkgdir):
        for fn in files:
            if fn.endswith(".py"):
                try:
                    import warnings
                    with warnings.catch_warnings():
                        warnings.simplefilter("ignore", SyntaxWarning)
                        tree = ast.parse(open(os.path.join(root, fn)).read())
                except SyntaxError:
                    continue
                for node in tree.body:
                    if isinstance(node, (ast.FunctionDef, ast.ClassDef)) and node.name.startswith("_") and not node.name.startswith("__"):
                        out.add(node.name)
    return out


def _is_list_display(e):
    return isinstance(e, ast.List) or (isinstance(e, ast.BinOp) and isinstance(e.op, ast.Mult) and (isinstance(e.left, ast.List) or isinstance(e.right, ast.List)))


class Modern(ast.NodeTransformer):
    def visit_BinOp(self, n):
        self.generic_visit(n)
        if isinstance(n.op, ast.Add):
            parts = []

            def flat(e):
                if isinstance(e, ast.BinOp) and isinstance(e.op, ast.Add):
                    flat(e.left)
                    flat(e.right)
                else:
                    parts.append(e)
            flat(n)
            if len(parts) >= 2 and all(_is_list_display(x) for x in parts) and any(isinstance(x, ast.List) for x in parts):
                elts = []
                for x in parts:
                    if isinstance(x, ast.List):
                        elts += x.elts
                    else:
                        elts.append(ast.Starred(value=x, ctx=ast.Load()))
                return ast.copy_location(ast.List(elts=elts, ctx=ast.Load()), n)
        return n

    def visit_BoolOp(self, n):
        self.generic_visit(n)
        if isinstance(n.op, ast.And) and len(n.values) == 2 and all(isinstance(v, ast.Compare) and len(v.ops) == 1 for v in n.values):
            a, b = n.values
            order = (ast.Lt, ast.LtE)
            if isinstance(a.ops[0], order) and isinstance(b.ops[0], order) and isinstance(a.comparators[0], ast.Name) and isinstance(b.left, ast.Name) \
                    and a.comparators[0].id == b.left.id:
                return ast.copy_location(ast.Compare(left=a.left, ops=[a.ops[0], b.ops[0]], comparators=[a.comparators[0], b.comparators[0]]), n)
        return n

    def visit_Call(self, n):
        self.generic_visit(n)
        if isinstance(n.func, ast.Name) and n.func.id == "isinstance" and len(n.args) == 2 and isinstance(n.args[1], ast.Tuple) and len(n.args[1].elts) >= 2 \
                and all(isinstance(t, (ast.Name, ast.Attribute)) for t in n.args[1].elts):
            u = n.args[1].elts[0]
            for t in n.args[1].elts[1:]:
                u = ast.BinOp(left=u, op=ast.BitOr(), right=t)
            n.args[1] = u
        return n

    def _blocks(self, node):
        for f in ("body", "orelse", "finalbody"):
            v = getattr(node, f, None)
            if isinstance(v, list) and v and isinstance(v[0], ast.stmt):
                setattr(node, f, self._walrus(self._match(v)))

    def generic_visit(self, node):
        super().generic_visit(node)
        self._blocks(node)
        for h in getattr(node, "handlers", []) or []:
            self._blocks(h)
        return node

    @staticmethod
    def _walrus(stmts):
        out = []
        i = 0
        while i < len(stmts):
            s = stmts[i]
            nxt = stmts[i + 1] if i + 1 < len(stmts) else None
            if isinstance(s, ast.Assign) and len(s.targets) == 1 and isinstance(s.targets[0], ast.Name) and isinstance(nxt, ast.If) \
                    and isinstance(nxt.test, ast.Compare) and isinstance(nxt.test.left, ast.Name) and nxt.test.left.id == s.targets[0].id \
                    and not any(isinstance(x, (ast.NamedExpr, ast.Lambda, ast.ListComp, ast.GeneratorExp)) for x in ast.walk(s.value)):
                nxt.test.left = ast.NamedExpr(target=ast.Name(id=s.targets[0].id, ctx=ast.Store()), value=s.value)
                out.append(nxt)
                i += 2
                continue
            out.append(s)
            i += 1
        return out

    @staticmethod
    def _match(stmts):
        out = []
        for s in stmts:
            arms, cur, subj = [], s, None
            while isinstance(cur, ast.If) and isinstance(cur.test, ast.Compare) and len(cur.test.ops) == 1 and isinstance(cur.test.ops[0], ast.Eq) \
                    and isinstance(cur.test.left, ast.Name) and isinstance(cur.test.comparators[0], ast.Constant) \
                    and isinstance(cur.test.comparators[0].value, (str, int)) and not isinstance(cur.test.comparators[0].value, bool) \
                    and (subj is None or subj == cur.test.left.id):
                subj = cur.test.left.id
                arms.append((cur.test.comparators[0], cur.body))
                if len(cur.orelse) == 1 and isinstance(cur.orelse[0], ast.If):
                    cur = cur.orelse[0]
                else:
                    rest = cur.orelse
                    cur = None
                    break
            if cur is None and len(arms) >= 2 and not any(isinstance(x, ast.Name) and isinstance(x.ctx, ast.Store) and x.id == subj for a in arms for st in a[1] for x in ast.walk(st)):
                cases = [ast.match_case(pattern=ast.MatchValue(value=c), guard=None, body=b) for c, b in arms]
                if rest:
                    cases.append(ast.match_case(pattern=ast.MatchAs(pattern=None, name=None), guard=None, body=rest))
                out.append(ast.copy_location(ast.Match(subject=ast.Name(id=subj, ctx=ast.Load()), cases=cases), s))
            else:
                out.append(s)
        return out


REWRITES = {"privnames": PrivNames, "modern": Modern, "methods": Methods, "transpose": Transpose, "isinstance": IsInstance, "catnames": CatNames, "flipcmp": FlipCmp, "ifswap": IfSwap}


def rewrite_tree(pkgdir: str, which: str) -> int:
    """rewrite every module under pkgdir in place; returns the number of modules changed"""
    cls = REWRITES[which]
    if which == "privnames":
        PrivNames.names = _private_defs(pkgdir)
    n = 0
    for root, _, files in os.walk(pkgdir):
        for fn in files:
            if not fn.endswith(".py"):
                continue
            p = os.path.join(root, fn)
            src = open(p).read()
            try:
                import warnings
                with warnings.catch_warnings():
                    warnings.simplefilter("ignore", SyntaxWarning)
                    tree = ast.parse(src)
            except SyntaxError:
                continue
            before = ast.dump(tree)
            tree = cls().visit(tree)
            ast.fix_missing_locations(tree)
            if ast.dump(tree) != before:
                open(p, "w").write(ast.unparse(tree) + "\n")
                n += 1
    return n
